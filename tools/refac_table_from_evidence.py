#!/venv/bin/python
"""Build refactors/FALSE_ALARM_TABLE.txt from the evidence of the last thorough runs: each property's thorough tier applies every adopted
behaviour-preserving refactoring and records the non-silent ones (coverage.sensitivity_audit.behaviour_preserving_refactorings)."""
import glob
import json
import os
import sys

V = '/verif'
names = sorted(n for n in os.listdir(f'{V}/refactors') if os.path.isfile(f'{V}/refactors/{n}/patch.diff'))
per = {n: {} for n in names}
missing = []
for f in sorted(glob.glob(f'{V}/evidence/C??.json')):
    e = json.load(open(f))
    sa = e['coverage'].get('sensitivity_audit')
    rf = sa.get('behaviour_preserving_refactorings') if isinstance(sa, dict) else None
    if not isinstance(rf, dict):
        missing.append(e['property_id'])
        continue
    total = sum(rf['summary'].values())
    if total != len(names):
        missing.append(f"{e['property_id']}({total}/{len(names)})")
    for n, st in rf.get('not_silent', {}).items():
        per.setdefault(n, {})[e['property_id']] = st
if missing:
    print('evidence without a complete refactoring audit (run ./check <ID> --tier thorough):', ' '.join(missing), file=sys.stderr)
    sys.exit(2)
for n in names:
    bad = {k: v for k, v in per[n].items() if v == 'FALSE-ALARM'}
    und = {k: v for k, v in per[n].items() if v != 'FALSE-ALARM'}
    st = 'FALSE-ALARM' if bad else 'undecided' if und else 'silent'
    print(f"{n:<14} {st:<12} {' '.join(f'{k}:{v}' for k, v in sorted({**bad, **und}.items()))}")
