"""What MANIFEST.json claims.  A property appears in CLAIMS only when its rule module exists and passes on the tree."""
FIX_COMMITS = ["df712f1 (C08)", "2aecc62 (C20)", "cb1690d (C04)", "73ebd7e (C13)", "c5bd516 (C03)", "b4ea818 (C07/C19)"]

CLAIMS = {
 "C07": {
  "text": "Static decision of the structural clauses: inside ReadParameter every store of a numeric value is dominated by the range test, stores the tested candidate unchanged and the failing side raises ValueError naming the parameter (V1); the test accepts exactly the closed declared range, decided over the finite set of orderings of candidate vs bounds (V2); every class Model/HIP-RA can instantiate routes its whole ParameterDict through a canonical reader loop with no extra guard/filter/early exit (V3); no try/except on a path from an entry point to the reader swallows the rejection (V4); every numeric declaration's initial/default value lies in its declared domain, because the reader returns before the test for inputs equal to it (V6, exhaustive over all declarations); the tested value is not a lossy coercion of the text (V7); special-case stores from raw text come after validation (V8). This is the right level because acceptance depends only on comparisons and routing, both visible in the code's shape for every input.",
  "note": "Trusted: CPython ast; the call-resolution of gxstat.callgraph (over-approximate on unknown receivers); declared Min/Max/AllowableRange constant-folded from source (1 declaration not foldable, reported). Not decided: pint errors for unit-suffixed inputs; list-valued parameters.",
  "technique": "AST dominance/typestate walk over ReadParameter + finite-ordering evaluation of the range predicate + call-graph routing and exception-handler analysis + exhaustive declaration-table check",
 },
}

NOT_APPLICABLE = {}
for _i in range(1, 21):
    _p = f"C{_i:02d}"
    if _p not in CLAIMS:
        NOT_APPLICABLE[_p] = "rule module not built yet in this session (see DESIGN.md build order); not claimed until it exists and passes both sides of its self-test"
