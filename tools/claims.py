"""What MANIFEST.json claims.  A property appears in CLAIMS only when its rule module exists and passes on the tree."""
FIX_COMMITS = ["df712f1 (C08)", "2aecc62 (C20)", "cb1690d (C04)", "73ebd7e (C13)", "c5bd516 (C03)", "b4ea818 (C07/C19)", "594e79c (C08)", "6c0bda4 (C12)", "4bd5621 (C12)"]

CLAIMS = {
 "C07": {
  "text": "Static decision of the structural clauses: inside ReadParameter every store of a numeric value is dominated by the range test, stores the tested candidate unchanged and the failing side raises ValueError naming the parameter (V1); the test accepts exactly the closed declared range, decided over the finite set of orderings of candidate vs bounds (V2); every class Model/HIP-RA can instantiate routes its whole ParameterDict through a canonical reader loop with no extra guard/filter/early exit (V3); no try/except on a path from an entry point to the reader swallows the rejection (V4); every numeric declaration's initial/default value lies in its declared domain, because the reader returns before the test for inputs equal to it (V6, exhaustive over all declarations); the tested value is not a lossy coercion of the text (V7); special-case stores from raw text come after validation (V8). This is the right level because acceptance depends only on comparisons and routing, both visible in the code's shape for every input.",
  "note": "Trusted: CPython ast; the call-resolution of gxstat.callgraph (over-approximate on unknown receivers); declared Min/Max/AllowableRange constant-folded from source (1 declaration not foldable, reported). Not decided: pint errors for unit-suffixed inputs; list-valued parameters.",
  "technique": "AST dominance/typestate walk over ReadParameter + finite-ordering evaluation of the range predicate + call-graph routing and exception-handler analysis + exhaustive declaration-table check",
 },
 "C08": {
  "text": "Static effect/typestate analysis of the clauses visible in code shape: every library wrapper and __main__ from which os.chdir or a sys.argv store is reachable in-process stashes the state and restores it in a finally covering every mutating site (P1, call-graph based, process-pool boundary respected); inventory of all process-wide mutable state (globals, class-level mutables, foreign-module attribute writes, 12 memoised functions) against an allow-list with reasons, anything new is a violation (P2); a run builds a fresh Model and all 541 parameter objects inside __init__ (P3); clock/uuid/hash/RNG values flow only to stamp lines, logs and temp-file names (P4); the client cache key depends on the request text and the cached/parsed result is the request's own (P5); no mutable default arguments (P6). Numerical identity of repeated runs is not decidable statically and is not claimed.",
  "note": "Trusted: gxstat call graph (by-name resolution on unknown receivers), allow-list rows in rules/c08.py (each with its reason). Assumes a callable handed to ProcessPoolExecutor runs in another process. Not decided: bit-identical floats across histories, third-party internal caches.",
  "technique": "call-graph effect analysis + try/finally typestate check + global-state inventory against a reasoned allow-list + syntactic taint of nondeterminism sources to sinks",
 },
 "C13": {
  "text": "Static decision of the RNG discipline and row-count clauses: every draw from numpy's global generator inside the callable handed to ProcessPoolExecutor is dominated by a reseed from fresh entropy (or per-task generator / reseeding pool initializer) (M1); exactly one complete, newline-terminated row is appended unconditionally inside the lock per non-raising path (M2); the distribution dispatch covers exactly the five documented names, each arm calling the same-named numpy distribution with the settings fields in order and recording the drawn value verbatim (M3). Distinctness and support of samples then follow from numpy's documented semantics, which are assumed, not analysed.",
  "note": "Trusted: numpy.random.seed() reseeds from OS entropy; pool workers have their own generator copy. Not decided: statistical quality, OS scheduling.",
  "technique": "AST dominance check of reseed over draw sites in pool-submitted callables + path counting of the locked append + dispatch-table comparison",
 },
 "C14": {
  "text": "Static decision of the structural clauses: one token per requested output on every path, header/row iterate the same lists in the same order, pass_list packing positions equal unpacking positions (Q1); single write inside the lock, failed acquisition not silently dropped (Q2); each reported statistic is filled from the matching numpy reducer over axis 0 of the parsed rows and text block and JSON come from one dictionary (Q3); the task never mutates objects shared through pass_list and uses uniquely named temp files (Q4); the sampled values recorded in the row are exactly the text appended to the simulated file (Q5). Re-simulating a row is a runtime property and not claimed.",
  "note": "Trusted: numpy reducer semantics, pylocker providing mutual exclusion while the with-block runs. Two genuine defects are recorded as known findings (Q1 skipped token, Q2 dropped row on lock time-out).",
  "technique": "AST path counting, alias/position tables between cooperating sites, reducer-pairing table check, mutation-effect scan of the worker",
 },
 "C20": {
  "text": "Static decision of: one simulation pipeline (Model -> read_parameters -> Calculate -> PrintOutputs -> JSON) exists only in GEOPHIRESv3.main, unconditional and in order, and CLI, client and Monte-Carlo driver reach it (N1); `python -m geophires_x` ends non-zero on every path where main() does not return normally: rc initialised non-zero, set to 0 only after main() returns, every status-less sys.exit()/exit() reachable from main() is intercepted and mapped to non-zero, report-writer failures are not swallowed (N2); argv[1]/argv[2] are made absolute before main() changes directory, default HDR.out in the caller's cwd, JSON path derived from the report path (N3). Byte-identical reports across entry points depend on run-time state and are not claimed.",
  "note": "Trusted: gxstat call graph for reachability of exit sites (over-approximate). Not decided: file-system behaviour; the undocumented script entry without argv[2].",
  "technique": "call-graph who-may-call rule + must-pass-through ordering in main + exit-status typestate on __main__'s try/except/finally",
 },
 "C12": {
  "text": "Static decision of the whole property's mechanism: read_input_file opens in text mode with universal newlines, strips each line, skips exactly the prefixes {#, --, *}, takes name and value as the stripped first two comma fields (so trailing comments cannot reach the value) and stores unconditionally in file order so the last occurrence wins (L1); every iteration over the input map in src/ is commutative (keyed stores only) except the one documented add-on exception, and all reader loops iterate the module's own dictionary, so special-case code never observes file order (L2); the client writes base-file lines before override lines, both appending (L3); copy-then-append of input lines guarantees a line break (L4). Since the layout reaches the model only through these sites, the structural facts decide the property; nothing numeric is involved.",
  "note": "Trusted: CPython text-mode newline translation and str.strip/split semantics. Two genuine L4 defects were repaired (fix: commits 6c0bda4, 4bd5621).",
  "technique": "AST fact extraction on the tokenizer + effect (commutativity) classification of every loop over the input map + ordering check of cooperating writer sites",
 },
 "C19": {
  "text": "Exhaustive static comparison of three tables read from the source: (1) every input declaration (name, kind, DefaultValue, Min/Max/AllowableRange, CurrentUnits, Required - the very objects ReadParameter enforces, constant-folded from the AST) of every class Model/HIP-RA-X can instantiate, (2) the committed geophires-request.json / hip-ra-x-request.json, (3) the client's _RESULT_FIELDS_BY_CATEGORY vs geophires-result.json. Decides none-missing/none-extra (Y1, Y3), equality of type/default/bounds/units/required for identically declared parameters with tolerance 1e-5 for the generator's float rounding (Y2), and result-field equality (Y4). 'committed = generated' needs the generator to run and is a baseline test, not claimed here.",
  "note": "Trusted: registry constant folder (1 default not foldable: Fixed Internal Rate, reported). 8 genuine discrepancies recorded as known findings (6 instantiable classes not enumerated by the generator => 30 accepted parameters unpublished; 2 enum-valued defaults published as '').",
  "technique": "table extraction from AST + exhaustive three-way table comparison (declarations / schema JSON / client field table)",
 },
}

NOT_APPLICABLE = {}
for _i in range(1, 21):
    _p = f"C{_i:02d}"
    if _p not in CLAIMS:
        NOT_APPLICABLE[_p] = "rule module not built yet in this session (see DESIGN.md build order); not claimed until it exists and passes both sides of its self-test"
