#!/venv/bin/python
"""Copy confirmed behaviour-preserving refactorings from /tmp/refac/<PID>/<k> into /verif/refactors/<PID>-r<k>/ (patch.diff, equiv.py,
meta.json) with my own confirmation (tools/refactool.py confirm) recorded in meta.json."""
import json, os, shutil, sys, glob
CONFIRM_DIR = sys.argv[1] if len(sys.argv) > 1 else '/tmp/confirm3'
for cj in sorted(glob.glob(CONFIRM_DIR + '/*.json')):
    try:
        c = json.load(open(cj))
    except Exception:
        continue
    name = os.path.basename(cj)[:-5]
    if not c.get('confirmed'):
        print('not confirmed', name)
        continue
    dst = f'/verif/refactors/{name}'
    src = c['source']
    os.makedirs(dst, exist_ok=True)
    for fn in ('patch.diff', 'equiv.py'):
        shutil.copy(os.path.join(src, fn), os.path.join(dst, fn))
    meta = json.load(open(os.path.join(src, 'meta.json')))
    meta['confirmed_by_me'] = {
        'repo_head': c['repo_head'], 'equiv_record_exit_clean_tree': c['record_exit'], 'equiv_check_exit_clean_tree': c['check_clean_exit'],
        'equiv_check_exit_with_patch': c['check_patched_exit'], 'baseline_stable_tests_missing_with_patch': c['stable_missing'],
        'pytest_summary_with_patch': c.get('tests_tail', ''),
        'what_i_ran': 'tools/refactool.py confirm: fresh worktree of /repo HEAD under /tmp/cw, equiv.py --record on the clean tree, equiv.py --check on '
                      'the clean tree (determinism), git apply patch.diff, equiv.py --check again (must exit 0), then the pinned baseline pytest '
                      'command with --junitxml compared against BASELINE.json stable_pass; worktree removed afterwards',
    }
    json.dump(meta, open(os.path.join(dst, 'meta.json'), 'w'), indent=1)
    print('adopted', name)
