#!/venv/bin/python
"""Copy confirmed seeds from /tmp/seeds into /verif/seeded/<PID>-<k>/ with my own confirmation recorded in meta.json."""
import json, os, shutil, sys, glob
CONFIRM_DIR = sys.argv[1] if len(sys.argv) > 1 else '/tmp/confirm'
for cj in sorted(glob.glob(CONFIRM_DIR + '/*.json')):
    try:
        c = json.load(open(cj))
    except Exception:
        continue
    name = os.path.basename(cj)[:-5]
    dst = f'/verif/seeded/{name}'
    if not c.get('confirmed'):
        continue
    if os.path.exists(dst):
        continue
    src = c['seed']
    os.makedirs(dst, exist_ok=True)
    for fn in ('patch.diff', 'demo.py'):
        shutil.copy(os.path.join(src, fn), os.path.join(dst, fn))
    meta = json.load(open(os.path.join(src, 'meta.json')))
    meta['confirmed_by_me'] = {
        'repo_head': c['repo_head'], 'demo_exit_clean_tree': c['demo_clean_exit'], 'demo_exit_with_patch': c['demo_patched_exit'],
        'baseline_stable_tests_missing_with_patch': c['stable_missing'], 'pytest_summary_with_patch': c['tests_tail'],
        'what_i_ran': 'tools/seedtool.py confirm: fresh worktree of /repo HEAD under /tmp/cw, demo.py on the clean tree, git apply patch.diff, '
                      'demo.py again, then the pinned baseline pytest command with --junitxml and comparison against BASELINE.json stable_pass; worktree removed afterwards',
    }
    json.dump(meta, open(os.path.join(dst, 'meta.json'), 'w'), indent=1)
    print('adopted', name)
