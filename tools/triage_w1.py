#!/venv/bin/python
"""Triage helper (NOT part of any registered check): for every W1 'label=PreferredUnits' report of ./check C09, run the
real program once with a `Units:<Name>,<alt unit>` request on an example whose stored report contains that label and
record whether the printed number changes while the unit label stays (a witnessed defect).  Output: /tmp/triage_w1.json"""
import glob
import json
import os
import re
import subprocess
import sys
import tempfile
from concurrent.futures import ThreadPoolExecutor

sys.path.insert(0, os.path.dirname(os.path.dirname(os.path.abspath(__file__))))
from gxstat.srcmodel import Repo           # noqa: E402
from gxstat.registry import get_registry, EnumRef   # noqa: E402

ALT = {'degC': 'degF', 'MW': 'kW', 'kW': 'MW', 'kPa': 'psi', 'MUSD': 'KUSD', 'MUSD/yr': 'KUSD/yr', '%': '', 'cents/kWh': 'USD/kWh', 'USD/MMBTU': 'USD/kWh',
       'GWh/year': 'MWh/year', 'kg/sec': 'kg/hr', 'yr': 'week', 'kWh/yr': 'MWh/year', 'GWh': 'MWh', 'tonne': 'kg', 'USD/tonne': 'USD/lb', 'kWh': 'MWh',
       'kW/yr': 'MW/yr', 'GW/yr': 'MW/yr', 'MWh/year': 'GWh/year', 'degC/m': 'degC/km', 'meter': 'feet', 'USD': 'KUSD', 'USD/yr': 'KUSD/yr'}
EX = '/repo/tests/examples'


def run(inp_text):
    d = tempfile.mkdtemp(prefix='triage-')
    p = os.path.join(d, 'in.txt')
    open(p, 'w').write(inp_text)
    out = os.path.join(d, 'out.txt')
    r = subprocess.run(['/venv/bin/python', '-m', 'geophires_x', p, out], capture_output=True, text=True, timeout=600, cwd=d)
    txt = open(out).read() if os.path.exists(out) else ''
    return r.returncode, txt


def main():
    repo = Repo()
    reg = get_registry(repo)
    v = json.load(open('/verif/evidence/C09.violation.json'))['violations']
    cands = [x for x in v if x['rule'] == 'W1' and x['key'].endswith('label=PreferredUnits')]
    outs = {os.path.basename(f): open(f, errors='replace').read() for f in glob.glob(EX + '/*.out')}
    jobs = []
    for x in cands:
        cls, label, val = x['key'].split('/')[0], x['key'].split('/')[1], x['key'].split('value=')[1].split('/')[0]
        decl = next((d for d in reg.decls if d.attr == val and not d.is_input and isinstance(d.name, str)), None)
        if decl is None:
            jobs.append((x, None, None, None, 'no decl'))
            continue
        u = decl.get('PreferredUnits') or decl.get('CurrentUnits')
        us = reg.enums.enums.get(u.enum, {}).get(u.member) if isinstance(u, EnumRef) else None
        alt = ALT.get(us)
        ex = next((k for k, t in sorted(outs.items()) if f'{label}:' in t and os.path.exists(f'{EX}/{k[:-4]}.txt') and 'Beckers' not in k and 'Wanju' not in k), None)
        jobs.append((x, decl.name, alt, ex, us))

    def work(j):
        x, name, alt, ex, us = j
        if not name or alt is None or ex is None:
            return {'key': x['key'], 'status': 'not-tried', 'why': f'name={name} unit={us} alt={alt} example={ex}'}
        base_in = open(f'{EX}/{ex[:-4]}.txt', errors='replace').read()
        label = x['key'].split('/')[1]
        rc0, t0 = run(base_in)
        rc1, t1 = run(base_in + f'\nUnits:{name},{alt}\n')
        l0 = [l for l in t0.splitlines() if f'{label}:' in l]
        l1 = [l for l in t1.splitlines() if f'{label}:' in l]
        if rc1 != 0 or not l1 or not l0:
            return {'key': x['key'], 'status': 'run-failed', 'why': f'rc={rc1} example={ex} directive=Units:{name},{alt}'}
        changed = l0[0] != l1[0]
        num0, num1 = re.findall(r'[-0-9.,]+', l0[0].split(':')[-1]), re.findall(r'[-0-9.,]+', l1[0].split(':')[-1])
        unit0, unit1 = l0[0].split()[-1], l1[0].split()[-1]
        witnessed = changed and num0 != num1 and unit0 == unit1
        return {'key': x['key'], 'status': 'witnessed' if witnessed else 'not-witnessed', 'example': ex, 'directive': f'Units:{name},{alt}',
                'before': l0[0].strip(), 'after': l1[0].strip()}
    with ThreadPoolExecutor(max_workers=12) as ex_:
        res = list(ex_.map(work, jobs))
    json.dump(res, open('/tmp/triage_w1.json', 'w'), indent=1)
    from collections import Counter
    print(Counter(r['status'] for r in res))
    for r in res:
        if r['status'] != 'witnessed':
            print(r['status'], r['key'][:90], r.get('why', ''), r.get('before', ''), '|', r.get('after', ''))


if __name__ == '__main__':
    main()
