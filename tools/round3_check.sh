#!/bin/bash
# run every claimed check on each round-3 seed of one property: prints which checks report it
PID=$1
mkdir -p /tmp/sx3
for k in 1 2 3; do
  d=/tmp/seeds3/$PID/$k
  [ -f $d/patch.diff ] || continue
  /venv/bin/python /verif/tools/refactool.py check $d > /tmp/sx3/$PID-$k.all.json 2>/dev/null
  python3 - "$PID" "$k" <<'PY'
import json,sys
P,k=sys.argv[1:3]
try: d=json.load(open(f'/tmp/sx3/{P}-{k}.all.json'))
except Exception as e: print(P,k,'ERR',e); sys.exit()
hits=[f"{p}:{(v['reports'][0].split('rule=')[1].split()[0] if v['reports'] and 'rule=' in v['reports'][0] else 'exit'+str(v['exit']))}" for p,v in sorted(d.items()) if v['exit']!=0]
own=d.get(P,{}).get('exit')
print(f"{P}-r3-{k} own={ {0:'MISSED',1:'caught',2:'undecided'}.get(own,own) } all: {' '.join(hits) or '-'}")
PY
done
