#!/bin/bash
# seed_own_check.sh <seed name>: the own-property quick check on a scratch copy of /repo/src with the seeded patch applied (one line of output)
n=$1
V=$(cd "$(dirname "$0")/.." && pwd)
P=$(python3 -c "import json;print(json.load(open('$V/seeded/$n/meta.json'))['property'])")
d=$(mktemp -d); cp -r /repo/src $d/src; (cd $d && git init -q . 2>/dev/null && git apply $V/seeded/$n/patch.diff 2>/dev/null) || { printf '%-14s %-5s %-15s %s\n' $n $P patch-stale ''; rm -rf $d; exit; }
out=$(GXSTAT_REPO=$d GXSTAT_NO_EVIDENCE=1 /venv/bin/python $V/gxstat/selftest_child.py $P quick $d 2>&1); rc=$?
rule=$(echo "$out" | grep -v "^KNOWN\|^INFO" | grep -o "rule=[A-Z0-9]*" | head -1 | sed 's/rule=//')
st=MISSED; [ $rc = 1 ] && st=caught; [ $rc = 2 ] && st=analysis-error
printf '%-14s %-5s %-15s %s\n' $n $P $st "$P:${rule:-$rc}"
rm -rf $d
