#!/venv/bin/python
"""Regenerates /verif/MANIFEST.json from the claims table below (only built checks are claimed)."""
import json, os, sys
HERE = os.path.dirname(os.path.dirname(os.path.abspath(__file__)))
sys.path.insert(0, HERE)
from tools.claims import CLAIMS, NOT_APPLICABLE, FIX_COMMITS, ADDENDA  # noqa

BASE = "cd /repo && /venv/bin/python -m pytest -ra -q -p no:cacheprovider --timeout=900 --continue-on-collection-errors"
m = {
    "version": 1,
    "setup_cmd": "/venv/bin/python -c \"import ast, sys; sys.path.insert(0, '/verif'); import gxstat.runner\"",
    "hooks": {"guard": "GEOPHIRES_X_VERIF", "enable": "none needed: the checks are static and read /repo's working tree; the guard name is reserved and unused",
              "baseline_off_cmd": BASE, "source_commits": [], "add_only": True},
    "engines": [
        {"name": "gxstat", "path": "gxstat/", "serves_properties": sorted(CLAIMS),
         "kind_free_text": "repository-specific static analysis on CPython's ast: resolved class/call model, parameter registry extraction, syntax-directed flow facts, exact rational normal forms of expressions, sign/degree/unit-scale/affine-index abstract domains, report writer/reader template model"}],
    "checks": [],
    "notes": "All checks are static (level category 'other'): `./check <ID>` parses /repo's working tree on every run, executes nothing from it. Exit 0 = all obligations discharged (known findings printed), 1 = VIOLATION, 2 = ANALYSIS-ERROR (anchor vanished / unsupported construct; never a silent pass). Genuine defects repaired in /repo as 'fix:' commits: " + ", ".join(FIX_COMMITS) + ". Recorded-not-repaired defects are in known_findings.json. Before the rules run the parsed tree is normalised by exact, purely syntactic transformations (single-use private helpers put back into their caller, one-expression helpers inlined, returned variables renamed back by role; listed per run in evidence coverage.analysed), so that behaviour-preserving refactorings are analysed as the code they are. The thorough tier additionally audits the checker itself on scratch copies (catalogued mutants/twins, 178 seeded defects and about 300 behaviour-preserving refactorings by independent authors); the audit never changes the verdict on the tree.",
    "not_applicable": [{"property_id": k, "reason": v} for k, v in sorted(NOT_APPLICABLE.items())],
}
for pid in sorted(CLAIMS):
    c = CLAIMS[pid]
    m["checks"].append({
        "property_id": pid,
        "quick_cmd": f"./check {pid} --tier quick",
        "thorough_cmd": f"./check {pid} --tier thorough",
        "evidence_file": f"evidence/{pid}.json",
        "replay_cmd_template": f"./check {pid} --replay {{path}}",
        "engine": "gxstat",
        "level_claimed": {"category": "other", "text": (c["text"] + " " + ADDENDA.get(pid, "")).strip(), "design_ref": f"DESIGN.md section 4, {pid}"},
        "level_note": c["note"],
        "technique": c["technique"],
    })
with open(os.path.join(HERE, "MANIFEST.json"), "w") as f:
    json.dump(m, f, indent=1)
    f.write("\n")
print("MANIFEST.json:", len(m["checks"]), "checks,", len(m["not_applicable"]), "not applicable")
