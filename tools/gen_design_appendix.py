#!/venv/bin/python
"""Regenerate the generated appendices of DESIGN.md (between the BEGIN/END markers) from the evidence files, the seeded-change
directories and known_findings.json.  Run after `./check <all>` and `tools/seedtool.py checkall > /verif/seeded/CATCH_TABLE.txt`."""
import glob
import json
import os

V = '/verif'


def rules_block() -> str:
    out = []
    for f in sorted(glob.glob(f'{V}/evidence/C??.json')):
        e = json.load(open(f))
        cov = e['coverage']
        if 'rules' not in cov:
            continue
        out.append(f"**{e['property_id']}** — {cov['obligations']} obligations ({cov['distinct_nontrivial']} distinct); per rule "
                   + ', '.join(f'{k} {v}' for k, v in cov['obligations_by_rule'].items()))
        for r, t in cov['rules'].items():
            out.append(f'* `{r}` {t}')
        nd = cov.get('not_decided') or []
        if nd:
            out.append('* *not decided:* ' + '; '.join(nd))
        out.append('')
    return '\n'.join(out)


def seeds_block() -> str:
    catch = {}
    p = f'{V}/seeded/CATCH_TABLE.txt'
    if os.path.exists(p):
        for line in open(p):
            parts = line.split()
            if len(parts) >= 3:
                catch[parts[0]] = (parts[2], parts[3] if len(parts) > 3 else '')
    out = ['| seeded change | what was changed (author\'s summary, shortened) | needs to manifest | verdict of the property\'s own check |', '|---|---|---|---|']
    for d in sorted(glob.glob(f'{V}/seeded/C*-*')):
        m = json.load(open(os.path.join(d, 'meta.json')))
        name = os.path.basename(d)
        st, by = catch.get(name, ('?', ''))
        summ = m.get('summary', '').replace('|', '/').replace('\n', ' ')
        need = m.get('needs_to_manifest', '').replace('|', '/').replace('\n', ' ')
        out.append(f"| {name} | {summ[:230]}{'…' if len(summ) > 230 else ''} | {need[:160]}{'…' if len(need) > 160 else ''} | {st} {by} |")
    return '\n'.join(out)


def findings_block() -> str:
    k = json.load(open(f'{V}/known_findings.json'))
    out = ['| property / rule | construct (key) | what fails | witness |', '|---|---|---|---|']
    for f in k['findings']:
        if f.get('status') != 'open':
            continue
        out.append(f"| {f['property']} {f['rule']} | `{f['key'][:90]}` | {f['what'][:260].replace('|', '/')}{'…' if len(f['what']) > 260 else ''} | "
                   f"{f.get('witness', '')[:220].replace('|', '/')}{'…' if len(f.get('witness', '')) > 220 else ''} |")
    out.append('')
    out.append('Repaired in `/repo` (each a separate `fix:` commit; the entry suppresses nothing):')
    out.append('')
    for f in k['fixed']:
        out.append(f'* {f}')
    return '\n'.join(out)


def refactorings_block() -> str:
    table = {}
    p = f'{V}/refactors/FALSE_ALARM_TABLE.txt'
    if os.path.exists(p):
        for line in open(p):
            parts = line.split(None, 2)
            if len(parts) >= 2:
                table[parts[0]] = (parts[1], parts[2].strip() if len(parts) > 2 else '')
    out = ['| refactoring | function(s) | kind of rewrite (author) | all 20 checks on it |', '|---|---|---|---|']
    for d in sorted(glob.glob(f'{V}/refactors/C*-[rst]*')):
        m = json.load(open(os.path.join(d, 'meta.json')))
        name = os.path.basename(d)
        st, which = table.get(name, ('?', ''))
        fns = m.get('functions', m.get('function', ''))
        fns = ', '.join(fns) if isinstance(fns, list) else str(fns)
        kind = str(m.get('kind', '')).replace('|', '/').replace('\n', ' ')
        out.append(f"| {name} | {fns[:90].replace('|', '/')}{'…' if len(fns) > 90 else ''} | {kind[:110]}{'…' if len(kind) > 110 else ''} | {st}{(' (' + which + ')') if which else ''} |")
    return '\n'.join(out)


def main():
    p = f'{V}/DESIGN.md'
    s = open(p).read()
    for tag, fn in (('RULES-AS-BUILT', rules_block), ('SEEDED-CHANGES', seeds_block), ('FINDINGS', findings_block),
                    ('REFACTORINGS', refactorings_block)):
        b, e = f'<!-- BEGIN {tag} -->', f'<!-- END {tag} -->'
        if b not in s or e not in s:
            print('marker missing:', tag)
            continue
        i, j = s.index(b) + len(b), s.index(e)
        s = s[:i] + '\n' + fn() + '\n' + s[j:]
    open(p, 'w').write(s)
    print('DESIGN.md appendices regenerated')


if __name__ == '__main__':
    main()
