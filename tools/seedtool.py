#!/venv/bin/python
"""Confirm and evaluate seeded changes produced by independent sub-agents.

  seedtool.py confirm <seed_dir>            demo passes on clean tree, fails with patch, baseline tests unchanged
  seedtool.py check <seed_dir> [PID ...]    run ./check on a scratch copy of /repo/src with the patch applied
  seedtool.py checkall                      every /verif/seeded/* against the property it breaks (summary table)
Scratch worktrees/copies live under /tmp and are removed afterwards."""
import json
import os
import shutil
import subprocess
import sys
import tempfile
import xml.etree.ElementTree as ET

VERIF = os.path.dirname(os.path.dirname(os.path.abspath(__file__)))
BASE = json.load(open('/root/.vp/BASELINE.json'))
STABLE = set(BASE['stable_pass'])
PY = '/venv/bin/python'


def sh(cmd, **kw):
    return subprocess.run(cmd, shell=isinstance(cmd, str), capture_output=True, text=True, **kw)


def run_demo(wt, demo, timeout=600):
    d = tempfile.mkdtemp(prefix='seed-demo-')
    try:
        env = dict(os.environ, PYTHONPATH=os.path.join(wt, 'src'))
        p = subprocess.run([PY, demo], cwd=d, env=env, capture_output=True, text=True, timeout=timeout)
        return p.returncode, (p.stdout + p.stderr)[-1500:]
    except subprocess.TimeoutExpired:
        return 124, 'timeout'
    finally:
        shutil.rmtree(d, ignore_errors=True)


def confirm(seed_dir, name=None):
    seed_dir = os.path.abspath(seed_dir)
    name = name or '-'.join(seed_dir.rstrip('/').split('/')[-2:])
    wt = f'/tmp/cw/{name}'
    sh(f'git -C /repo worktree remove --force {wt}')
    os.makedirs('/tmp/cw', exist_ok=True)
    r = sh(f'git -C /repo worktree add -q --detach {wt} HEAD')
    res = {'seed': seed_dir, 'repo_head': sh('git -C /repo rev-parse --short HEAD').stdout.strip()}
    try:
        if r.returncode != 0:
            res['error'] = 'worktree: ' + r.stderr
            return res
        demo = os.path.join(seed_dir, 'demo.py')
        patch = os.path.join(seed_dir, 'patch.diff')
        rc0, out0 = run_demo(wt, demo)
        res['demo_clean_exit'] = rc0
        a = sh(f'git -C {wt} apply {patch}')
        if a.returncode != 0:
            a = sh(f'git -C {wt} apply --3way {patch}')
        if a.returncode != 0:
            res['error'] = 'patch does not apply: ' + a.stderr[-300:]
            return res
        rc1, out1 = run_demo(wt, demo)
        res['demo_patched_exit'] = rc1
        res['demo_patched_tail'] = out1[-400:]
        junit = os.path.join(wt, 'junit.xml')
        env = dict(os.environ, PYTHONPATH=os.path.join(wt, 'src'))
        t = subprocess.run([PY, '-m', 'pytest', '-ra', '-q', '-p', 'no:cacheprovider', '--timeout=900',
                            '--continue-on-collection-errors', f'--junitxml={junit}'], cwd=wt, env=env,
                           capture_output=True, text=True, timeout=3000)
        passed = set()
        try:
            for tc in ET.parse(junit).getroot().iter('testcase'):
                if not any(ch.tag in ('failure', 'error', 'skipped') for ch in tc):
                    passed.add(f"{tc.get('classname')}::{tc.get('name')}")
        except Exception as e:
            res['error'] = f'junit: {e}'
        missing = sorted(STABLE - passed)
        res['stable_missing'] = missing
        res['tests_tail'] = t.stdout.strip().splitlines()[-1] if t.stdout.strip() else ''
        res['confirmed'] = (rc0 == 0 and rc1 not in (0, 124) and not missing)
        return res
    finally:
        sh(f'git -C /repo worktree remove --force {wt}')
        shutil.rmtree(wt, ignore_errors=True)


def scratch_with_patch(patch):
    tmp = tempfile.mkdtemp(prefix='seed-src-')
    shutil.copytree('/repo/src', os.path.join(tmp, 'src'), ignore=shutil.ignore_patterns('__pycache__', '*.egg-info', '*.h5', '*.log'))
    a = sh(f'cd {tmp} && git init -q . && git apply {patch}')
    if a.returncode != 0:
        a2 = sh(f'cd {tmp} && patch -p1 --no-backup-if-mismatch < {patch}')
        if a2.returncode != 0:
            shutil.rmtree(tmp, ignore_errors=True)
            raise RuntimeError('patch does not apply to current tree: ' + a.stderr[-200:] + a2.stdout[-200:])
    return tmp


def check(seed_dir, pids=None, tier='quick'):
    seed_dir = os.path.abspath(seed_dir)
    meta = json.load(open(os.path.join(seed_dir, 'meta.json')))
    pids = pids or [meta['property']]
    tmp = scratch_with_patch(os.path.join(seed_dir, 'patch.diff'))
    out = {}
    try:
        for pid in pids:
            p = subprocess.run([PY, os.path.join(VERIF, 'gxstat', 'selftest_child.py'), pid, tier, tmp],
                               capture_output=True, text=True, timeout=900)
            lines = [l for l in p.stdout.splitlines() if 'rule=' in l and 'instance=' in l or l.startswith('ANALYSIS')]
            out[pid] = {'exit': p.returncode, 'reports': lines[:6]}
    finally:
        shutil.rmtree(tmp, ignore_errors=True)
    return out


def checkall(tier='quick', extra=None):
    root = os.path.join(VERIF, 'seeded')
    rows = []
    claimed = [c['property_id'] for c in json.load(open(os.path.join(VERIF, 'MANIFEST.json')))['checks']]
    for name in sorted(os.listdir(root)):
        d = os.path.join(root, name)
        if not os.path.isfile(os.path.join(d, 'meta.json')):
            continue
        meta = json.load(open(os.path.join(d, 'meta.json')))
        pid = meta['property']
        pids = [pid] if pid in claimed else []
        if extra:
            pids = sorted(set(pids + [p for p in extra if p in claimed]))
        if not pids:
            rows.append((name, pid, 'not-claimed', ''))
            continue
        try:
            r = check(d, pids, tier)
        except Exception as e:
            rows.append((name, pid, 'patch-stale', str(e)[:80]))
            continue
        st = 'caught' if any(v['exit'] == 1 for v in r.values()) else ('analysis-error' if any(v['exit'] == 2 for v in r.values()) else 'MISSED')
        by = ';'.join(f"{k}:{(v['reports'][0].split('rule=')[1].split()[0] if v['reports'] and 'rule=' in v['reports'][0] else v['exit'])}" for k, v in r.items())
        rows.append((name, pid, st, by))
    for r in rows:
        print(f'{r[0]:<14} {r[1]:<5} {r[2]:<15} {r[3]}')
    return rows


if __name__ == '__main__':
    cmd = sys.argv[1]
    if cmd == 'confirm':
        print(json.dumps(confirm(sys.argv[2], sys.argv[3] if len(sys.argv) > 3 else None), indent=1))
    elif cmd == 'check':
        print(json.dumps(check(sys.argv[2], sys.argv[3:] or None), indent=1))
    elif cmd == 'checkall':
        checkall(extra=sys.argv[2:] or None)
