#!/bin/bash
# run all claimed checks on each refactor of one property directory (/tmp/refac/<PID>/k)
PID=$1
for k in 1 2 3 4 5; do
  d=/tmp/refac/$PID/$k
  [ -f $d/patch.diff ] || continue
  echo "== $PID-r$k: $(python3 -c "import json;print(json.load(open('$d/meta.json')).get('summary','')[:120])" 2>/dev/null)"
  /venv/bin/python /verif/tools/refactool.py check $d 2>/dev/null | python3 -c "
import json,sys
try: d=json.load(sys.stdin)
except Exception as e: print('   ERR',e); sys.exit()
bad={k:v for k,v in d.items() if v['exit']!=0}
for k,v in sorted(bad.items()): print('  ',k,'exit',v['exit'],(v['reports'][0][:260] if v['reports'] else ''))
print('   silent' if not bad else '')"
done
