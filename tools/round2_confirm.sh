#!/bin/bash
# confirm the round-2 seeds of one property: /tmp/seeds2/<PID>/<k> -> /tmp/confirm2/<PID>-<k+3>.json
PID=$1
mkdir -p /tmp/confirm2
for k in 1 2 3; do
  d=/tmp/seeds2/$PID/$k
  [ -f $d/patch.diff ] || continue
  n=$PID-$((k+3))
  /venv/bin/python /verif/tools/seedtool.py confirm $d $n > /tmp/confirm2/$n.json 2>/tmp/confirm2/$n.err
  python3 -c "import json;d=json.load(open('/tmp/confirm2/$n.json'));print('$n','confirmed' if d.get('confirmed') else 'NOT-CONFIRMED',d.get('demo_clean_exit'),d.get('demo_patched_exit'),d.get('stable_missing'),d.get('error',''))"
done
