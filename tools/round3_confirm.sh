#!/bin/bash
# confirm the round-3 seeds of one property: /tmp/seeds3/<PID>/<k> -> /tmp/confirm3s/<PID>-<next free index>.json
PID=$1
mkdir -p /tmp/confirm3s
for k in 1 2 3; do
  d=/tmp/seeds3/$PID/$k
  [ -f $d/patch.diff ] || continue
  n=$PID-$((k+6))
  [ -f /tmp/confirm3s/$n.json ] && grep -q '"confirmed"' /tmp/confirm3s/$n.json && continue
  /venv/bin/python /verif/tools/seedtool.py confirm $d $n > /tmp/confirm3s/$n.json 2>/tmp/confirm3s/$n.err
  python3 -c "import json;d=json.load(open('/tmp/confirm3s/$n.json'));print('$n','confirmed' if d.get('confirmed') else 'NOT-CONFIRMED',d.get('demo_clean_exit'),d.get('demo_patched_exit'),d.get('stable_missing'),d.get('error',''))"
done
