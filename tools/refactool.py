#!/venv/bin/python
"""Confirm and evaluate behaviour-preserving refactorings produced by independent sub-agents (the false-alarm side of the seeding).

  refactool.py confirm <dir> <name>     fresh worktree of /repo HEAD: equiv.py --record on the clean tree, apply patch.diff,
                                        equiv.py --check must exit 0, pinned baseline pass set unchanged  -> JSON on stdout
  refactool.py check <dir> [PID ...]    apply the patch to a scratch copy of /repo/src and run the checks (default: all claimed)
  refactool.py checkall                 every /verif/refactors/* against all claimed checks (table)
Scratch worktrees/copies live under /tmp and are removed afterwards."""
import json
import os
import shutil
import subprocess
import sys
import tempfile
import xml.etree.ElementTree as ET
from concurrent.futures import ThreadPoolExecutor

VERIF = os.path.dirname(os.path.dirname(os.path.abspath(__file__)))
BASE = json.load(open('/root/.vp/BASELINE.json'))
STABLE = set(BASE['stable_pass'])
PY = '/venv/bin/python'


def sh(cmd, **kw):
    return subprocess.run(cmd, shell=isinstance(cmd, str), capture_output=True, text=True, **kw)


def run_equiv(wt, script, mode, store, timeout=900):
    d = tempfile.mkdtemp(prefix='equiv-')
    try:
        env = dict(os.environ, PYTHONPATH=os.path.join(wt, 'src'))
        p = subprocess.run([PY, script, mode, store], cwd=d, env=env, capture_output=True, text=True, timeout=timeout)
        return p.returncode, (p.stdout + p.stderr)[-1200:]
    except subprocess.TimeoutExpired:
        return 124, 'timeout'
    finally:
        shutil.rmtree(d, ignore_errors=True)


def confirm(src_dir, name):
    src_dir = os.path.abspath(src_dir)
    wt = f'/tmp/cw/{name}'
    sh(f'git -C /repo worktree remove --force {wt}')
    os.makedirs('/tmp/cw', exist_ok=True)
    r = sh(f'git -C /repo worktree add -q --detach {wt} HEAD')
    res = {'source': src_dir, 'name': name, 'repo_head': sh('git -C /repo rev-parse --short HEAD').stdout.strip()}
    store = tempfile.mktemp(prefix='equiv-store-', suffix='.json')
    try:
        if r.returncode != 0:
            res['error'] = 'worktree: ' + r.stderr
            return res
        script, patch = os.path.join(src_dir, 'equiv.py'), os.path.join(src_dir, 'patch.diff')
        rc0, out0 = run_equiv(wt, script, '--record', store)
        res['record_exit'] = rc0
        if rc0 != 0:
            res['error'] = 'record failed: ' + out0[-300:]
            return res
        # determinism of the script itself on the clean tree
        rcs, outs = run_equiv(wt, script, '--check', store)
        res['check_clean_exit'] = rcs
        a = sh(f'git -C {wt} apply {patch}')
        if a.returncode != 0:
            a = sh(f'git -C {wt} apply --3way {patch}')
        if a.returncode != 0:
            res['error'] = 'patch does not apply: ' + a.stderr[-300:]
            return res
        rc1, out1 = run_equiv(wt, script, '--check', store)
        res['check_patched_exit'] = rc1
        res['check_patched_tail'] = out1[-400:]
        junit = os.path.join(wt, 'junit.xml')
        env = dict(os.environ, PYTHONPATH=os.path.join(wt, 'src'))
        t = subprocess.run([PY, '-m', 'pytest', '-ra', '-q', '-p', 'no:cacheprovider', '--timeout=900', '-n', '4',
                            '--continue-on-collection-errors', f'--junitxml={junit}'], cwd=wt, env=env,
                           capture_output=True, text=True, timeout=3000)
        passed = set()
        try:
            for tc in ET.parse(junit).getroot().iter('testcase'):
                if not any(ch.tag in ('failure', 'error', 'skipped') for ch in tc):
                    passed.add(f"{tc.get('classname')}::{tc.get('name')}")
        except Exception as e:
            res['error'] = f'junit: {e}'
        res['stable_missing'] = sorted(STABLE - passed)
        res['tests_tail'] = t.stdout.strip().splitlines()[-1] if t.stdout.strip() else ''
        res['confirmed'] = (rc0 == 0 and rcs == 0 and rc1 == 0 and not res['stable_missing'])
        return res
    finally:
        sh(f'git -C /repo worktree remove --force {wt}')
        shutil.rmtree(wt, ignore_errors=True)
        if os.path.exists(store):
            os.remove(store)


def scratch_with_patch(patch):
    tmp = tempfile.mkdtemp(prefix='refac-check-')
    shutil.copytree('/repo/src', os.path.join(tmp, 'src'), ignore=shutil.ignore_patterns('__pycache__', '*.pyc', '*.egg-info'))
    a = sh(['patch', '-p1', '-s', '-d', tmp, '-i', patch])
    if a.returncode != 0:
        shutil.rmtree(tmp, ignore_errors=True)
        raise RuntimeError('patch-stale: ' + (a.stdout + a.stderr)[-200:])
    return tmp


def claimed():
    return [c['property_id'] for c in json.load(open(os.path.join(VERIF, 'MANIFEST.json')))['checks']]


def check(src_dir, pids=None):
    src_dir = os.path.abspath(src_dir)
    pids = pids or claimed()
    tmp = scratch_with_patch(os.path.join(src_dir, 'patch.diff'))
    out = {}
    try:
        def one(pid):
            p = subprocess.run([PY, os.path.join(VERIF, 'gxstat', 'selftest_child.py'), pid, 'quick', tmp], capture_output=True, text=True,
                               timeout=900, env=dict(os.environ, GXSTAT_REPO=tmp, GXSTAT_NO_EVIDENCE='1'))
            lines = [l for l in p.stdout.splitlines() if ('rule=' in l and 'instance=' in l) or l.startswith('ANALYSIS')]
            return pid, {'exit': p.returncode, 'reports': lines[:4]}
        with ThreadPoolExecutor(max_workers=8) as ex:
            for pid, r in ex.map(one, pids):
                out[pid] = r
    finally:
        shutil.rmtree(tmp, ignore_errors=True)
    return out


def checkall():
    root = os.path.join(VERIF, 'refactors')
    rows = []
    for name in sorted(os.listdir(root)) if os.path.isdir(root) else []:
        d = os.path.join(root, name)
        if not os.path.isfile(os.path.join(d, 'patch.diff')):
            continue
        try:
            r = check(d)
        except Exception as e:
            rows.append((name, 'patch-stale', str(e)[:60]))
            continue
        bad = {k: v for k, v in r.items() if v['exit'] == 1}
        und = {k: v for k, v in r.items() if v['exit'] == 2}
        st = 'FALSE-ALARM' if bad else ('undecided' if und else 'silent')
        rows.append((name, st, ' '.join(f"{k}:{(v['reports'][0].split('rule=')[1].split()[0] if v['reports'] and 'rule=' in v['reports'][0] else v['exit'])}"
                                         for k, v in {**bad, **und}.items())))
    for r in rows:
        print(f'{r[0]:<14} {r[1]:<12} {r[2]}')
    return rows


if __name__ == '__main__':
    cmd = sys.argv[1]
    if cmd == 'confirm':
        print(json.dumps(confirm(sys.argv[2], sys.argv[3]), indent=1))
    elif cmd == 'check':
        print(json.dumps(check(sys.argv[2], sys.argv[3:] or None), indent=1))
    elif cmd == 'checkall':
        checkall()
