#!/venv/bin/python
"""Run the pinned baseline test command on a tree (default /repo) and compare with BASELINE stable_pass.
Not part of any registered check (it executes the program); used before committing a fix to /repo."""
import json
import os
import subprocess
import sys
import tempfile
import xml.etree.ElementTree as ET

BASE = json.load(open('/root/.vp/BASELINE.json'))
STABLE = set(BASE['stable_pass'])


def main():
    tree = sys.argv[1] if len(sys.argv) > 1 else '/repo'
    extra = sys.argv[2:]
    d = tempfile.mkdtemp(prefix='baseline-')
    junit = os.path.join(d, 'junit.xml')
    env = dict(os.environ, PYTHONPATH=os.path.join(tree, 'src'))
    before = set(subprocess.run(['git', '-C', tree, 'status', '--porcelain'], capture_output=True, text=True).stdout.splitlines())
    t = subprocess.run(['/venv/bin/python', '-m', 'pytest', '-ra', '-q', '-p', 'no:cacheprovider', '--timeout=900',
                        '--continue-on-collection-errors', f'--junitxml={junit}'] + extra, cwd=tree, env=env, capture_output=True, text=True)
    passed = set()
    for tc in ET.parse(junit).getroot().iter('testcase'):
        if not any(ch.tag in ('failure', 'error', 'skipped') for ch in tc):
            passed.add(f"{tc.get('classname')}::{tc.get('name')}")
    missing = sorted(STABLE - passed)
    print(t.stdout.strip().splitlines()[-1] if t.stdout.strip() else '')
    print(f'stable_pass={len(STABLE)} passed_now={len(passed)} missing={len(missing)}')
    for m in missing:
        print('MISSING', m)
    os.remove(junit)
    # the tests drop result files into the tree (HIP.out ...): remove what was not there before
    after = set(subprocess.run(['git', '-C', tree, 'status', '--porcelain'], capture_output=True, text=True).stdout.splitlines())
    for line in sorted(after - before):
        if line.startswith('?? '):
            pth = os.path.join(tree, line[3:])
            if os.path.isfile(pth):
                os.remove(pth)
    os.rmdir(d)
    sys.exit(1 if missing else 0)


if __name__ == '__main__':
    main()
