#!/bin/bash
# first verdicts of all 20 checks on the round-8 refactorings present under /tmp/refac8 (run from a frozen snapshot: vp run -- tools/round8_first.sh)
mkdir -p round8_out
here=$(pwd)
ls -d /tmp/refac8/C*/[1-4] | while read d; do
  [ -f $d/patch.diff ] && [ -f $d/meta.json ] || continue
  n=$(echo $d | sed 's#/tmp/refac8/##; s#/#-w#')
  [ -s round8_out/$n.json ] && continue
  echo "$d $n"
done | xargs -P 3 -L 1 bash -c '/venv/bin/python '$here'/tools/refactool.py check $0 > '$here'/round8_out/$1.json 2>/dev/null'
echo done
