"""HC (shared by C02, C03, C05, C15, C17, C18): unit contracts between helpers and their callers.

The repository writes the unit of a quantity into the *name* of many functions, parameters and locals
(`density_water_kg_per_m3(Twater_degC, pressure)`, `static_pressure_MPa(rho_kg_per_m3, depth_m)`, `Pminimum_kPa`,
`Trock_degC` ...).  Results such as heat extracted, hydrostatic pressure, pumping power and heat in place are right only
if both sides of every such hand-over mean the same unit.  Two rules, both purely structural:

 HC1  the body of each water-property helper keeps the contract its name states: the CoolProp output key is the quantity
      the name says, the temperature goes in as kelvin obtained from the degC parameter, the pressure as pascal obtained
      from the pint quantity, and the result is scaled from SI to the unit of the name suffix; celsius_to_kelvin adds
      273.15; static_pressure_MPa is rho x g x depth converted Pa -> MPa.
 HC2  at every hand-over whose two sides both have a *known* unit - argument vs parameter suffix, value vs target suffix,
      value vs the unit text of quantity(value, 'text'), operands of + and -, returned value vs function suffix - the
      units are equal.  An expression has a known unit only through a small closed set of forms (suffix-named variable or
      function; X.quantity().to('u').magnitude; quantity(e, 'u').to('v').magnitude; a known unit times/divided by the
      literal factor between two units of its dimension; unit-preserving wrappers such as np.average, max, float, x[i]).
      Everything else is unknown and obliges nothing, so the rule cannot fire on arithmetic it does not understand.
"""
from __future__ import annotations

import ast
import re
from typing import Dict, List, Optional, Tuple

from gxstat.inline import inline_sequential
from gxstat.srcmodel import AnalysisError, FuncInfo, call_name, const_value, dotted_name, norm, parent, walk_no_nested

NOT_RUNNABLE = ('AGSWellBores', 'SurfacePlantAGS', 'AGSEconomics', 'TOUGH2Reservoir', 'AGSOutputs')

# unit token -> (dimension, scale to the SI unit of that dimension)
UNITS: Dict[str, Tuple[str, float]] = {
    'Pa': ('pressure', 1.0), 'kPa': ('pressure', 1e3), 'MPa': ('pressure', 1e6), 'bar': ('pressure', 1e5),
    'degC': ('temperature', 1.0), 'kelvin': ('abs-temperature', 1.0),
    'kg_per_m3': ('density', 1.0),
    'J_per_kg_per_K': ('heat-capacity', 1.0), 'kJ_per_kg_per_K': ('heat-capacity', 1e3),
    'kJ_per_kg': ('specific-energy', 1e3), 'J_per_kg': ('specific-energy', 1.0),
    'Pa_sec': ('viscosity', 1.0),
    'm': ('length', 1.0), 'km': ('length', 1e3),
    'kW': ('power', 1e3), 'MW': ('power', 1e6), 'W': ('power', 1.0),
    'MUSD': ('money', 1e6), 'USD': ('money', 1.0),
}
# pint unit texts as written in quantity(...)/.to(...) calls -> token
PINT_TEXT = {'Pa': 'Pa', 'kPa': 'kPa', 'MPa': 'MPa', 'bar': 'bar', 'degC': 'degC', 'kg/m**3': 'kg_per_m3', 'kg/m^3': 'kg_per_m3',
             'm': 'm', 'km': 'km', 'meter': 'm', 'kilometer': 'km', 'kW': 'kW', 'MW': 'MW', 'K': 'kelvin', 'kelvin': 'kelvin',
             'J/kg/K': 'J_per_kg_per_K', 'kJ/kg/K': 'kJ_per_kg_per_K', 'kJ/kg': 'kJ_per_kg'}
SUFFIXES = sorted(UNITS, key=len, reverse=True)
# `_m` / `_km` are also used for "of the medium" (alpha_m, k_m) and "per second in metres" (vprod_m): a length only when the stem says so
LENGTH_STEM = re.compile(r'(depth|length|diam|horiz|vert|lateral|junction|tot_|pipe)', re.I)
# names whose suffix is not the unit of the value (one line of reason each)
NOT_A_UNIT = {
    'vprod_m': 'velocity in m/s', 'vinj_m': 'velocity in m/s', 'alpha_m': 'thermal diffusivity of the medium',
    'k_m': 'conductivity of the medium', 'rho_m': 'density of the medium', 'c_m': 'heat capacity of the medium',
}
PRESERVING_CALLS = {'float', 'abs', 'max', 'min', 'round', 'np.average', 'np.mean', 'np.max', 'np.min', 'np.array', 'np.asarray', 'np.abs',
                    'np.maximum', 'np.minimum', 'np.median', 'np.copy', 'np.float64', 'sum', 'np.sum'}


def suffix_unit(name: str) -> Optional[str]:
    if not name or name in NOT_A_UNIT:
        return None
    if '_per_' in name:
        # a rate such as cost_per_m: only the compound suffixes of the table are units of the value
        for s in SUFFIXES:
            if '_per_' in s and name.endswith('_' + s):
                return s
        return None
    for s in SUFFIXES:
        if name.endswith('_' + s) and len(name) > len(s) + 1:
            if s in ('m', 'km') and not LENGTH_STEM.search(name[:-len(s)]):
                return None
            if s in ('W',):
                return None
            return s
    return None


def _text(node: ast.AST) -> Optional[str]:
    ok, v = const_value(node)
    return v if ok and isinstance(v, str) else None


def _pint_token(node: ast.AST) -> Optional[str]:
    t = _text(node)
    if t is None:
        return None
    return PINT_TEXT.get(t.strip())


def _factor_unit(u: str, k: float, mult: bool) -> Optional[str]:
    """unit of (x [u]) * k  (or / k): the unit u' of the same dimension with scale(u) * k == scale(u')... as a number:
    value_in_u' = value_in_u * scale(u) / scale(u')."""
    dim, sc = UNITS[u]
    if not mult:
        if k == 0:
            return None
        k = 1.0 / k
    for v, (dim2, sc2) in UNITS.items():
        if dim2 == dim and v != u and abs(sc / sc2 - k) <= 1e-9 * abs(k):
            return v
    return None


class UnitTyper:
    """unit_of(expr): a unit token, or None when the unit is not known from the closed set of forms."""

    def __init__(self, repo, fn: Optional[FuncInfo], quantity_methods: Dict[str, str]):
        self.repo = repo
        self.fn = fn
        self.qm = quantity_methods       # method name -> unit token of the magnitude of the pint quantity it returns (all returns agree)
        self.conflicts: List[Tuple[ast.AST, str, str, str]] = []     # (node, unit a, unit b, what)

    # -- registry parameters: the declared unit, for parameters nobody relabels ---------------------------------------------
    def registry_unit(self, e: ast.AST) -> Optional[str]:
        key = dotted_name(e)
        if not key or self.fn is None:
            return None
        from gxstat.atoms import AtomResolver
        res = self._res = getattr(self, '_res', None) or AtomResolver(self.repo, self.fn.cls.name if self.fn.cls is not None else None)
        try:
            d = res.decl(key)
        except Exception:
            return None
        if d is None or d.attr in relabelled_attrs(self.repo):
            return None
        us = res.unit_string(d)
        tok = PINT_TEXT.get(us) if us else None
        if tok is None or UNITS[tok][0] not in ('temperature', 'pressure', 'density', 'length'):
            return None
        if not d.is_input and UNITS[tok][0] != 'temperature':
            return None              # declared units of derived outputs are not reliable on this repository (DESIGN E5)
        return tok

    # -- pint quantities: unit of the magnitude carried ------------------------------------------------------------------
    def quantity_unit(self, e: ast.AST) -> Optional[str]:
        """for an expression that denotes a pint quantity: the token of the unit it is expressed in (None if unknown)"""
        if isinstance(e, ast.Call):
            cn = dotted_name(e.func) or ''
            if cn.split('.')[-1] in ('quantity', 'Quantity') and len(e.args) == 2:
                declared = _pint_token(e.args[1])
                inner = self.unit_of(e.args[0])
                if declared and inner and inner != declared:
                    self.conflicts.append((e, inner, declared, f'`{norm(e)[:110]}` labels a value in {inner} as {declared}'))
                return declared
            if isinstance(e.func, ast.Attribute) and e.func.attr == 'to' and len(e.args) == 1:
                return _pint_token(e.args[0])
            if isinstance(e.func, ast.Attribute) and e.func.attr in self.qm and not e.args:
                return self.qm[e.func.attr]
        return None

    def unit_of(self, e: ast.AST) -> Optional[str]:
        if isinstance(e, ast.Name):
            return suffix_unit(e.id)
        if isinstance(e, ast.Attribute):
            if e.attr == 'magnitude':
                return self.quantity_unit(e.value)
            if e.attr in ('value',):
                return self.registry_unit(e)
            return suffix_unit(e.attr)
        if isinstance(e, ast.Subscript):
            return self.unit_of(e.value)
        if isinstance(e, ast.UnaryOp) and isinstance(e.op, (ast.USub, ast.UAdd)):
            return self.unit_of(e.operand)
        if isinstance(e, ast.IfExp):
            a, b = self.unit_of(e.body), self.unit_of(e.orelse)
            return a if a == b else None
        if isinstance(e, ast.Call):
            cn = dotted_name(e.func) or ''
            last = cn.split('.')[-1]
            if last == 'celsius_to_kelvin' and len(e.args) == 1:
                inner = self.unit_of(e.args[0])
                if inner == 'kelvin':
                    self.conflicts.append((e, 'kelvin', 'degC', f'`{norm(e)[:110]}` converts a value that is already in kelvin'))
                return 'kelvin'
            if cn in PRESERVING_CALLS and e.args and not e.keywords:
                us = {self.unit_of(a) for a in e.args}
                us.discard(None)
                return us.pop() if len(us) == 1 else None
            u = suffix_unit(last)
            if u is not None:
                return u
            return None
        if isinstance(e, ast.BinOp):
            if isinstance(e.op, (ast.Add, ast.Sub)):
                a, b = self.unit_of(e.left), self.unit_of(e.right)
                okr, kr = const_value(e.right)
                # degC <-> kelvin
                if okr and isinstance(kr, (int, float)) and abs(kr - 273.15) < 1e-9:
                    if a == 'degC' and isinstance(e.op, ast.Add):
                        return 'kelvin'
                    if a == 'kelvin' and isinstance(e.op, ast.Sub):
                        return 'degC'
                if a and b and a != b:
                    if {a, b} == {'degC', 'kelvin'} and isinstance(e.op, ast.Sub):
                        pass
                    self.conflicts.append((e, a, b, f'`{norm(e)[:110]}` {"adds" if isinstance(e.op, ast.Add) else "subtracts"} {a} and {b}'))
                    return None
                if a == 'kelvin' and b == 'kelvin' and isinstance(e.op, ast.Sub):
                    return None          # a temperature difference
                return a or b
            if isinstance(e.op, (ast.Mult, ast.Div)):
                okr, kr = const_value(e.right)
                okl, kl = const_value(e.left)
                if okr and isinstance(kr, (int, float)) and not isinstance(kr, bool):
                    a = self.unit_of(e.left)
                    if a is None or a in ('degC', 'kelvin'):
                        return None
                    if kr == 1:
                        return a
                    return _factor_unit(a, float(kr), isinstance(e.op, ast.Mult))
                if okl and isinstance(kl, (int, float)) and not isinstance(kl, bool) and isinstance(e.op, ast.Mult):
                    b = self.unit_of(e.right)
                    if b is None or b in ('degC', 'kelvin'):
                        return None
                    if kl == 1:
                        return b
                    return _factor_unit(b, float(kl), True)
                return None
        return None


_RELABELLED: Dict[int, set] = {}


def relabelled_attrs(repo) -> set:
    """attributes of parameter objects whose CurrentUnits (or value, by a literal factor) some code outside the converters rewrites:
    their declared unit is not the unit every reader sees"""
    got = _RELABELLED.get(id(repo))
    if got is not None:
        return got
    out = set()
    for f in repo.all_functions():
        for st in ast.walk(f.node):
            if not isinstance(st, (ast.Assign, ast.AugAssign)):
                continue
            tgts = st.targets if isinstance(st, ast.Assign) else [st.target]
            for t in tgts:
                base = t.value if isinstance(t, ast.Subscript) else t
                dn = dotted_name(base) or ''
                parts = dn.split('.')
                if len(parts) >= 2 and parts[-1] in ('CurrentUnits', 'PreferredUnits'):
                    out.add(parts[-2])
                if len(parts) >= 2 and parts[-1] == 'value':
                    v = st.value
                    if isinstance(st, ast.AugAssign) and isinstance(st.op, (ast.Mult, ast.Div)) and const_value(v)[0]:
                        out.add(parts[-2])
                    if isinstance(v, ast.BinOp) and isinstance(v.op, (ast.Mult, ast.Div)) and \
                            re.sub(r'\[.*?\]', '', norm(v.left)) == re.sub(r'\[.*?\]', '', dn) and const_value(v.right)[0]:
                        out.add(parts[-2])
    _RELABELLED[id(repo)] = out
    return out


def _quantity_methods(repo) -> Dict[str, str]:
    """zero-argument methods all of whose returns are pint quantities in one unit: name -> token (lithostatic_pressure ...)."""
    found: Dict[str, set] = {}
    for f in repo.all_functions():
        if f.cls is None or not isinstance(f.node, ast.FunctionDef) or f.name.startswith('__'):
            continue
        rets = [r for r in walk_no_nested(f.node) if isinstance(r, ast.Return) and r.value is not None]
        if not rets:
            continue
        t = UnitTyper(repo, f, {})
        us = set()
        for r in rets:
            v = inline_sequential(r.value, r)
            us.add(t.quantity_unit(v))
        if None in us or len(us) != 1:
            if any(u for u in us):
                found.setdefault(f.name, set()).add(None)
            continue
        found.setdefault(f.name, set()).update(us)
    return {k: next(iter(v)) for k, v in found.items() if len(v) == 1 and None not in v}


# ---------------------------------------------------------------------------------------------------------------------------------
#  HC1: helper bodies
# ---------------------------------------------------------------------------------------------------------------------------------
# helper -> (CoolProp output key, why)
PROPS_KEY = {
    'density_water_kg_per_m3': 'D',                 # CoolProp: D = mass density [kg/m3]
    'viscosity_water_Pa_sec': 'V',                  # V = dynamic viscosity [Pa s]
    'heat_capacity_water_J_per_kg_per_K': 'C',      # C = mass specific constant-pressure heat capacity [J/kg/K]
    'entropy_water_kJ_per_kg_per_K': 'S',           # S = mass specific entropy [J/kg/K]
    'enthalpy_water_kJ_per_kg': 'H',                # H = mass specific enthalpy [J/kg]
    'vapor_pressure_water_kPa': 'P',                # P = pressure [Pa] (at quality 0: saturation pressure)
}
SI_OF_KEY = {'D': 'kg_per_m3', 'V': 'Pa_sec', 'C': 'J_per_kg_per_K', 'S': 'J_per_kg_per_K', 'H': 'J_per_kg', 'P': 'Pa'}


def _strip_scale(e: ast.AST) -> Tuple[ast.AST, float, Optional[Tuple[str, str]]]:
    """peel literal factors and quantity(., 'a').to('b').magnitude wrappers: (core, product of literal factors, (a, b) | None)"""
    k = 1.0
    conv = None
    while True:
        if isinstance(e, ast.BinOp) and isinstance(e.op, (ast.Mult, ast.Div)):
            okr, kr = const_value(e.right)
            okl, kl = const_value(e.left)
            if okr and isinstance(kr, (int, float)) and not isinstance(kr, bool) and kr != 0:
                k = k * kr if isinstance(e.op, ast.Mult) else k / kr
                e = e.left
                continue
            if okl and isinstance(kl, (int, float)) and not isinstance(kl, bool) and isinstance(e.op, ast.Mult):
                k *= kl
                e = e.right
                continue
        if isinstance(e, ast.Attribute) and e.attr == 'magnitude' and isinstance(e.value, ast.Call) and isinstance(e.value.func, ast.Attribute) \
                and e.value.func.attr == 'to' and len(e.value.args) == 1 and isinstance(e.value.func.value, ast.Call) \
                and (dotted_name(e.value.func.value.func) or '').split('.')[-1] == 'quantity' and len(e.value.func.value.args) == 2 and conv is None:
            a, b = _pint_token(e.value.func.value.args[1]), _pint_token(e.value.args[0])
            conv = (a, b)
            e = e.value.func.value.args[0]
            continue
        return e, k, conv


def check_helper_bodies(ctx, rule: str) -> int:
    repo = ctx.repo
    mi = repo.module('geophires_x/GeoPHIRESUtils.py')
    n = 0
    for name, key in PROPS_KEY.items():
        f = mi.functions.get(name)
        if f is None:
            raise AnalysisError(f'{rule}: helper {name} not found in GeoPHIRESUtils.py (renamed or moved): cannot decide')
        params = [a.arg for a in f.node.args.args]
        tparam = params[0] if params else None
        pparam = params[1] if len(params) > 1 else None
        if tparam is None or suffix_unit(tparam) != 'degC':
            raise AnalysisError(f'{rule}: first parameter of {name} is not named as a temperature in degC: cannot decide')
        want_unit = suffix_unit(name)
        where = f'{mi.rel}:{f.node.lineno}'
        props = [c for c in ast.walk(f.node) if isinstance(c, ast.Call) and (dotted_name(c.func) or '').split('.')[-1] == 'PropsSI']
        rets = [r for r in walk_no_nested(f.node) if isinstance(r, ast.Return) and r.value is not None]
        if not props:
            raise AnalysisError(f'{rule}: {name} no longer calls CoolProp PropsSI: cannot decide')
        for r in rets:
            v = inline_sequential(r.value, r)
            core, k, conv = _strip_scale(v)
            if not (isinstance(core, ast.Call) and (dotted_name(core.func) or '').split('.')[-1] == 'PropsSI'):
                if any(isinstance(c, ast.Call) and (dotted_name(c.func) or '').split('.')[-1] == 'PropsSI' for c in ast.walk(v)):
                    raise AnalysisError(f'{rule}: {name}: return value `{norm(v)[:100]}` is not a scaled PropsSI call: cannot decide')
                continue
            n += 1
            kk = f'{name}/return@{"P" if any(_text(a) == "P" for a in core.args[1:]) else "Q"}'
            rw = f'{mi.rel}:{r.lineno}'
            args = core.args
            okkey = len(args) >= 6 and _text(args[0]) == key
            ctx.check(okkey, rule, kk + '/output-key', rw,
                      f'{name} asks CoolProp for {_text(args[0]) if args else None!r}; its name promises {key!r} ({SI_OF_KEY[key]} in SI): '
                      f'every caller receives a different physical quantity', fact=f'PropsSI({key!r}, ...)')
            pairs = {}
            for i in range(1, len(args) - 1, 2):
                t = _text(args[i])
                if t is not None and i + 1 < len(args):
                    pairs[t] = args[i + 1]
            fluid_ok = len(args) % 2 == 0 and _text(args[-1]) == 'Water'
            ctx.check(fluid_ok, rule, kk + '/fluid', rw, f'{name}: the fluid argument is {norm(args[-1]) if args else None}, not "Water"',
                      fact='Water')
            t_e = pairs.get('T')
            t_ok = False
            if t_e is not None:
                t_e2 = t_e
                if isinstance(t_e2, ast.Call) and (dotted_name(t_e2.func) or '').split('.')[-1] == 'celsius_to_kelvin' and len(t_e2.args) == 1:
                    inner = t_e2.args[0]
                    if isinstance(inner, ast.Call) and dotted_name(inner.func) == 'float' and len(inner.args) == 1:
                        inner = inner.args[0]
                    t_ok = isinstance(inner, ast.Name) and inner.id == tparam
                elif isinstance(t_e2, ast.BinOp) and isinstance(t_e2.op, ast.Add):
                    for a, b in ((t_e2.left, t_e2.right), (t_e2.right, t_e2.left)):
                        okc, c = const_value(b)
                        if isinstance(a, ast.Name) and a.id == tparam and okc and isinstance(c, (int, float)) and abs(c - 273.15) < 1e-9:
                            t_ok = True
            ctx.check(t_ok, rule, kk + '/temperature-in-kelvin', rw,
                      f'{name}: CoolProp takes the temperature in kelvin; it is handed `{norm(t_e) if t_e is not None else None}` instead of '
                      f'celsius_to_kelvin({tparam})', fact=f"'T', celsius_to_kelvin({tparam})")
            if 'P' in pairs:
                p_e = pairs['P']
                p_ok = isinstance(p_e, ast.Attribute) and p_e.attr == 'magnitude' and isinstance(p_e.value, ast.Call) and \
                    isinstance(p_e.value.func, ast.Attribute) and p_e.value.func.attr == 'to' and len(p_e.value.args) == 1 and \
                    _pint_token(p_e.value.args[0]) == 'Pa' and isinstance(p_e.value.func.value, ast.Name) and p_e.value.func.value.id == pparam
                ctx.check(p_ok, rule, kk + '/pressure-in-pascal', rw,
                          f'{name}: CoolProp takes the pressure in Pa; it is handed `{norm(p_e)[:90]}` instead of {pparam}.to("Pa").magnitude',
                          fact=f"'P', {pparam}.to('Pa').magnitude")
            elif 'Q' in pairs:
                okq, q = const_value(pairs['Q'])
                ctx.check(okq and q == 0, rule, kk + '/saturated-liquid', rw,
                          f'{name}: without a pressure the property is taken on the saturated-liquid line (quality 0); found quality '
                          f'`{norm(pairs["Q"])}`', fact="'Q', 0")
            else:
                ctx.bad(rule, kk + '/second-state-variable', rw, f'{name}: neither pressure nor quality is handed to CoolProp')
            # scale from SI to the suffix unit
            si = SI_OF_KEY[key]
            scale = k
            if conv is not None:
                a, b = conv
                if a is None or b is None or UNITS[a][0] != UNITS[b][0]:
                    raise AnalysisError(f'{rule}: {name}: unit conversion {conv} not understood: cannot decide')
                ctx.check(a == si, rule, kk + '/si-label', rw, f'{name}: the CoolProp result ({si}) is labelled {a} before conversion', fact=f'{a}')
                scale *= UNITS[a][1] / UNITS[b][1]
            want = UNITS[si][1] / UNITS[want_unit][1] if want_unit in UNITS and UNITS[want_unit][0] == UNITS[si][0] else None
            if want is None:
                raise AnalysisError(f'{rule}: unit suffix of {name} not understood: cannot decide')
            ctx.check(abs(scale - want) <= 1e-9 * want, rule, kk + '/si-to-suffix-scale', rw,
                      f'{name}: CoolProp returns {si}; the name promises {want_unit}, i.e. a factor {want:g}, but the result is scaled by {scale:g}',
                      fact=f'x {want:g}')
    # celsius_to_kelvin
    f = mi.functions.get('celsius_to_kelvin')
    if f is None:
        raise AnalysisError(f'{rule}: celsius_to_kelvin not found: cannot decide')
    p0 = f.node.args.args[0].arg
    for r in (r for r in walk_no_nested(f.node) if isinstance(r, ast.Return) and r.value is not None):
        v = inline_sequential(r.value, r)
        n += 1
        ok = False
        if isinstance(v, ast.BinOp) and isinstance(v.op, ast.Add):
            for a, b in ((v.left, v.right), (v.right, v.left)):
                okc, c = const_value(b)
                if isinstance(a, ast.Name) and a.id == p0 and okc and isinstance(c, (int, float)) and abs(c - 273.15) < 1e-9:
                    ok = True
        ctx.check(ok, rule, 'celsius_to_kelvin/offset', f'{mi.rel}:{r.lineno}',
                  f'celsius_to_kelvin returns `{norm(v)}`, not {p0} + 273.15: every water property is evaluated at a shifted temperature',
                  fact=f'{p0} + 273.15')
    # static_pressure_MPa
    f = mi.functions.get('static_pressure_MPa')
    if f is None:
        raise AnalysisError(f'{rule}: static_pressure_MPa not found: cannot decide')
    ps = [a.arg for a in f.node.args.args]
    for r in (r for r in walk_no_nested(f.node) if isinstance(r, ast.Return) and r.value is not None):
        v = inline_sequential(r.value, r)
        core, k, conv = _strip_scale(v)
        n += 1
        factors: List[ast.AST] = []

        def flat(e):
            if isinstance(e, ast.BinOp) and isinstance(e.op, ast.Mult):
                flat(e.left)
                flat(e.right)
            else:
                factors.append(e)
        flat(core)
        names = sorted(x.id for x in factors if isinstance(x, ast.Name))
        gs = [x for x in factors if not isinstance(x, ast.Name)]
        g_ok = len(gs) == 1 and ((dotted_name(gs[0]) or '').endswith('constants.g') or
                                 (const_value(gs[0])[0] and isinstance(const_value(gs[0])[1], float) and 9.79 < const_value(gs[0])[1] < 9.83))
        ok_prod = names == sorted(ps[:2]) and g_ok
        ctx.check(ok_prod, rule, 'static_pressure_MPa/rho-g-depth', f'{mi.rel}:{r.lineno}',
                  f'static_pressure_MPa returns `{norm(v)[:100]}`: not the product density x g x depth of its two parameters', fact='rho x g x depth')
        scale = k * (UNITS[conv[0]][1] / UNITS[conv[1]][1] if conv and conv[0] and conv[1] else 1.0)
        ctx.check(abs(scale - 1e-6) <= 1e-15, rule, 'static_pressure_MPa/Pa-to-MPa', f'{mi.rel}:{r.lineno}',
                  f'static_pressure_MPa scales rho x g x depth (Pa) by {scale:g}, the name promises MPa (1e-06)', fact='x 1e-06')
    return n


# ---------------------------------------------------------------------------------------------------------------------------------
#  HC2: hand-overs
# ---------------------------------------------------------------------------------------------------------------------------------
def _resolve_callee(repo, f: FuncInfo, call: ast.Call) -> Optional[FuncInfo]:
    cn = dotted_name(call.func) or ''
    last = cn.split('.')[-1]
    if not last:
        return None
    if cn.startswith('self.') and f.cls is not None and cn.count('.') == 1:
        return repo.resolve_method(f.cls, last)
    if '.' not in cn:
        g = f.module.functions.get(cn)
        if g is not None:
            return g
        # imported by name: unique module-level function of that name anywhere in the repo
        cands = [m.functions[cn] for m in repo.modules.values() if cn in m.functions]
        if len(cands) == 1:
            return cands[0]
        if cands and len({ast.dump(c.node.args) for c in cands}) == 1:
            return cands[0]
        return None
    # Class.method(self, ...) / module.function(...)
    head = cn.split('.')[0]
    ci = repo.find_cls(head, f.module)
    if ci is not None and cn.count('.') == 1:
        return repo.resolve_method(ci, last)
    return None


def scope_of(f: FuncInfo) -> str:
    rel = f.module.rel
    return rel


def check_handovers(ctx, rule: str, in_scope) -> int:
    """in_scope(FuncInfo) -> bool selects the functions whose hand-overs belong to the calling property."""
    repo = ctx.repo
    qm = ctx._cache.get('hc_qm')
    if qm is None:
        qm = ctx._cache['hc_qm'] = _quantity_methods(repo)
    n = 0
    for f in repo.all_functions():
        if not isinstance(f.node, (ast.FunctionDef, ast.AsyncFunctionDef)) or not in_scope(f):
            continue
        runnable = not (f.cls is not None and f.cls.name in NOT_RUNNABLE)
        typer = UnitTyper(repo, f, qm)
        rel = f.module.rel

        def report(ok: bool, key: str, node: ast.AST, msg: str, fact: str):
            nonlocal n
            n += 1
            if ok or runnable:
                ctx.check(ok, rule, f'{f.qualname}/{key}', f'{rel}:{getattr(node, "lineno", f.node.lineno)}', msg, fact=fact)
            else:
                ctx.info(f'{rule} {rel}:{node.lineno} {f.qualname}/{key}: {msg} (module not runnable offline: information only)')

        for node in walk_no_nested(f.node):
            # (a) argument vs parameter suffix
            if isinstance(node, ast.Call):
                g = _resolve_callee(repo, f, node)
                if g is not None and isinstance(g.node, (ast.FunctionDef, ast.AsyncFunctionDef)):
                    params = [a.arg for a in g.node.args.args]
                    cn = dotted_name(node.func) or ''
                    off = 0
                    if params and params[0] in ('self', 'cls'):
                        explicit_self = (cn.count('.') == 1 and not cn.startswith('self.') and node.args and
                                         isinstance(node.args[0], ast.Name) and node.args[0].id == 'self')
                        off = 0 if explicit_self else 1
                    bind = []
                    for i, a in enumerate(node.args):
                        if isinstance(a, ast.Starred):
                            break
                        if i + off < len(params):
                            bind.append((params[i + off], a))
                    kwonly = [a.arg for a in g.node.args.kwonlyargs]
                    for kw in node.keywords:
                        if kw.arg and (kw.arg in params or kw.arg in kwonly):
                            bind.append((kw.arg, kw.value))
                    for pn, a in bind:
                        pu = suffix_unit(pn)
                        if pu is None:
                            continue
                        typer.conflicts.clear()
                        au = typer.unit_of(inline_sequential(a, _stmt_of(a))) if _stmt_of(a) is not None else typer.unit_of(a)
                        au0 = typer.unit_of(a)
                        au = au0 or au
                        if au is None:
                            continue
                        report(au == pu, f'{g.name}({pn})<-{_short(a)}', node,
                               f'`{norm(a)[:90]}` is in {au}; parameter {pn} of {g.qualname} expects {pu}', f'{pn}: {pu}')
                    # pressure= of the water-property helpers must be a pint quantity whose magnitude and label agree
                if (dotted_name(node.func) or '').split('.')[-1] in ('quantity', 'Quantity') and len(node.args) == 2:
                    typer.conflicts.clear()
                    declared = _pint_token(node.args[1])
                    st = _stmt_of(node)
                    inner_e = node.args[0]
                    inner = typer.unit_of(inner_e)
                    if inner is None and st is not None:
                        inner = typer.unit_of(inline_sequential(inner_e, st))
                    if declared and inner:
                        report(inner == declared, f'quantity({_short(inner_e)})', node,
                               f'`{norm(node)[:110]}` labels a value that is in {inner} as {declared}', f'{declared}')
            # (b) value vs target suffix
            if isinstance(node, (ast.Assign, ast.AnnAssign)) and getattr(node, 'value', None) is not None:
                tgts = node.targets if isinstance(node, ast.Assign) else [node.target]
                for t in tgts:
                    if isinstance(t, ast.Attribute) and t.attr == 'value':
                        # (f) store into a registry parameter whose declared unit every reader relies on
                        tu = typer.registry_unit(t)
                        if tu is not None:
                            typer.conflicts.clear()
                            vu = typer.unit_of(node.value) or typer.unit_of(inline_sequential(node.value, node))
                            if vu is not None and vu != tu and _last_stage_store(repo, f, t):
                                n += 1
                                ctx.ok(rule, f'{f.qualname}/{norm(t)}=', f'{rel}:{node.lineno}',
                                       f'stores {vu} into a parameter declared in {tu}: frozen exception - {f.qualname} is the last Calculate of the '
                                       f'pipeline and every reader of the parameter outside it runs before it (re-checked on every run)')
                            elif vu is not None:
                                report(vu == tu, f'{norm(t)}=', node,
                                       f'`{norm(node)[:110]}` stores a value in {vu} into a parameter declared in {tu}', f'{norm(t)}: {tu}')
                        continue
                    tn = t.id if isinstance(t, ast.Name) else (t.attr if isinstance(t, ast.Attribute) and t.attr != 'value' else None)
                    tu = suffix_unit(tn) if tn else None
                    if tu is None:
                        continue
                    if isinstance(t, ast.Name) and not any(isinstance(x, ast.Name) and x.id == tn and isinstance(x.ctx, ast.Load)
                                                           for x in ast.walk(f.node)):
                        continue         # never read: the name states nothing anyone relies on
                    typer.conflicts.clear()
                    vu = typer.unit_of(node.value)
                    if vu is None:
                        vu = typer.unit_of(inline_sequential(node.value, node))
                    if vu is None:
                        continue
                    report(vu == tu, f'{tn}=', node, f'`{norm(node)[:110]}` stores a value in {vu} under a name that says {tu}', f'{tn}: {tu}')
            # (d) additive operands
            if isinstance(node, ast.BinOp) and isinstance(node.op, (ast.Add, ast.Sub)) and \
                    not (isinstance(parent(node), ast.BinOp) and isinstance(parent(node).op, (ast.Add, ast.Sub))):
                typer.conflicts.clear()
                typer.unit_of(node)
                seen = set()
                for cnode, a, b, what in list(typer.conflicts):
                    if id(cnode) in seen:
                        continue
                    seen.add(id(cnode))
                    report(False, f'{_short(cnode)}', cnode, what + ': operands of a sum must share one unit', 'same unit')
                if not typer.conflicts and typer.unit_of(node) is not None:
                    report(True, f'{_short(node)}', node, '', f'{typer.unit_of(node)}')
            # (e) returned value vs function suffix
            if isinstance(node, ast.Return) and node.value is not None:
                fu = suffix_unit(f.name)
                if fu is not None:
                    typer.conflicts.clear()
                    vals = node.value.elts if isinstance(node.value, ast.Tuple) else [node.value]
                    for v in vals:
                        vu = typer.unit_of(v) or typer.unit_of(inline_sequential(v, node))
                        if vu is None:
                            continue
                        report(vu == fu, f'return {_short(v)}', node, f'{f.qualname} returns `{norm(v)[:90]}` in {vu}; its name promises {fu}', fu)
    return n


def _last_stage_store(repo, f: FuncInfo, target: ast.Attribute) -> bool:
    """Economics.Calculate hands `injection_reservoir_depth` on in km although it is declared in metres.  That is harmless exactly while
    (1) the storing function is an economics Calculate, (2) Model.Calculate invokes the economics after every wellbores/reservoir/
    surface-plant Calculate, and (3) nobody outside the storing module and the wellbores modules reads the parameter."""
    if f.name != 'Calculate' or f.cls is None or 'Economics' not in f.cls.name:
        return False
    attr = (dotted_name(target) or '').split('.')[-2]
    try:
        mc = repo.method('Model', 'Calculate', 'geophires_x/Model.py')
    except Exception:
        return False
    econ_lines, other_lines = [], []
    for c in ast.walk(mc.node):
        if isinstance(c, ast.Call):
            cn = dotted_name(c.func) or ''
            if cn.endswith('.Calculate') and cn.startswith('self.'):
                (econ_lines if cn.split('.')[1] == 'economics' else other_lines).append(c.lineno)
    if not econ_lines or not other_lines:
        return False
    later = [ln for ln in other_lines if ln > min(econ_lines)]
    part = {'addeconomics', 'sdacgteconomics'}
    for c in ast.walk(mc.node):
        if isinstance(c, ast.Call) and c.lineno in later and (dotted_name(c.func) or '').split('.')[1] not in part:
            return False
    for g in repo.all_functions():
        if g.module is f.module or 'WellBores' in g.module.rel or 'Wellbores' in g.module.rel:
            continue
        for x in ast.walk(g.node):
            if isinstance(x, ast.Attribute) and x.attr in ('value', 'quantity') and isinstance(x.value, ast.Attribute) and x.value.attr == attr \
                    and isinstance(x.ctx, ast.Load):
                return False
    return True


def _stmt_of(node: ast.AST) -> Optional[ast.stmt]:
    cur = node
    while cur is not None and not isinstance(cur, ast.stmt):
        cur = parent(cur)
    return cur


def _short(e: ast.AST) -> str:
    s = re.sub(r'\s+', '', norm(e))
    return s[:60]


# ---------------------------------------------------------------------------------------------------------------------------------
#  per-property scopes
# ---------------------------------------------------------------------------------------------------------------------------------
SCOPES = {
    # property -> module path fragments whose hand-overs feed that property's quantities
    'C02': ('geophires_x/Reservoir.py', 'geophires_x/CylindricalReservoir.py', 'geophires_x/SurfacePlant', 'geophires_x/SBTWellbores.py',
            'geophires_x/GeoPHIRESUtils.py'),
    'C05': ('Reservoir.py',),
    'C15': ('geophires_x/WellBores.py', 'geophires_x/SBTWellbores.py', 'geophires_x/SUTRAWellBores.py', 'geophires_x/GeoPHIRESUtils.py',
            'geophires_x/Reservoir.py', 'geophires_x/CylindricalReservoir.py'),
    'C17': ('hip_ra_x/', 'hip_ra/', 'geophires_x/GeoPHIRESUtils.py'),
    'C18': ('geophires_x/Economics.py', 'geophires_x/SBTEconomics.py', 'geophires_x/WellBores.py'),
    'C03': ('geophires_x/Economics.py', 'geophires_x/SBTEconomics.py', 'geophires_x/SUTRAEconomics.py'),
}


def run_shared(ctx, body_rule: Optional[str], handover_rule: Optional[str], handover_floor: int = 1) -> None:
    if body_rule:
        ctx.rule(body_rule, 'water-property helpers keep the contract their names state: CoolProp output key, temperature in kelvin from the degC '
                            'parameter, pressure in Pa from the pint quantity, result scaled from SI to the unit of the name suffix; '
                            'celsius_to_kelvin adds 273.15; static_pressure_MPa = rho x g x depth in MPa')
        n = check_helper_bodies(ctx, body_rule)
        ctx.floor(body_rule, n, 8, 'helper return expressions')
    if handover_rule:
        frags = SCOPES[ctx.pid]
        ctx.rule(handover_rule, 'at every hand-over whose two sides have a known unit (argument vs parameter suffix, value vs target suffix, value vs '
                                'quantity() label, operands of a sum, return vs function suffix) the units are equal')
        n = check_handovers(ctx, handover_rule, lambda f: any(fr in f.module.rel for fr in frags))
        ctx.floor(handover_rule, n, handover_floor, 'hand-overs with a known unit on both sides')
