"""Shared unit-conversion typestate rules (used by C06 and C09).

Invariant the whole unit machinery relies on (HasQuantity.quantity()): `p.value` is expressed in `p.CurrentUnits`.
 Q1  every pint Quantity built from `p.value` names `p.CurrentUnits` as its unit (same object p);
 Q2  every function that stores a converted magnitude into `p.value` sets `p.CurrentUnits` to the unit the magnitude is in,
     on the same path, with nothing that can fail in between."""
from __future__ import annotations

import ast
from typing import List, Optional, Tuple

from gxstat.srcmodel import AnalysisError, FuncInfo, calls_in, dotted_name, norm, parent


def quantity_sites(repo):
    """(function, call, value-object text, unit expression) for every Quantity(<p>.value, unit) in geophires_x/Parameter.py."""
    mi = repo.module('geophires_x/Parameter.py')
    out = []
    funcs = list(mi.functions.values()) + [m for c in mi.classes.values() for m in c.methods.values()]
    for f in funcs:
        for c in calls_in(f.node):
            d = dotted_name(c.func) or ''
            if d.split('.')[-1] not in ('Quantity', 'quantity') or len(c.args) != 2:
                continue
            # through named intermediates (`v = p.value; u = convertible_unit(p.CurrentUnits); Quantity(v, u)`)
            from gxstat.inline import enclosing_stmt, inline_sequential
            st = enclosing_stmt(c)
            v = inline_sequential(c.args[0], st) if isinstance(c.args[0], ast.Name) and st is not None else c.args[0]
            u = inline_sequential(c.args[1], st) if isinstance(c.args[1], ast.Name) and st is not None else c.args[1]
            if isinstance(v, ast.Attribute) and v.attr == 'value':
                out.append((f, c, norm(v.value), u))
    return out


def check_quantity_source_unit(ctx, rule: str) -> int:
    n = 0
    for f, c, obj, unit in quantity_sites(ctx.repo):
        n += 1
        attrs = {(norm(a.value), a.attr) for a in ast.walk(unit) if isinstance(a, ast.Attribute) and a.attr in ('CurrentUnits', 'PreferredUnits')}
        ok = (obj, 'CurrentUnits') in attrs and not any(w == 'PreferredUnits' for o, w in attrs)
        ctx.check(ok, rule, f'{f.qualname}/Quantity({obj}.value)/source-unit', f'{f.module.rel}:{c.lineno}',
                  f'`{norm(c)[:90]}` interprets {obj}.value in `{norm(unit)[:50]}`; the stored value is expressed in {obj}.CurrentUnits (for a '
                  f'parameter whose current and preferred units differ the conversion starts from the wrong unit and the printed figure is off '
                  f'by the conversion factor)', fact=f'{obj}.value read in {obj}.CurrentUnits')
    return n


INPLACE_PINT = ('ito', 'ito_base_units', 'ito_root_units', 'ito_reduced_units', 'ito_preferred')


def check_no_inplace_conversion(ctx, rule: str) -> int:
    """A pint Quantity built from p.value wraps the very array p.value holds; `.ito()` converts that array in place.  Every other
    output that shares the array (the absorption chiller's HeatProduced is HeatExtracted's array) is rescaled with it while keeping its own
    unit label.  Conversions must produce a new magnitude (`.to(...)`)."""
    repo = ctx.repo
    n = 0
    for f in repo.all_functions():
        if not any(seg in f.module.rel for seg in ('geophires_x/', 'hip_ra_x/', 'hip_ra/')):
            continue
        hits = []
        for c in calls_in(f.node):
            if not (isinstance(c.func, ast.Attribute) and c.func.attr in INPLACE_PINT):
                continue
            from gxstat.inline import enclosing_stmt, inline_sequential
            st_ = enclosing_stmt(c)
            recv = inline_sequential(c.func.value, st_) if st_ is not None else c.func.value
            # only a quantity that wraps a parameter's stored value shares storage with it (one parsed from the user's text does not)
            if any((isinstance(x, ast.Attribute) and x.attr == 'value' and isinstance(x.value, (ast.Attribute, ast.Name))) or
                   (isinstance(x, ast.Call) and isinstance(x.func, ast.Attribute) and x.func.attr == 'quantity') for x in ast.walk(recv)):
                hits.append(c)
        qs = [c for c in calls_in(f.node) if (dotted_name(c.func) or '').split('.')[-1] in ('Quantity', 'quantity')]
        if not hits and not qs:
            continue
        n += 1
        ctx.check(not hits, rule, f'{f.qualname}/no-in-place-unit-conversion', f'{f.module.rel}:{(hits[0] if hits else f.node).lineno}',
                  f'`{norm(hits[0])[:80] if hits else ""}` converts a pint quantity in place: the quantity wraps the array held by the parameter it was built '
                  f'from, so every other output sharing that array is rescaled as well but keeps its own unit label (and the source value is '
                  f'changed even when the conversion result is discarded)', fact='conversions use .to(...), which returns a new magnitude')
    return n


def check_value_unit_pairing(ctx, rule: str) -> int:
    """In the pint paths of the converters: `p.value = <...>.to(U).magnitude` is followed, on the same straight-line path, by
    `p.CurrentUnits = U'` where U' denotes the same unit as U."""
    repo = ctx.repo
    mi = repo.module('geophires_x/Parameter.py')
    n = 0
    funcs = list(mi.functions.values()) + [m for c in mi.classes.values() for m in c.methods.values()]
    for f in funcs:
        for st in ast.walk(f.node):
            if not (isinstance(st, ast.Assign) and isinstance(st.targets[0], ast.Attribute) and st.targets[0].attr == 'value'):
                continue
            from gxstat.inline import inline_sequential
            val = inline_sequential(st.value, st) if any(isinstance(x, ast.Name) for x in ast.walk(st.value)) else st.value
            tos = [c for c in ast.walk(val) if isinstance(c, ast.Call) and isinstance(c.func, ast.Attribute) and c.func.attr == 'to' and c.args]
            if not tos or not norm(val).endswith('.magnitude'):
                continue
            n += 1
            obj = norm(st.targets[0].value)
            target_unit = tos[-1].args[0]
            tu = _strip_wrappers(target_unit)
            # next statement in the same block must relabel
            blk = _block_of(st)
            idx = blk.index(st)
            nxt = blk[idx + 1] if idx + 1 < len(blk) else None
            nv = (inline_sequential(nxt.value, nxt) if val is not st.value else nxt.value) if isinstance(nxt, ast.Assign) else None
            ok = isinstance(nxt, ast.Assign) and norm(nxt.targets[0]) == f'{obj}.CurrentUnits' and \
                norm(_strip_wrappers(nv)).replace('.value', '') == norm(tu).replace('.value', '')
            ctx.check(ok, rule, f'{f.qualname}/{obj}.value-converted/relabelled', f'{f.module.rel}:{st.lineno}',
                      f'`{norm(st)[:100]}` stores a magnitude in `{norm(tu)[:40]}` but the next statement is '
                      f'`{norm(nxt)[:70] if nxt is not None else "(end of block)"}`: CurrentUnits must be set to that same unit right away, otherwise '
                      f'the value and the unit it is labelled / re-read with disagree', fact=f'{obj}.CurrentUnits := {norm(tu)[:40]}')
    return n


def _strip_wrappers(n: ast.AST) -> ast.AST:
    while isinstance(n, ast.Call) and dotted_name(n.func) in ('convertible_unit', 'str') and len(n.args) == 1:
        n = n.args[0]
    return n


def _block_of(st: ast.stmt) -> List[ast.stmt]:
    p = parent(st)
    for fld in ('body', 'orelse', 'finalbody'):
        b = getattr(p, fld, None)
        if isinstance(b, list) and st in b:
            return b
    if isinstance(p, ast.ExceptHandler):
        return p.body
    return [st]
