"""C01 -- levelized cost equals its documented definition (structural + algebraic clauses).

R1 decision table (computed vs printed, 3 x 8 x 9 configurations), R2 denominator pairing, R3 unit/scale typing,
R4 construction-inflation factor, R5 discount/inflation exponent vectors and rate atoms, R6 no dependence on sale
prices, R7 who computes / tuple positions / computed after the last write to what it reads."""
from __future__ import annotations

import ast
from fractions import Fraction
from typing import Dict, List, Optional, Set, Tuple

from gxstat.algebra import Poly, Rat, Translator, Unsupported
from gxstat.atoms import AtomResolver
from gxstat.callgraph import get_callgraph
from gxstat.domains import NONE, UNIT_TABLE, UT, Lit, UnitMismatch, UnitTyper, close, degree, DEG_ANY
from gxstat.enumcond import conds_hold, eval_enum_cond
from gxstat.flowutil import guards_of
from gxstat.registry import get_registry
from gxstat.srcmodel import AnalysisError, calls_in, dotted_name, norm, walk_no_nested
from gxstat.symflow import Def, PathEnumerator, cond_text, expand_def, names_read, target_key

OUTS = ('LCOE', 'LCOH', 'LCOC')
TARGET_UNIT = {'LCOE': 'cents/kWh', 'LCOH': 'USD/MMBTU', 'LCOC': 'USD/MMBTU'}
ENERGY_OF = {'LCOE': {'NetkWhProduced'}, 'LCOH': {'HeatkWhProduced', 'annual_heating_demand'}, 'LCOC': {'cooling_kWh_Produced'}}
ENERGY_ATTRS = {'NetkWhProduced', 'TotalkWhProduced', 'HeatkWhProduced', 'HeatkWhExtracted', 'cooling_kWh_Produced',
                'annual_heating_demand', 'PumpingkWh', 'heat_pump_electricity_kwh_used', 'ElectricityProduced',
                'NetElectricityProduced', 'HeatProduced', 'HeatExtracted', 'cooling_produced'}
CONSUMPTION = {'PumpingkWh', 'heat_pump_electricity_kwh_used'}     # energy bought, allowed in numerators
CAPITAL = 'self.CCap.value'
INFL = 'self.inflrateconstruction.value'
LIFE = 'model.surfaceplant.plant_lifetime.value'
# R5: facts frozen from the pinned tree, each with its reason (no formula text exists in the repository; the rule
# protects against change and cross-checks numerator/denominator within one arm)
R5_EXPECT = {
    'STANDARDIZED_LEVELIZED_COST': {'discountvector': ('self.discountrate.value', (0, -1, 0))},   # linspace(0, L-1, L): first operating year undiscounted
    'BICYCLE': {'discountvector': ('iave', (1, 0, 0)), 'inflationvector': ('self.RINFL.value', (1, 0, 0))},  # linspace(1, L, L)
}


def attr_of(key: str) -> str:
    parts = key.split('.')
    if parts[-1] == 'value' and len(parts) >= 2:
        return parts[-2]
    return parts[-1]


def _configs(reg):
    em = [m for m in reg.enums.members('EconomicModel') if m != 'CLGS']
    for e in em:
        for u in reg.enums.members('EndUseOptions'):
            for p in reg.enums.members('PlantType'):
                yield {'econmodel.value': ('EconomicModel', e), 'enduse_option.value': ('EndUseOptions', u),
                       'plant_type.value': ('PlantType', p)}


def check_product_suffix_discipline(ctx, rule: str) -> int:
    """In CalculateLCOELCOHLCOC the cogeneration arms compute every term twice, as `<term>_elec` and `<term>_heat`.  A `_heat` term (and
    LCOH) is built from `_heat` terms and shared quantities only, an `_elec` term (and LCOE) from `_elec` terms only: a term of the other
    product in the expression puts part of one product's cost (its tax credit, its O&M) into the other product's levelized cost."""
    f = ctx.repo.function('geophires_x/Economics.py', 'CalculateLCOELCOHLCOC')
    n = 0
    for st in ast.walk(f.node):
        if not (isinstance(st, ast.Assign) and len(st.targets) == 1 and isinstance(st.targets[0], ast.Name)):
            continue
        t = st.targets[0].id
        side = 'heat' if t.endswith('_heat') or t == 'LCOH' else 'elec' if t.endswith('_elec') or t == 'LCOE' else None
        if side is None:
            continue
        other = 'elec' if side == 'heat' else 'heat'
        # read through temporaries that carry no product suffix themselves (a value handed over from a written-out helper)
        from gxstat.inline import inline_sequential
        suffixed = tuple({x.id for x in ast.walk(f.node) if isinstance(x, ast.Name) and x.id.endswith(('_heat', '_elec'))} | {'LCOE', 'LCOH', 'LCOC'})
        val = inline_sequential(st.value, st, keep=suffixed)
        names = sorted({x.id for x in ast.walk(val) if isinstance(x, ast.Name) and x.id.endswith('_' + other)})
        if not any(x.id.endswith('_' + side) for x in ast.walk(val) if isinstance(x, ast.Name)) and not names:
            continue
        n += 1
        ctx.check(not names, rule, f'CalculateLCOELCOHLCOC/{t}@{_arm_of2(f, st)}/own-product-terms-only', f'{f.module.rel}:{st.lineno}',
                  f'`{t}` is computed from {names}: a term of the {other} product enters the {side} side of the cogeneration split, so the '
                  f'levelized cost of {side} moves with costs and credits allocated to {other}', fact=f'only _{side} and shared terms')
    return n


def _arm_of2(f, st) -> str:
    from gxstat.flowutil import guards_of
    gs = [norm(t)[:40] for t, pol in guards_of(st, f.node) if pol]
    return gs[-1] if gs else 'top'


def run(ctx) -> None:
    repo = ctx.repo
    reg = get_registry(repo)
    ctx.rule('R12', 'a vector or table the levelized-cost code obtains from a memoised helper is never modified in place nor stored on the '
                    'model (the next evaluation would read the modified object): the formula is evaluated on what its definition says, on every call')
    from rules.c08 import memoised_result_misuse
    f_lc = repo.function('geophires_x/Economics.py', 'CalculateLCOELCOHLCOC')
    called = {(dotted_name(c.func) or '').split('.')[-1] for c in ast.walk(f_lc.node) if isinstance(c, ast.Call)}
    n12 = 0
    for g in repo.all_functions():
        decos = [norm(d) for d in g.node.decorator_list] if hasattr(g.node, 'decorator_list') else []
        if g.name not in called or g.cls is not None or not any('cache' in d for d in decos):
            continue
        n12 += 1
        bad = memoised_result_misuse(repo, g)
        if bad is None:
            ctx.ok('R12', f'{g.qualname}/memoised-result', g.where, 'result never modified in place by a caller')
        else:
            ctx.bad('R12', f'{g.qualname}/memoised-result', bad[0], bad[1])
    if n12 == 0:
        ctx.ok('R12', 'CalculateLCOELCOHLCOC/no-memoised-helper', f_lc.where, 'the function calls no memoised helper')
    ctx.rule('R1', 'decision table over economic model x end-use x plant type (216 rows): every levelized cost the report '
                   'prints for a configuration is computed (assigned) on the path taken for it, and exactly one path applies')
    ctx.rule('R2', 'each levelized cost is levelized over its own product series (LCOE: NetkWhProduced, LCOH: HeatkWhProduced / '
                   'district demand, LCOC: cooling_kWh_Produced); other energy series may only appear as bought energy')
    ctx.rule('R3', 'unit/scale typing: literal factors equal the ratio of the scales of the atoms and of the declared target unit')
    ctx.rule('R4', 'every capital term carries the factor (1 + inflation during construction); frozen exception: straight-line '
                   'depreciation CCap/lifetime inside the BICYCLE income-tax term')
    ctx.rule('R5', 'discount / inflation vectors: exponent range and rate atom per model arm (frozen facts), same vector in '
                   'numerator and denominator')
    ctx.rule('R6', 'no levelized cost depends on a sale price, PTC, carbon price or revenue series')
    ctx.rule('R7', 'only CalculateLCOELCOHLCOC computes the reported LCOE/LCOH/LCOC of the standard economics; tuple '
                   'positions agree; it runs after the last write to everything it reads')
    f = repo.function('geophires_x/Economics.py', 'CalculateLCOELCOHLCOC')
    rel = f.module.rel
    pe = PathEnumerator(f.node.body, set(OUTS))
    paths = pe.paths()
    ctx.floor('R1', len(paths), 18, 'syntactic paths of CalculateLCOELCOHLCOC')
    _PATH_SEM.clear()
    cfgs_all = list(_configs(reg))
    for p_ in paths:        # the configurations that decidably select the path name its arm and leaf (guards may go through aliases)
        sel = [c for c in cfgs_all if conds_hold(p_.conds, c) is True]
        if sel:
            _PATH_SEM[id(p_)] = ({c['econmodel.value'][1] for c in sel}, {c['enduse_option.value'][1] for c in sel},
                                 {c['plant_type.value'][1] for c in sel})
    ctx.analysed['lcoe_paths'] = len(paths)
    res = AtomResolver(repo, 'Economics')

    def assigned(p, k) -> bool:
        d = p.env.get(k)
        if d is None or d.expr is None:
            return d is not None
        return not (isinstance(d.expr, ast.Constant) and d.expr.value in (0, 0.0))

    # ------------------------------------------------------------------------------------------ R7 (return order)
    for p in paths:
        if p.ended == 'return':
            ok = isinstance(p.ret.expr, ast.Tuple) and [norm(e) for e in p.ret.expr.elts] == list(OUTS)
            ctx.check(ok, 'R7', 'CalculateLCOELCOHLCOC/return-order', f'{rel}:{p.ret.line}',
                      f'returns `{norm(p.ret.expr)}`, expected (LCOE, LCOH, LCOC)')
            break
    sites = []
    for g in repo.all_functions():
        for st in ast.walk(g.node):
            if isinstance(st, ast.Assign) and isinstance(st.value, ast.Call) and \
                    (dotted_name(st.value.func) or '').split('.')[-1] == 'CalculateLCOELCOHLCOC':
                sites.append((g, st))
    ctx.floor('R7', len(sites), 3, 'call sites of CalculateLCOELCOHLCOC')
    for g, st in sites:
        tg = st.targets[0]
        names = [norm(e) for e in tg.elts] if isinstance(tg, ast.Tuple) else [norm(tg)]
        want = ['self.LCOE.value', 'self.LCOH.value']
        ok = len(names) == 3 and names[:2] == want and (names[2] == 'self.LCOC.value' or names[2].isidentifier())      # a plain local may take the third value
        ctx.check(ok, 'R7', f'{g.qualname}/unpack-order', f'{g.module.rel}:{st.lineno}',
                  f'result unpacked into {names}; positions are (LCOE, LCOH, LCOC)')
    # who else writes <x>.LCOE.value etc.
    allowed_writers = {g.qualname for g, _ in sites} | {'AGSEconomics.Calculate', 'SUTRAEconomics.Calculate',
                                                         'EconomicsS_DAC_GT.Calculate'}   # own model families (out of scope)
    LC = ('LCOE', 'LCOH', 'LCOC')
    for g in repo.all_functions():
        # names that stand for a levelized-cost parameter object: `x = self.LCOE`, `for x in (self.LCOE, self.LCOH, self.LCOC):`
        handles: Dict[str, str] = {}
        for st in ast.walk(g.node):
            if isinstance(st, ast.For) and isinstance(st.target, ast.Name) and isinstance(st.iter, (ast.Tuple, ast.List)):
                hit = [(dotted_name(e) or '').split('.')[-1] for e in st.iter.elts]
                if any(h in LC for h in hit):
                    handles[st.target.id] = '|'.join(h for h in hit if h in LC)
            elif isinstance(st, ast.Assign) and len(st.targets) == 1 and isinstance(st.targets[0], ast.Name) and \
                    (dotted_name(st.value) or '').split('.')[-1] in LC and isinstance(st.value, ast.Attribute):
                handles[st.targets[0].id] = (dotted_name(st.value) or '').split('.')[-1]
        for st in ast.walk(g.node):
            if isinstance(st, (ast.Assign, ast.AugAssign)):
                tg = st.targets if isinstance(st, ast.Assign) else [st.target]
                flat = []
                for t in tg:
                    flat.extend(t.elts if isinstance(t, ast.Tuple) else [t])
                for t in flat:
                    k = target_key(t) or ''
                    if isinstance(t, ast.Attribute) and t.attr == 'value' and isinstance(t.value, ast.Name) and t.value.id in handles:
                        k = f'{handles[t.value.id].split("|")[0]}.value'
                        ctx.check(g.qualname in allowed_writers, 'R7', f'{g.qualname}/writes-{handles[t.value.id]}-through-a-handle',
                                  f'{g.module.rel}:{st.lineno}',
                                  f'`{norm(st)[:80]}` writes a levelized cost ({handles[t.value.id]}, through the name `{t.value.id}`) outside the '
                                  f'shared computation: the reported figure no longer follows the selected model\'s formula')
                        continue
                    if k.split('.')[-2:] in (['LCOE', 'value'], ['LCOH', 'value'], ['LCOC', 'value']):
                        ctx.check(g.qualname in allowed_writers, 'R7', f'{g.qualname}/writes-{k}', f'{g.module.rel}:{st.lineno}',
                                  f'`{norm(st)[:80]}` writes a levelized cost outside the shared computation: the reported figure '
                                  f'no longer follows the selected model\'s formula')
    # computed after the last write to what it reads (ordering in the callers)
    reads: Set[str] = set()
    for n in ast.walk(f.node):
        if isinstance(n, ast.Attribute) and isinstance(n.ctx, ast.Load):
            d = dotted_name(n)
            if d and d.endswith('.value'):
                reads.add(d)
    read_attrs = {attr_of(k) for k in reads}
    cg = get_callgraph(repo)
    for g, st in sites:
        if g.cls is None:
            continue
        top = [s for s in g.node.body]
        idx = next((i for i, s in enumerate(top) if s is st or any(x is st for x in ast.walk(s))), None)
        ctx.require(idx is not None, f'{g.qualname}: LCOE call not located')
        late = []
        for s in top[idx + 1:]:
            # direct writes
            for x in ast.walk(s):
                if isinstance(x, (ast.Assign, ast.AugAssign)):
                    for t in (x.targets if isinstance(x, ast.Assign) else [x.target]):
                        for e in (t.elts if isinstance(t, ast.Tuple) else [t]):
                            b = e.value if isinstance(e, ast.Subscript) else e
                            k = target_key(b) or ''
                            if k.endswith('.value') and attr_of(k) in read_attrs and attr_of(k) not in OUTS:
                                late.append((x.lineno, k))
                if isinstance(x, ast.Call):
                    for t in cg.call_targets(x, g):
                        if t.name == 'Calculate' and t.cls is not None and t is not g:
                            w = _writes_of(t)
                            hit = sorted(a for a in w if a in read_attrs and a not in OUTS)
                            if hit:
                                late.append((x.lineno, f'{t.qualname} writes {hit[:3]}'))
        ctx.check(not late, 'R7', f'{g.qualname}/computed-after-last-write', f'{g.module.rel}:{st.lineno}',
                  f'the levelized costs are computed at line {st.lineno} but {late[0][1] if late else ""} is (re)written afterwards '
                  f'(line {late[0][0] if late else 0}): the reported cost is not the formula applied to the reported series/costs',
                  fact=f'{len(top) - idx - 1} later statements write none of the {len(read_attrs)} attributes it reads')

    # ------------------------------------------------------------------------------------------ R1 decision table
    writer = repo.method('Outputs', 'PrintOutputs', 'geophires_x/Outputs.py')
    prints: Dict[str, List[ast.Call]] = {o: [] for o in OUTS}
    from gxstat.report import writer_templates as _wt0
    for t_ in _wt0(repo, only=['Outputs']):        # through the template engine: f-string, concatenation, .format with attribute fields
        for v_ in t_.values():
            for o in OUTS:
                if v_.obj == f'model.economics.{o}' and t_.call not in prints[o]:
                    prints[o].append(t_.call)
    ctx.floor('R1', sum(len(v) for v in prints.values()), 4, 'report lines printing a levelized cost')
    rows = bad_rows = 0
    reported: Set[str] = set()
    for cfg in _configs(reg):
        rows += 1
        match = [p for p in paths if conds_hold(p.conds, cfg) is not False]
        definite = [p for p in match if conds_hold(p.conds, cfg) is True]
        label = f"{cfg['econmodel.value'][1]}/{cfg['enduse_option.value'][1]}/{cfg['plant_type.value'][1]}"
        if len(match) != len(definite):
            # a guard that is not an enum comparison (even through its aliases) is outside what this rule can evaluate
            raise AnalysisError(f'CalculateLCOELCOHLCOC: configuration {label}: {len(match) - len(definite)} path guard(s) cannot be '
                                f'evaluated over the option enums (idiom changed)')
        if len(definite) != 1:
            k = 'CalculateLCOELCOHLCOC/ambiguous-path'
            if k not in reported:
                reported.add(k)
                ctx.bad('R1', k, f.where, f'configuration {label} selects {len(match)} paths ({len(definite)} decidably): guards are '
                                          f'not a partition over enum comparisons')
            continue
        p = definite[0]
        computed = {o for o in OUTS if assigned(p, o)}
        printed = set()
        for o in OUTS:
            for c in prints[o]:
                g = [(t, pol) for t, pol in guards_of(c, writer.node)]
                if conds_hold(g, cfg) is not False:
                    printed.add(o)
        missing = printed - computed
        if missing:
            bad_rows += 1
            for o in sorted(missing):
                key = f'{label}/prints-{o}-but-computes-none'
                ctx.bad('R1', key, f'{rel}:{f.node.lineno}',
                        f'configuration {label}: the report prints {o} but CalculateLCOELCOHLCOC assigns none on the path taken '
                        f'({cond_text(p.conds)[:120]}): the figure shown is the initial 0.0')
    if not bad_rows:
        ctx.ok('R1', 'decision-table/printed-subset-of-computed', f.where, f'{rows} configurations')
    ctx.analysed['decision_table_rows'] = rows
    # partition agrees across the three model arms: same set of outputs per (enduse, plant) in every model
    per: Dict[Tuple[str, str], Dict[str, frozenset]] = {}
    for cfg in _configs(reg):
        ps = [p for p in paths if conds_hold(p.conds, cfg) is True]
        if len(ps) == 1:
            per.setdefault((cfg['enduse_option.value'][1], cfg['plant_type.value'][1]), {})[cfg['econmodel.value'][1]] = \
                frozenset(o for o in OUTS if assigned(ps[0], o))
    for (u, pt), m in sorted(per.items()):
        vals = set(m.values())
        ctx.check(len(vals) == 1, 'R1', f'arms-agree/{u}/{pt}', f.where,
                  f'end-use {u} / plant {pt}: the model arms compute different outputs: ' +
                  ', '.join(f'{k}:{sorted(v)}' for k, v in sorted(m.items())))

    # ------------------------------------------------------------------------------------------ per path R2..R6
    price_atoms = _price_attrs(reg)
    n_out = 0
    for p in paths:
        arm = _arm_of(p)
        for o in OUTS:
            if not assigned(p, o):
                continue
            n_out += 1
            d = p.env[o]
            where = f'{rel}:{d.line}'
            leaf = f'{arm}/{_leaf_label(p)}/{o}'
            # R6 dependency set (full inlining)
            deps = _deps(d)
            leak = sorted(a for a in deps if attr_of(a) in price_atoms)
            ctx.check(not leak, 'R6', leaf, where, f'{o} depends on {leak[:3]}: a sale price / incentive leaks into a cost',
                      fact=f'{len(deps)} atoms, none a price')
            # R2 denominator
            try:
                T = Translator(wrappers='identity')
                rat = T.tr_def(d)
            except Unsupported as e:
                raise AnalysisError(f'{leaf}: expression outside the supported algebra: {e}')
            den_energy = {attr_of(a) for a in rat.d.atoms() if attr_of(a) in ENERGY_ATTRS}
            num_energy = {attr_of(a) for a in rat.n.atoms() if attr_of(a) in ENERGY_ATTRS}
            exp = ENERGY_OF[o]
            dh = 'DISTRICT_HEATING' in _leaf_label(p)
            want = {'annual_heating_demand'} if (o == 'LCOH' and dh) else (exp - {'annual_heating_demand'})
            ctx.check(den_energy == want, 'R2', leaf, where,
                      f'{o} is levelized over {sorted(den_energy) or "no energy series"}; its own product series is {sorted(want)}',
                      fact=f'denominator energy atoms {sorted(den_energy)}')
            stray = num_energy - CONSUMPTION - den_energy
            # numerator energy atoms that also appear in the denominator come from cross-multiplication; bought energy is allowed
            ctx.check(not (num_energy - CONSUMPTION - want), 'R2', leaf + '/numerator', where,
                      f'{o}: product/energy series {sorted(num_energy - CONSUMPTION - want)} appear in the cost numerator')
            # R3 unit typing
            def atom_type(key, node, _res=res):
                if key in ('CRF', 'iave', 'discountvector', 'inflationvector'):
                    return UT(NONE, Fraction(1))
                return _res.unit(key)
            ut = UnitTyper(atom_type, inline=lambda k: k not in ('CRF', 'iave', 'discountvector', 'inflationvector'))
            try:
                t = ut.ty_def(d)
                dm, sc = UNIT_TABLE[TARGET_UNIT[o]]
                if isinstance(t, Lit):
                    ctx.bad('R3', leaf, where, f'{o} is a pure literal')
                elif t.dim != dm:
                    ctx.bad('R3', leaf, where, f'{o} has dimension {t.show()}, declared unit is {TARGET_UNIT[o]}')
                else:
                    ctx.check(close(t.scale, sc), 'R3', leaf, where,
                              f'{o}: the literal factors give a value in units of {float(t.scale):.6g} USD/kWh but the declared unit '
                              f'{TARGET_UNIT[o]} is {float(sc):.6g} USD/kWh (factor {float(t.scale / sc):.6g} off): a conversion constant is '
                              f'wrong or missing', fact=f'scale {float(t.scale):.6g} = {TARGET_UNIT[o]}')
            except UnitMismatch as e:
                if ut.unknown:
                    raise AnalysisError(f'{leaf}: atom without unit type: {ut.unknown[:3]}')
                ctx.bad('R3', leaf, where, f'{o}: {e}')
            # R4 construction inflation factor
            _check_r4(ctx, p, d, o, leaf, where, arm)
        # R5 vectors
        if arm in R5_EXPECT:
            _check_r5(ctx, p, arm, rel)
    ctx.floor('R2', n_out, 21, 'assigned outputs over all paths')
    ctx.analysed['assigned_outputs'] = n_out
    ctx.rule('R11', 'cogeneration split: `_heat` terms and LCOH are built from `_heat` and shared terms only, `_elec` terms and LCOE from `_elec` only')
    n11 = check_product_suffix_discipline(ctx, 'R11')
    ctx.floor('R11', n11, 10, 'per-product terms of the cogeneration arms')
    ctx.rule('R10', 'every levelized-cost line of the text report prints the output of the economics object whose Calculate computed it last '
                    '(model.economics), and nothing else calls CalculateLCOELCOHLCOC on that object from another model part')
    from gxstat.report import writer_templates as _wt
    n10 = 0
    for t in _wt(ctx.repo, only=['Outputs', 'OutputsAddOns']):
        for v in t.values():
            if v.obj and v.obj.split('.')[-1] in ('LCOE', 'LCOH', 'LCOC') and not t.loops:
                n10 += 1
                ctx.check(v.obj.startswith('model.economics.'), 'R10', f'{t.fn.cls.name}/{(t.label or "line")[:50]}/prints-model.economics.{v.obj.split(".")[-1]}', t.where,
                          f'the line prints {v.obj}: the levelized cost the report states is not the one Economics.Calculate computed last from '
                          f'the final series (add-on / other objects hold snapshots or never-populated copies)', fact=v.obj)
    ctx.floor('R10', n10, 6, 'levelized-cost values in the text report')
    for g, st in sites:
        recv = st.value.args[0] if st.value.args else None
        ctx.check(recv is not None and norm(recv) == 'self', 'R10', f'{g.qualname}/levelized-cost-of-own-object', f'{g.module.rel}:{st.lineno}',
                  f'`{norm(st.value)[:80]}` computes the levelized costs of another object ({norm(recv) if recv is not None else "?"}) in the middle of '
                  f'that object\'s own calculation: the result is a snapshot taken before the series are final', fact='CalculateLCOELCOHLCOC(self, model)')
    ctx.rule('R9', 'the levelized-cost rows of the rich/HTML report print the levelized cost their label names (C09 W2 on those rows)')
    from gxstat.report import writer_templates
    from gxstat.runner import Renamed
    from rules.c09 import check_sibling
    check_sibling(Renamed(ctx, {'W2': 'R9'}, key_filter=lambda k: any(x in k for x in ('LCOE', 'LCOH', 'LCOC', 'breakeven price'))),
                  writer_templates(ctx.repo, only=['Outputs']))
    ctx.floor('R9', sum(1 for o in ctx.obligations if o['rule'] == 'R9'), 4, 'levelized-cost rows shared by the two writers')
    ctx.rule('R8', "the discount rate the levelized cost uses is the synchronised one: conversions store a number in the target's own unit, no stale copies (shared)")
    from rules.rate_sync import check_rate_sync
    _n = check_rate_sync(ctx, 'R8', only_functions={'sync_interest_rate'})
    ctx.floor('R8', _n, 4, 'conversion assignments / sync functions of the rate family')
    ctx.undecided('numerical equality with a reference implementation for continuous inputs', 'np.power / np.sum rounding',
                  'the capital-recovery-factor formula itself',
                  'unarmed sibling deviant: cogeneration LCOH charges pumping cost in STANDARD, via averageannualpumpingcosts in FCR, '
                  'not at all in BICYCLE (no in-repo document decides which is right)')
    ctx.assume('np.sum/np.average are linear and unit-preserving', 'declared units of inputs, MUSD money outputs and LCO* are anchors; '
               'kWh series units are inferred through the integrator (see gxstat/atoms.py INFERRED_UNITS)')


def _writes_of(fn) -> Set[str]:
    out: Set[str] = set()
    for x in ast.walk(fn.node):
        if isinstance(x, (ast.Assign, ast.AugAssign)):
            for t in (x.targets if isinstance(x, ast.Assign) else [x.target]):
                for e in (t.elts if isinstance(t, ast.Tuple) else [t]):
                    b = e.value if isinstance(e, ast.Subscript) else e
                    k = target_key(b) or ''
                    if k.endswith('.value'):
                        out.add(attr_of(k))
    return out


def _price_attrs(reg) -> Set[str]:
    out = set()
    for d in reg.class_decls('Economics'):
        a = d.attr
        if any(w in a for w in ('Price', 'PTC', 'Revenue', 'CashFlow', 'Escalation', 'Carbon', 'NPV', 'IRR', 'VIR', 'MOIC')):
            out.add(a)
    return out


def _deps(d: Def, seen=None) -> Set[str]:
    seen = seen if seen is not None else set()
    out: Set[str] = set()
    if d is None or id(d) in seen:
        return out
    seen.add(id(d))
    if d.expr is None:
        return {d.key}
    for k in names_read(d.expr):
        if k in d.binds:
            out |= _deps(d.binds[k], seen)
        elif k.endswith('.value'):
            out.add(k)
    return out


_PATH_SEM: Dict[int, tuple] = {}
_OWN_PLANTS = ('ABSORPTION_CHILLER', 'HEAT_PUMP', 'DISTRICT_HEATING')


def _arm_of(p) -> str:
    sem = _PATH_SEM.get(id(p))
    if sem is not None and len(sem[0]) == 1:
        return next(iter(sem[0]))
    for t, pol, _ in p.conds:
        if pol and 'econmodel.value ==' in norm(t):
            return norm(t).split('.')[-1]
    if all('econmodel.value' in norm(t) and not pol for t, pol, _ in p.conds[:2]) and len(p.conds) >= 2:
        return 'BICYCLE'
    return 'other'


def _leaf_label(p) -> str:
    sem = _PATH_SEM.get(id(p))
    if sem is not None:
        _, uses, plants = sem
        if uses == {'ELECTRICITY'}:
            return 'ELECTRICITY'
        if all(u.startswith('COGENERATION') for u in uses):
            return 'COGENERATION'
        if uses == {'HEAT'}:
            return next(iter(plants)) if len(plants) == 1 and next(iter(plants)) in _OWN_PLANTS else 'HEAT'
    parts = []
    for t, pol, _ in p.conds:
        if not pol or 'econmodel' in norm(t):
            continue
        txt = norm(t)
        for frag in ('COGENERATION', 'ABSORPTION_CHILLER', 'HEAT_PUMP', 'DISTRICT_HEATING', 'ELECTRICITY'):
            if frag in txt and 'not in' not in txt:
                parts.append(frag)
                break
        else:
            if 'EndUseOptions.HEAT' in txt:
                parts.append('HEAT')
    return '+'.join(dict.fromkeys(parts)) or 'none'


def _check_r4(ctx, p, d: Def, o: str, leaf: str, where: str, arm: str) -> None:
    """Capital terms carry (1 + inflrateconstruction).  Poly test: terms containing CCap vanish at infl := -1."""
    keep_opaque = ('CRF', 'iave', 'discountvector', 'inflationvector')
    if arm != 'BICYCLE':
        T = Translator(wrappers='identity', inline=lambda k: k not in keep_opaque)
        rat = T.tr_def(d)
        cap = rat.n.terms_with(lambda a: a == CAPITAL)
        ctx.require(not cap.is_zero(), f'{leaf}: no capital term found in the numerator (anchor vanished)')
        resid = _subst(cap, INFL, Fraction(-1))
        ctx.check(resid.is_zero(), 'R4', leaf, where,
                  f'{o}: capital terms are not all multiplied by (1 + inflation during construction); residual at infl=-1: '
                  f'{resid.show(4)}', fact='capital part divisible by (1 + inflrateconstruction)')
        noncap = rat.n.terms_without(lambda a: a == CAPITAL)
        ctx.check(INFL not in noncap.atoms(), 'R4', leaf + '/only-capital', where,
                  f'{o}: construction inflation also multiplies non-capital (annual O&M / energy purchase) terms: '
                  f'{noncap.terms_with(lambda a: a == INFL).show(3)}', fact='annual terms carry no construction-inflation factor')
        return
    # BICYCLE: check each NPV* building block that mentions capital
    seen = set()
    for k, dd in _local_defs(d).items():
        if not k.startswith('NPV') or dd.expr is None or id(dd) in seen:
            continue
        seen.add(id(dd))
        T = Translator(wrappers='identity', inline=lambda kk: kk not in keep_opaque and not kk.startswith('NPV'))
        rat = T.tr_def(dd)
        cap = rat.n.terms_with(lambda a: a == CAPITAL)
        noncap = rat.n.terms_without(lambda a: a == CAPITAL)
        if INFL in noncap.atoms():
            ctx.bad('R4', f'{leaf}/{k}/only-capital', where,
                    f'{k}: construction inflation multiplies non-capital terms: {noncap.terms_with(lambda a: a == INFL).show(3)}')
        if cap.is_zero():
            continue
        resid = _subst(cap, INFL, Fraction(-1))
        key = f'{leaf}/{k}'
        if k.startswith('NPVit') and not k.startswith('NPVitc'):
            # frozen exception: straight-line depreciation CCap/lifetime (un-inflated) inside the income-tax term
            full = Rat(_subst(rat.n, INFL, Fraction(-1)), _subst(rat.d, INFL, Fraction(-1)))
            ok = (not resid.is_zero()) and LIFE in full.d.atoms() and 'self.CTR.value' in full.n.atoms() and \
                all(any(a == CAPITAL for a, _ in m) for m in resid.t)
            ctx.check(ok, 'R4', key, f'{where}', f'{k}: at infl=-1 the remainder should be exactly the depreciation term '
                      f'-CTR/(1-CTR)*C/lifetime*discount; found {full.show(4)}', fact='remainder = depreciation term only')
        else:
            ctx.check(resid.is_zero(), 'R4', key, where,
                      f'{k}: capital terms are not all multiplied by (1 + inflation during construction); residual {resid.show(3)}',
                      fact='divisible by (1 + inflrateconstruction)')


def _local_defs(d: Def, out=None, seen=None) -> Dict[str, Def]:
    out = out if out is not None else {}
    seen = seen if seen is not None else set()
    if d is None or id(d) in seen:
        return out
    seen.add(id(d))
    for k, dd in d.binds.items():
        if '.' not in k:
            out.setdefault(k, dd)
        _local_defs(dd, out, seen)
    return out


def _subst(p: Poly, atom: str, val: Fraction) -> Poly:
    r: Dict = {}
    for m, c in p.t.items():
        cc = c
        mm = []
        for a, e in m:
            if a == atom:
                cc = cc * (val ** e)
            else:
                mm.append((a, e))
        mm = tuple(mm)
        r[mm] = r.get(mm, 0) + cc
    return Poly(r)


def _check_r5(ctx, p, arm: str, rel: str) -> None:
    defs: Dict[str, Def] = {}
    for o in OUTS:
        if o in p.env:
            defs.update(_local_defs(p.env[o]))
    for vec, (rate, (s0, e0, _)) in R5_EXPECT[arm].items():
        d = defs.get(vec)
        if d is None:
            continue        # path assigns nothing that uses the vector
        key = f'{arm}/{vec}'
        where = f'{rel}:{d.line}'
        expr = d.expr
        # shape: [1 /] np.power(1 + <rate>, <range>)
        pw = [c for c in ast.walk(expr) if isinstance(c, ast.Call) and dotted_name(c.func) == 'np.power']
        if not pw:
            # the vector may come from a one-expression module helper (`discount_factors(rate, lifetime, first_year)`): read it written out
            from gxstat import algebra as _alg
            from gxstat.inline import inline_simple_calls
            expr = inline_simple_calls(expr, _alg.INLINE_FUNCTIONS)
            pw = [c for c in ast.walk(expr) if isinstance(c, ast.Call) and dotted_name(c.func) == 'np.power']
        ctx.require(len(pw) == 1 and len(pw[0].args) == 2, f'{key}: np.power(base, exponents) not found')
        base, exps = pw[0].args
        inv = isinstance(expr, ast.BinOp) and isinstance(expr.op, ast.Div) and norm(expr.right) == norm(pw[0])
        ctx.check(inv == (vec == 'discountvector'), 'R5', key + '/direction', where,
                  f'{vec} is {"" if inv else "not "}a reciprocal power: discounting divides, inflating multiplies')
        try:
            b = Translator(binds=d.binds, inline=lambda k: False).tr(base)
        except Unsupported as e:
            raise AnalysisError(f'{key}: {e}')
        want = Rat.const(1) + Rat.atom(rate)
        ctx.check(b.equals(want), 'R5', key + '/rate', where,
                  f'{vec} is built on `{norm(base)}`; this arm discounts/inflates with 1 + {rate}', fact=f'base 1 + {rate}')
        rng = _range_of(exps, d)
        ctx.require(rng is not None, f'{key}: exponent vector `{norm(exps)[:60]}` is not linspace/arange of the plant lifetime')
        start, stop, num = rng
        L = Rat.atom(LIFE)
        ok = start.equals(Rat.const(s0)) and stop.equals(L + Rat.const(e0)) and num.equals(L)
        ctx.check(ok, 'R5', key + '/exponents', where,
                  f'{vec} exponents run {start.show()} .. {stop.show()} ({num.show()} values); this arm uses {s0} .. lifetime{e0:+d} '
                  f'(lifetime values): a shifted or mis-sized discount exponent', fact=f'{s0} .. L{e0:+d}, L values')


def _range_of(node: ast.AST, d: Def):
    if not isinstance(node, ast.Call):
        return None
    fn = dotted_name(node.func)
    T = Translator(binds=d.binds, inline=lambda k: True)
    try:
        if fn == 'np.linspace' and len(node.args) == 3:
            return tuple(T.tr(a) for a in node.args)
        if fn in ('np.arange', 'range'):
            a = [T.tr(x) for x in node.args]
            if len(a) == 1:
                return Rat.const(0), a[0] - Rat.const(1), a[0]
            if len(a) == 2:
                return a[0], a[1] - Rat.const(1), a[1] - a[0]
    except Unsupported:
        return None
    return None
