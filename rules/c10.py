"""C10 -- the client returns exactly what the report says.

X1 field x template cross product (no field can pick one of several differing lines), X2 value/unit tokenisation,
X3 table headers vs row templates (column counts, separated cells), X4 as_csv covers every category/table and does not
mutate the parsed result, J1 registry key = own name, J2 unique output names, J3 declared unit = held unit for the
kWh / heat-content outputs that reach the JSON."""
from __future__ import annotations

import ast
import re
from fractions import Fraction
from typing import Dict, List, Optional, Set, Tuple

from gxstat.atoms import AtomResolver
from gxstat.callgraph import get_callgraph
from gxstat.clienttable import result_fields
from gxstat.registry import EnumRef, get_registry
from gxstat.report import Template, WILD, WRITERS, exclusive, writer_templates
from gxstat.srcmodel import AnalysisError, calls_in, const_value, dotted_name, norm, parent
from rules.c09 import INFO_ONLY, _section_of, check_adjacent_holes


DIGITS = ('1', '2', '3', '4', '12')


def _instances(t: Template) -> List[str]:
    """Static text of the line with every hole instantiated: value holes by a digit string (a formatted number or str(i) is
    never empty), unit holes by '' or a token."""
    if not any(s.kind in ('value', 'unit') for s in t.segs):
        return [t.text()]
    out = []
    for d in DIGITS:
        for u in ('', 'u'):
            out.append(''.join(s.text if s.kind in ('lit', 'label') else (_pad(d, s.spec) if s.kind == 'value' else u) for s in t.segs))
    return out


def _pad(d: str, spec: str) -> str:
    """A number formatted with a width is right-aligned in it: `{x:10.2f}` directly after a colon still leaves blanks in between."""
    m = re.match(r'^[<>^=]?[+\- ]?#?0?(\d+)', spec or '')
    if m and not (spec or '').startswith('<'):
        return d.rjust(int(m.group(1)))
    return d


def _matches(t: Template, needle: str) -> bool:
    return any(needle in inst for inst in _instances(t))


REDUCERS = ('np.average', 'np.mean', 'np.max', 'np.min', 'np.amax', 'np.amin', 'float', 'np.sum')


def _strip_reducer(txt: str) -> str:
    for r in REDUCERS:
        if txt.startswith(r + '(') and txt.endswith(')'):
            return txt[len(r) + 1:-1]
    return txt


def _label_hole(t: Template) -> Optional[ast.AST]:
    """The (single) value hole sitting before the label's colon, e.g. `Segment {str(i)}   Thickness:`."""
    seen = []
    for s in t.segs:
        if s.kind in ('lit', 'label') and ':' in s.text:
            break
        if s.kind == 'value':
            seen.append(s)
    if len(seen) != 1 or seen[0].node is None:
        return None
    n = seen[0].node
    while isinstance(n, ast.Call) and dotted_name(n.func) == 'str' and len(n.args) == 1:
        n = n.args[0]
    return n


def _affine1(node: ast.AST) -> Optional[Tuple[str, Fraction, Fraction]]:
    """node = a*v + b for one Name v with constant a, b."""
    if isinstance(node, ast.Name):
        return node.id, Fraction(1), Fraction(0)
    if isinstance(node, ast.Constant) and isinstance(node.value, int) and not isinstance(node.value, bool):
        return '', Fraction(0), Fraction(node.value)
    if isinstance(node, ast.BinOp) and isinstance(node.op, (ast.Add, ast.Sub)):
        l, r = _affine1(node.left), _affine1(node.right)
        if l is None or r is None:
            return None
        sign = 1 if isinstance(node.op, ast.Add) else -1
        if l[0] and r[0] and l[0] != r[0]:
            return None
        return l[0] or r[0], l[1] + sign * r[1], l[2] + sign * r[2]
    if isinstance(node, ast.BinOp) and isinstance(node.op, ast.Mult):
        l, r = _affine1(node.left), _affine1(node.right)
        if l is None or r is None:
            return None
        if l[1] == 0:
            return r[0], r[1] * l[2], r[2] * l[2]
        if r[1] == 0:
            return l[0], l[1] * r[2], l[2] * r[2]
    return None


def _value_sig(t: Template, v) -> Tuple:
    """Value hole signature; subscripts affine in the loop variable are re-expressed in the label hole's variable k
    (`Segment {i}: g[i-1]` and `Segment {i+1}: g[i]` both print g[k-1] next to k)."""
    txt = v.text
    lab = _label_hole(t)
    la = _affine1(lab) if lab is not None else None
    node = v.node
    if la and la[0] and la[1] != 0 and node is not None:
        var, a, b = la
        idx = [n for n in ast.walk(node) if isinstance(n, ast.Subscript)]
        parts = []
        okk = True
        for sub in idx:
            ia = _affine1(sub.slice)
            if ia is None or (ia[0] and ia[0] != var):
                okk = False
                break
            c, d = ia[1], ia[2]
            parts.append((norm(sub.value), str(c / a), str(d - c * b / a)))
        if okk and idx:
            return ('indexed-by-label', tuple(parts), v.spec)
    return (txt, v.spec)


def _sig(t: Template, needle_label: str = '') -> Tuple:
    lab = _label_hole(t)
    vals = [_value_sig(t, v) for v in t.values() if not (lab is not None and v.node is not None and
                                                         (v.node is lab or any(x is lab for x in ast.walk(v.node))))]
    units = [(u.obj, u.which) for u in t.units()]
    tail = t.text().split(':')[-1].strip(' \n' + WILD)
    return (tuple(vals), tuple(units), tail)


def _same_line(a: Template, b: Template) -> bool:
    sa, sb = _sig(a), _sig(b)
    if sa == sb:
        return True
    if sa[1:] != sb[1:] or len(sa[0]) != len(sb[0]):
        return False
    for x, y in zip(sa[0], sb[0]):
        if x == y:
            continue
        # `{np.average(X):10.2f}` next to `{X:10.2f}`: a float format spec on bare X means X is a scalar (an array raises
        # TypeError there), and every listed reducer is the identity on a scalar
        if len(x) == 2 and len(y) == 2 and x[1] == y[1] and x[1][-1:] in ('f', 'e', 'g') and \
                (_strip_reducer(x[0]) == y[0] or _strip_reducer(y[0]) == x[0]):
            continue
        return False
    return True


def _cooccur_table(repo) -> Set[Tuple[str, str]]:
    """Pairs of writer classes whose PrintOutputs can contribute to one report file (one reaches the other in the call graph)."""
    cg = get_callgraph(repo)
    fns = {}
    for cn, meth, suffix in WRITERS:
        if repo.has_module(suffix):
            fns[cn] = repo.method(cn, meth, suffix)
    pairs: Set[Tuple[str, str]] = set()
    reach = {cn: {id(x) for x in cg.reachable([f]).values()} for cn, f in fns.items()}
    for a in fns:
        for b in fns:
            if a == b or id(fns[b].node) in {0}:
                continue
            if any(fns[b] is x for x in cg.reachable([fns[a]]).values()):
                pairs.add((a, b))
                pairs.add((b, a))
    # transitively: two writers both reached from a third co-occur
    for r in fns:
        reached = [b for b in fns if (r, b) in pairs]
        for x in reached:
            for y in reached:
                if x != y and (r, x) in pairs and (r, y) in pairs and _reaches(cg, fns[r], fns[x]) and _reaches(cg, fns[r], fns[y]):
                    pairs.add((x, y))
    return pairs


def _reaches(cg, f, g) -> bool:
    return any(g is x for x in cg.reachable([f]).values())


def _excl(a: Template, b: Template, co: Set[Tuple[str, str]]) -> bool:
    if a.fn is not b.fn:
        return (a.fn.cls.name, b.fn.cls.name) not in co
    if exclusive(a, b):
        return True
    # same test text under opposite polarity in two different if statements of the read-only writer
    ga = {}
    for t, pol in a.guards:
        ga.setdefault(norm(t), set()).add(pol)
    for t, pol in b.guards:
        k = norm(t)
        if k in ga and ga[k] == {not pol} and not _writes_tested_state(a.fn, t):
            return True
    return False


def _writes_tested_state(fn, test: ast.AST) -> bool:
    reads = {norm(n) for n in ast.walk(test) if isinstance(n, ast.Attribute)}
    for st in ast.walk(fn.node):
        if isinstance(st, (ast.Assign, ast.AugAssign)):
            tg = st.targets if isinstance(st, ast.Assign) else [st.target]
            for t in tg:
                if norm(t) in reads:
                    return True
    return False


# client fields no writer of this tree prints: kept by the client so that reports written by earlier versions still parse (one reason per row)
LEGACY_FIELDS = {
    ('SUMMARY OF RESULTS', 'Direct-Use Cooling Breakeven Price'): 'label before "(LCOC)" was appended; the current label is listed next to it',
    ('SUMMARY OF RESULTS', 'Well depth (or total length, if not vertical)'): 'marked deprecated in the client table',
    ('ENGINEERING PARAMETERS', 'Well depth (or total length, if not vertical)'): 'marked deprecated in the client table',
    ('EXTENDED ECONOMICS', 'Project Payback Period       (including AddOns)'): 'the add-on writer prints `AddOns Payback Period` (also listed)',
    ('CCUS ECONOMICS', 'Total Avoided Carbon Production'): 'CCUS section of earlier versions (see the legacy CCUS profile reader)',
    ('CCUS ECONOMICS', 'Project NPV            (including carbon credit)'): 'CCUS section of earlier versions',
    ('CCUS ECONOMICS', 'Project IRR            (including carbon credit)'): 'CCUS section of earlier versions',
    ('CCUS ECONOMICS', 'Project VIR=IR=PIR     (including carbon credit)'): 'CCUS section of earlier versions',
    ('CCUS ECONOMICS', 'Project MOIC           (including carbon credit)'): 'CCUS section of earlier versions',
    ('CCUS ECONOMICS', 'Project Payback Period (including carbon credit)'): 'CCUS section of earlier versions',
    ('OPERATING AND MAINTENANCE COSTS (M$/yr)', 'Average annual pumping costs'): 'earlier label of `Average Reservoir Pumping Cost`',
}


def _nearest_label(templates, name: str):
    want = re.sub(r'\s+', ' ', name).strip().lower()
    for t in templates:
        if t.label and re.sub(r'\s+', ' ', t.label).strip().lower() == want:
            return t
    return None


def check_x1_x2(ctx, templates: List[Template]) -> None:
    repo = ctx.repo
    reg = get_registry(repo)
    fields = result_fields(repo)
    nfields = sum(len(v) for v in fields.values())
    ctx.floor('X1', nfields, 200, 'client result fields')
    runnable = [t for t in templates if t.fn.cls.name not in INFO_ONLY]
    legacy = 0
    nmatch = 0
    co = _cooccur_table(repo)
    ctx.analysed['cooccurring_writer_pairs'] = sorted('+'.join(p) for p in co if p[0] < p[1])
    ctx.require(('Outputs', 'OutputsAddOns') in co, 'Outputs.PrintOutputs no longer reaches OutputsAddOns.PrintOutputs in the call graph (co-occurrence table)')
    for cat, flist in fields.items():
        indent = 1 if cat == 'Simulation Metadata' else 4
        for name, kind in flist:
            needle = (f'  {name} = ' if kind == 'equal-sign' else f'{indent * " "}{name}: ')
            ms = [t for t in runnable if _matches(t, needle)]
            if not ms:
                legacy += 1
                key6 = f'{cat}/{name}/some-writer-prints-this-label'
                if (cat, name) in LEGACY_FIELDS:
                    ctx.ok('X6', key6, 'src/geophires_x_client/geophires_x_result.py', 'kept for reports of earlier versions: ' + LEGACY_FIELDS[(cat, name)])
                elif any(_matches(t, needle) for t in templates):
                    ctx.ok('X6', key6, 'src/geophires_x_client/geophires_x_result.py', 'printed by the AGS writer only')
                else:
                    near = _nearest_label(runnable, name)
                    ctx.bad('X6', key6, near.where if near is not None else 'src/geophires_x_client/geophires_x_result.py',
                            f'the client (and the result schema) name the field `{name}` in {cat}, but no report writer prints a line the '
                            f'client\'s matcher `{needle}` finds' + (f' - the closest is `{near.label}` ({near.where}): the label differs on one '
                                                                      f'side only, so the field comes back as None from a fresh report'
                                                                      if near is not None else ''))
                continue
            nmatch += 1
            key = f'{cat}/{name}'
            # ---- X1 ambiguity among lines that can occur in one report
            amb = None
            for i in range(len(ms)):
                for j in range(i + 1, len(ms)):
                    a, b = ms[i], ms[j]
                    if _excl(a, b, co):
                        continue
                    if not _same_line(a, b):
                        amb = (a, b)
                        break
                if amb:
                    break
            if amb:
                a, b = amb
                ctx.bad('X1', key + '/unambiguous', b.where,
                        f'field `{name}` matches the line written at {a.where} and the different line written at {b.where} in the same '
                        f'report ({_diff(a, b)}); the client pops one of the set of matching lines, so which value/precision it returns depends '
                        f'on the hash seed')
            else:
                ctx.ok('X1', key + '/unambiguous', ms[0].where, f'{len(ms)} matching template(s), co-occurring ones identical')
            # ---- X2 tokenisation
            if kind == 'number':
                for t in ms:
                    prob = _tokenisation_problem(reg, t, needle)
                    if prob:
                        ctx.bad('X2', key + '/value-unit-tokens', t.where, f'field `{name}`: {prob}')
                        break
                else:
                    ctx.ok('X2', key + '/value-unit-tokens', ms[0].where, 'value[ unit] after the label')
    ctx.analysed['client_fields'] = nfields
    ctx.analysed['fields_with_writer'] = nmatch
    ctx.analysed['legacy_fields_without_writer'] = legacy
    ctx.floor('X1', nmatch, 150, 'fields matched by a writer template')
    # labels: one label must not be a needle-substring of a differently labelled line
    labels = {}
    for t in runnable:
        if t.label and not t.loops:
            labels.setdefault(t.label, t)
    names = {n for fl in fields.values() for n, k in fl if k != 'equal-sign'}
    for name in sorted(names):
        needle = f'    {name}: '
        for lab, t in labels.items():
            if lab != name and needle in (t.text().replace(WILD, '1')) and not lab.endswith(name):
                ctx.bad('X1', f'{name}/substring-of:{lab}', t.where, f'the needle of field `{name}` also occurs inside the line labelled `{lab}`')


def _diff(a: Template, b: Template) -> str:
    sa, sb = _sig(a, ''), _sig(b, '')
    if sa[0] != sb[0]:
        return f'values {sa[0][:1]} vs {sb[0][:1]}'
    if sa[1] != sb[1]:
        return f'unit labels {sa[1]} vs {sb[1]}'
    return f'tails {sa[2]!r} vs {sb[2]!r}'


def _tokenisation_problem(reg, t: Template, needle: str) -> Optional[str]:
    """After the label the client removes runs of >= 2 blanks, strips, and splits on single blanks: it understands exactly
    `value` or `value unit`."""
    segs = t.segs
    # locate the end of the label
    txt = ''
    idx = None
    for i, s in enumerate(segs):
        txt += s.text if s.kind in ('lit', 'label') else WILD
        if needle.strip() in txt.replace(WILD, '1') or needle.strip() in txt:
            idx = i
            break
    if idx is None:
        return None
    rest = segs[idx + 1:]
    lit_after_label = segs[idx].text.split(':')[-1] if segs[idx].kind in ('lit', 'label') else ''
    toks = []
    cur = lit_after_label
    parts: List[str] = [lit_after_label]
    nval = 0
    for s in rest:
        if s.kind in ('lit', 'label'):
            parts.append(s.text)
        elif s.kind == 'value':
            parts.append('V')
            nval += 1
        else:
            parts.append('U')
            # unit strings without blanks
            d = AtomResolver(reg.repo, t.fn.cls.name).decl(s.obj + '.value')
            if d is not None:
                u = d.get(s.which) or d.get('CurrentUnits') or d.get('PreferredUnits')
                if isinstance(u, EnumRef):
                    for m, v in reg.enums.enums.get(u.enum, {}).items():
                        if isinstance(v, str) and ' ' in v.strip():
                            return f'unit catalogue {u.enum} contains `{v}` (with a blank): `value unit` would split into 3 tokens and the unit be dropped'
    line = ''.join(parts).split('\n')[0]
    collapsed = re.sub(r'\s\s+', '', line).strip()
    tokens = [x for x in collapsed.split(' ')]
    if len(tokens) > 2:
        return f'text after the label tokenises into {tokens} (more than value + unit): the unit is dropped or the value misparsed'
    if tokens and 'V' not in tokens[0]:
        return f'first token after the label is `{tokens[0]}`, not the value'
    if tokens and tokens[0].count('V') > 1:
        return f'two values are glued into the first token `{tokens[0]}`'
    if tokens and tokens[0] != 'V':
        return (f'the value is glued to other text (`{tokens[0]}`): no blank separates it from what follows, so the number does not parse '
                f'and the unit is lost')
    if len(tokens) == 2 and 'V' in tokens[1]:
        return f'a second value follows the first (`{tokens[1]}`) and is returned as the unit'
    return None


# ------------------------------------------------------------------------------------------------- tables
def _class_const(ci, name: str):
    for st in ci.node.body:
        tgt = st.targets[0] if isinstance(st, ast.Assign) else st.target if isinstance(st, ast.AnnAssign) else None
        if tgt is not None and norm(tgt) == name and isinstance(st.value, ast.Constant):
            return st.value.value
    return None


def check_x3(ctx, templates: List[Template]) -> None:
    repo = ctx.repo
    ci = repo.cls('GeophiresXResult')
    # hard-coded header lists in the client: name -> list of column titles
    headers: Dict[str, List[str]] = {}
    for st in ci.node.body:
        tgt = st.targets[0] if isinstance(st, ast.Assign) else st.target if isinstance(st, ast.AnnAssign) else None
        if tgt is not None and norm(tgt).endswith('_HEADERS') and st.value is not None:
            ok, v = const_value(st.value)
            if ok:
                headers[norm(tgt)] = v
    for m in ci.methods.values():
        for fn in [n for n in ast.walk(m.node) if isinstance(n, ast.FunctionDef) and n.name == 'extract_table_header']:
            for r in ast.walk(fn):
                if isinstance(r, ast.Return) and isinstance(r.value, ast.List):
                    ok, v = const_value(r.value)
                    if ok:
                        headers[m.name] = v
    ctx.floor('X3', len(headers), 4, 'hard-coded table headers in the client')
    section_of_header = {'_REVENUE_AND_CASHFLOW_PROFILE_HEADERS': 'REVENUE & CASHFLOW PROFILE', '_get_extended_economic_profile': 'EXTENDED ECONOMIC PROFILE',
                         '_get_sdacgt_profile': 'S-DAC-GT PROFILE', '_get_ccus_profile_legacy': 'CCUS PROFILE'}
    rows: Dict[str, List[Template]] = {}
    for t in templates:
        if t.loops and len(t.values()) >= 4 and t.fn.cls.name not in INFO_ONLY:
            rows.setdefault(_section_of(t), []).append(t)
    for hname, cols in sorted(headers.items()):
        sec = section_of_header.get(hname)
        if sec is None:
            continue
        rts = rows.get(sec, [])
        if not rts:
            if 'CCUS' in sec:
                ctx.info(f'X3 header list {hname}: no writer prints `{sec}` any more (legacy reader)')
                continue
            # "I cannot read the row" is not "the row is wrong": a writer that builds its row some other way (format(*cells)) is undecided here;
            # a table no writer prints at all is reported by X6
            raise AnalysisError(f'X3: no writer row template could be read for table `{sec}` (row built in a form the template engine does not '
                                f'flatten): cannot decide')
            continue
        for t in rts:
            nh = len(t.values())
            ctx.check(nh == len(cols), 'X3', f'{sec}/columns', t.where,
                      f'the writer prints {nh} cells per row of `{sec}` but the client names {len(cols)} columns: values land under the wrong '
                      f'header (the client pads short rows after the first cell)', fact=f'{nh} cells = {len(cols)} headers')
    # the carbon-revenue view is cut out of the revenue table by header name: each of its headers must exist there
    for m in ci.methods.values():
        for st in ast.walk(m.node):
            if isinstance(st, ast.Assign) and norm(st.targets[0]) == 'headers' and isinstance(st.value, ast.List) and \
                    any('_REVENUE_AND_CASHFLOW_PROFILE_HEADERS.index' in norm(x) for x in ast.walk(m.node)):
                full = headers.get('_REVENUE_AND_CASHFLOW_PROFILE_HEADERS', [])
                for e in st.value.elts:
                    v = e.value if isinstance(e, ast.Constant) else None
                    if v is None:
                        v = _class_const(ci, (dotted_name(e) or '').split('.')[-1])
                    ctx.require(v is not None, f'{m.name}: header element `{norm(e)}` is not a constant')
                    ctx.check(v in full, 'X3', f'{m.name}/header:{v}/in-revenue-table', f'{m.module.rel}:{e.lineno}',
                              f'`{v}` is looked up with .index() in the revenue & cashflow headers, where it does not occur: the ValueError is '
                              f'swallowed by the broad except and the whole carbon revenue table silently disappears from the result',
                              fact='present in the revenue & cashflow header list')
    # three-line-header profiles: header column count = row cell count
    n = 0
    for sec, rts in rows.items():
        for t in rts:
            hdrs = _header_lines_before(t)
            if len(hdrs) < 3:
                continue
            n += 1
            first = re.split(r'\s\s+', hdrs[0].rstrip('\n'))[1:]
            cols = [c for c in first if c.strip()]
            ncell = len(t.values())
            # the THERMAL DRAWDOWN column shifts one position in the reader; accept equality of counts only
            ctx.check(len(cols) == ncell, 'X3', f'{t.fn.cls.name}/{sec}/header-columns@{t.call.lineno - t.fn.node.lineno}', t.where,
                      f'profile `{sec}`: first header line has {len(cols)} columns ({cols[:8]}) but each row prints {ncell} cells',
                      fact=f'{ncell} columns')
    ctx.analysed['three_line_header_profiles'] = n


def _header_lines_before(t: Template) -> List[str]:
    """The literal header lines written immediately before the row loop (same block)."""
    lp = t.loops[-1]
    p = parent(lp)
    blk = None
    for fld in ('body', 'orelse'):
        b = getattr(p, fld, None)
        if isinstance(b, list) and lp in b:
            blk = b
    if blk is None:
        return []
    i = blk.index(lp)
    out: List[str] = []
    j = i - 1
    while j >= 0 and isinstance(blk[j], ast.Expr) and isinstance(blk[j].value, ast.Call) and isinstance(blk[j].value.func, ast.Attribute) \
            and blk[j].value.func.attr == 'write':
        a = blk[j].value.args[0]
        if isinstance(a, ast.Constant) and isinstance(a.value, str):
            out.append(a.value)
        elif isinstance(a, ast.BinOp):
            out.append('<dynamic>')
        else:
            break
        j -= 1
    out.reverse()
    if len(out) >= 3 and out[-3].lstrip().startswith('YEAR'):
        return out[-3:]
    return []


# ------------------------------------------------------------------------------------------------- as_csv
def _loop_cover(lp: ast.For):
    """(var, base text, offset a, form) for the accepted whole-coverage loop idioms, else None."""
    if not isinstance(lp.target, ast.Name):
        return None
    it = lp.iter
    if isinstance(it, ast.Call) and dotted_name(it.func) == 'range':
        if len(it.args) == 1 and isinstance(it.args[0], ast.Call) and dotted_name(it.args[0].func) == 'len' and len(it.args[0].args) == 1:
            x = it.args[0].args[0]
            if isinstance(x, ast.Subscript) and isinstance(x.slice, ast.Slice) and x.slice.upper is None and x.slice.step is None:
                lo = x.slice.lower
                a = lo.value if isinstance(lo, ast.Constant) and isinstance(lo.value, int) else 0 if lo is None else None
                if a is not None:
                    return lp.target.id, norm(x.value), a, 'len-slice'
            elif not isinstance(x, ast.Subscript) or not isinstance(x.slice, ast.Slice):
                return lp.target.id, norm(x), 0, 'len-slice'
        if len(it.args) == 2 and isinstance(it.args[0], ast.Constant) and isinstance(it.args[1], ast.Call) and \
                dotted_name(it.args[1].func) == 'len' and len(it.args[1].args) == 1:
            return lp.target.id, norm(it.args[1].args[0]), it.args[0].value, 'range-from'
    return None


def check_x4(ctx) -> None:
    repo = ctx.repo
    ci = repo.cls('GeophiresXResult')
    f = ci.methods.get('as_csv')
    ctx.require(f is not None, 'GeophiresXResult.as_csv not found')
    rel = f.module.rel
    # table names accepted by as_csv vs produced by __init__
    accepted: Set[str] = set()
    for n in ast.walk(f.node):
        if isinstance(n, ast.Compare) and isinstance(n.ops[0], ast.NotIn) and isinstance(n.comparators[0], ast.Name):
            # the accepted names held in a local tuple / list (bound once in the function)
            dfs = [x.value for x in ast.walk(f.node) if isinstance(x, ast.Assign) and len(x.targets) == 1 and norm(x.targets[0]) == n.comparators[0].id]
            if len(dfs) == 1 and isinstance(dfs[0], (ast.Tuple, ast.List)):
                n = ast.Compare(left=n.left, ops=n.ops, comparators=[dfs[0]])
        if isinstance(n, ast.Compare) and isinstance(n.ops[0], ast.NotIn) and isinstance(n.comparators[0], (ast.Tuple, ast.List)):
            for e in n.comparators[0].elts:
                if isinstance(e, ast.Constant):
                    accepted.add(e.value)
                else:
                    d = dotted_name(e)
                    if d and d.split('.')[-1].isupper():
                        v = _class_const(ci, d.split('.')[-1])
                        if v is not None:
                            accepted.add(v)
    init = ci.methods['__init__']
    produced: Set[str] = set()
    for st in ast.walk(init.node):
        if isinstance(st, ast.Assign) and isinstance(st.targets[0], ast.Subscript) and norm(st.targets[0].value) == 'self.result':
            k = st.targets[0].slice
            if isinstance(k, ast.Constant) and k.value not in ('metadata',):
                produced.add(k.value)
            elif isinstance(k, ast.Name) and 'carbon' in k.id:
                for nm in ('CARBON_REVENUE_PROFILE_NAME', 'CCUS_PROFILE_LEGACY_NAME'):
                    v = _class_const(ci, nm)
                    if v is not None:
                        produced.add(v)
    ctx.require(accepted, 'as_csv: the list of accepted table names was not found (idiom changed)')
    ctx.check(produced <= accepted, 'X4', 'as_csv/accepts-every-table', f'{rel}:{f.node.lineno}',
              f'the constructor produces tables {sorted(produced - accepted)} that as_csv rejects as "unexpected category"',
              fact=f'{len(produced)} tables produced, all accepted')
    # no mutation of the parsed result
    MUT = ('pop', 'append', 'insert', 'remove', 'clear', 'extend', 'sort', 'reverse', 'update', 'popitem', 'setdefault')
    roots = {'self.result'}
    # names bound to (parts of) self.result inside as_csv
    for n in ast.walk(f.node):
        if isinstance(n, ast.For) and 'self.result' in norm(n.iter):
            for x in ast.walk(n.target):
                if isinstance(x, ast.Name):
                    roots.add(x.id)
    changed = True
    while changed:
        changed = False
        for n in ast.walk(f.node):
            if isinstance(n, ast.Assign) and isinstance(n.targets[0], ast.Name) and n.targets[0].id not in roots:
                base = n.value
                while isinstance(base, (ast.Subscript, ast.Attribute)):
                    base = base.value
                if isinstance(base, ast.Name) and base.id in roots and isinstance(n.value, (ast.Subscript, ast.Name)):
                    roots.add(n.targets[0].id)
                    changed = True
            if isinstance(n, ast.For):
                base = n.iter
                while isinstance(base, (ast.Subscript, ast.Attribute, ast.Call)):
                    base = base.func if isinstance(base, ast.Call) else base.value
                if isinstance(base, ast.Name) and base.id in roots:
                    for x in ast.walk(n.target):
                        if isinstance(x, ast.Name) and x.id not in roots:
                            roots.add(x.id)
                            changed = True
    bad = []
    for n in ast.walk(f.node):
        if isinstance(n, ast.Call) and isinstance(n.func, ast.Attribute) and n.func.attr in MUT:
            base = n.func.value
            while isinstance(base, (ast.Subscript, ast.Attribute)):
                base = base.value
            if (isinstance(base, ast.Name) and base.id in roots) or norm(n.func.value).startswith('self.result'):
                bad.append(n)
        if isinstance(n, (ast.Assign, ast.AugAssign, ast.Delete)):
            tg = n.targets if isinstance(n, (ast.Assign, ast.Delete)) else [n.target]
            for t in tg:
                if isinstance(t, ast.Subscript):
                    base = t.value
                    while isinstance(base, (ast.Subscript, ast.Attribute)):
                        base = base.value
                    if (isinstance(base, ast.Name) and base.id in roots) or norm(t.value).startswith('self.result'):
                        bad.append(n)
    ctx.check(not bad, 'X4', 'as_csv/does-not-mutate-result', f'{rel}:{bad[0].lineno if bad else f.node.lineno}',
              f'`{norm(bad[0])[:70] if bad else ""}` changes the parsed result while exporting it: after one CSV export the structure returned '
              f'for the same report differs (rows/headers missing), and a second export fails or differs', fact='read-only traversal')
    # every column and every row exported: range(len(B[a:])) pairs with B[v + a]; `for x in B[a:]`; range(a, len(B)) pairs with B[v]
    for lp in [n for n in ast.walk(f.node) if isinstance(n, ast.For)]:
        cov = _loop_cover(lp)
        if cov is None:
            continue
        var, base, a, form = cov
        subs = [n for n in ast.walk(lp) if isinstance(n, ast.Subscript) and any(isinstance(x, ast.Name) and x.id == var for x in ast.walk(n.slice))]
        for sub in subs:
            ia = _affine1(sub.slice)
            ctx.require(ia is not None and ia[0] == var, f'as_csv: index `{norm(sub)}` is not affine in the loop variable (idiom changed)')
            want = a if form == 'len-slice' else 0
            ctx.check(ia[1] == 1 and ia[2] == want, 'X4', f'as_csv/loop:{var}/index:{norm(sub.value)}/covers-all', f'{rel}:{sub.lineno}',
                      f'`for {var} in {norm(lp.iter)}` visits positions {want}+{var} of `{base}`, but `{norm(sub)}` reads position '
                      f'{ia[1]}*{var}+{ia[2]}: a column/row is skipped or repeated in the CSV', fact=f'{norm(sub)} covers {base}[{a}:]')
    loops = [n for n in ast.walk(f.node) if isinstance(n, ast.For) and isinstance(n.iter, ast.Call) and dotted_name(n.iter.func) == 'range']
    for lp in loops:
        ctx.check(_loop_cover(lp) is not None, 'X4', f'as_csv/loop:{norm(lp.target)}/range-covers-all', f'{rel}:{lp.lineno}',
                  f'`for {norm(lp.target)} in {norm(lp.iter)}`: the range is not `range(len(B[a:]))` / `range(a, len(B))`, so it does not visit '
                  f'every column/row after the first (the CSV drops or invents entries)', fact=norm(lp.iter))
    # both shapes visited
    shapes = [n for n in ast.walk(f.node) if isinstance(n, ast.Call) and dotted_name(n.func) == 'isinstance' and norm(n.args[1]) == 'dict']
    ctx.check(len(shapes) >= 1, 'X4', 'as_csv/both-shapes', f'{rel}:{f.node.lineno}', 'as_csv no longer distinguishes field dictionaries from tables')


# ------------------------------------------------------------------------------------------------- registry (JSON side)
RUNNABLE_OWNERS_INFO = ('AGSWellBores', 'SurfacePlantAGS', 'AGSEconomics')
HELD_UNITS = {           # outputs that reach the JSON and whose held unit follows from the integrator / formula (see C02 F6/F7)
    'HeatkWhProduced': 'kWh', 'PumpingkWh': 'kWh', 'HeatkWhExtracted': 'kWh', 'NetkWhProduced': 'kWh', 'TotalkWhProduced': 'kWh',
    'RemainingReservoirHeatContent': '1e15 J', 'InitialReservoirHeatContent': '1e15 J',
}
EQUIV_UNITS = {'kWh': {'kWh', 'kWh/yr', 'kWh/year'}, '1e15 J': {'1e15 J', '10^15 J', 'PJ'}}


def _init_chain(repo, ci) -> Set[str]:
    """Names of the classes whose __init__ runs when `ci` is constructed (following super().__init__ calls along the MRO)."""
    mro = repo.mro(ci)
    out: Set[str] = set()
    i = 0
    while i < len(mro):
        c = mro[i]
        f = c.methods.get('__init__')
        if f is None:
            i += 1
            continue
        out.add(c.name)
        calls_super = any(isinstance(n, ast.Call) and isinstance(n.func, ast.Attribute) and n.func.attr == '__init__' and
                          (norm(n.func.value).startswith('super(') or any(norm(n.func.value).endswith(b.name) for b in mro[i + 1:]))
                          for n in ast.walk(f.node))
        if not calls_super:
            break
        i += 1
    return out


_ROLE_ORDER = ['reserv', 'wellbores', 'surfaceplant', 'economics', 'addeconomics', 'sdacgteconomics']


def _json_merged_roles(repo) -> List[str]:
    """Roles whose OutputParameterDict main() dumps into the merged JSON: `jsons.dumps(model.<role>.OutputParameterDict)`, or the same
    call on the variable of a loop over a list of `model.<role>` objects (list literal plus `.append(model.<role>)`).  The order is a fixed
    canonical one, so that pairs are keyed the same way however the merge is written."""
    mi = repo.module('geophires_x/GEOPHIRESv3.py')
    out: List[str] = []

    def role_of(e) -> Optional[str]:
        parts = (dotted_name(e) or '').split('.')
        return parts[1] if len(parts) == 2 and parts[0] == 'model' else None

    def roles_behind(obj: ast.AST, at: ast.AST) -> List[str]:
        """Roles an expression `<obj>.OutputParameterDict` (occurring at node `at`) stands for: `model.<role>` itself, or the variable of a
        loop / comprehension over a literal of `model.<role>` objects, or over a list built from a literal plus `.append(model.<role>)`."""
        r = role_of(obj)
        if r is not None:
            return [r]
        if not isinstance(obj, ast.Name):
            return []
        v = obj.id
        p_ = parent(at)
        it_ = None
        while p_ is not None:
            if isinstance(p_, ast.For) and isinstance(p_.target, ast.Name) and p_.target.id == v:
                it_ = p_.iter
                break
            if isinstance(p_, (ast.ListComp, ast.GeneratorExp, ast.SetComp, ast.DictComp)):
                g_ = next((g for g in p_.generators if isinstance(g.target, ast.Name) and g.target.id == v), None)
                if g_ is not None:
                    it_ = g_.iter
                    break
            p_ = parent(p_)
        if isinstance(it_, (ast.Tuple, ast.List)):
            return [r2 for r2 in (role_of(e) for e in it_.elts) if r2]
        if p_ is None or not isinstance(it_, ast.Name):
            return []
        lst = it_.id
        fn = p_
        while fn is not None and not isinstance(fn, (ast.FunctionDef, ast.Module)):
            fn = parent(fn)
        found: List[str] = []
        for x in ast.walk(fn):
            if isinstance(x, ast.Assign) and len(x.targets) == 1 and norm(x.targets[0]) == lst and isinstance(x.value, (ast.List, ast.Tuple)):
                found.extend(r2 for r2 in (role_of(e) for e in x.value.elts) if r2)
            if isinstance(x, ast.Call) and isinstance(x.func, ast.Attribute) and x.func.attr == 'append' and norm(x.func.value) == lst and x.args:
                r2 = role_of(x.args[0])
                if r2:
                    found.append(r2)
        return found

    for n in ast.walk(mi.tree):
        if isinstance(n, ast.Call) and (dotted_name(n.func) or '').endswith('jsons.dumps') and n.args:
            a0 = n.args[0]
            if isinstance(a0, ast.Attribute) and a0.attr == 'OutputParameterDict':
                out.extend(roles_behind(a0.value, n))
    if len(set(out)) < 4 and any(isinstance(n, ast.Call) and (dotted_name(n.func) or '').endswith('jsons.dumps') for n in ast.walk(mi.tree)):
        # the dump goes through a helper / other plumbing: every `<model part>.OutputParameterDict` the module mentions is dumped
        for n in ast.walk(mi.tree):
            if isinstance(n, ast.Attribute) and n.attr == 'OutputParameterDict':
                out.extend(roles_behind(n.value, n))
    uniq = list(dict.fromkeys(out))
    return [r for r in _ROLE_ORDER if r in uniq] + sorted(r for r in uniq if r not in _ROLE_ORDER)


def check_registry(ctx) -> None:
    repo = ctx.repo
    reg = get_registry(repo)
    n1 = 0
    for d in reg.decls:
        if d.dict_name is None or d.key_attr is None:
            continue
        n1 += 1
        key = f'{d.owner}.{d.attr}/registered-under-own-name'
        ok = d.key_attr == d.attr
        msg = (f'{d.owner}.{d.attr} ({d.name!r}) is registered under `{d.key_expr}`, the name of another parameter: it overwrites / hides '
               f'that entry in {d.dict_name}, so the JSON (and Units: requests) carry the wrong object under that name')
        if not ok and d.owner in RUNNABLE_OWNERS_INFO:
            ctx.info(f'J1 {d.where} {key}: {msg}')
        else:
            ctx.check(ok, 'J1', key, d.where, msg)
    ctx.floor('J1', n1, 500, 'registered declarations')
    # J2 unique names per owner chain and dictionary
    seen: Dict[Tuple[str, str, str], List] = {}
    for d in reg.decls:
        if d.dict_name != 'OutputParameterDict' or not isinstance(d.name, str) or d.key_attr != d.attr:
            continue
        seen.setdefault((d.owner, d.dict_name, d.name), []).append(d)
    n2 = 0
    for (owner, dn, name), ds in sorted(seen.items()):
        n2 += 1
        key = f'{owner}/{name}/unique-output-name'
        if len(ds) > 1:
            msg = (f'{owner} registers {[x.attr for x in ds]} under the same output name {name!r}: only the last survives in '
                   f'{dn}, so a quantity printed in the report is absent from (or replaced in) the JSON written next to it')
            if owner in RUNNABLE_OWNERS_INFO:
                ctx.info(f'J2 {ds[1].where} {key}: {msg}')
            else:
                ctx.bad('J2', key, ds[1].where, msg)
        else:
            ctx.ok('J2', key, ds[0].where, 'unique')
    ctx.floor('J2', n2, 200, 'output names')
    # J2 across the objects whose dictionaries main() merges into one JSON object (later keys replace earlier ones)
    cg = get_callgraph(repo)
    merged_roles = _json_merged_roles(repo)
    ctx.require(len(merged_roles) >= 4, f'main() merges only {merged_roles} into the JSON (expected reserv, wellbores, economics, surfaceplant, ...)')
    names_of: Dict[str, Dict[str, 'Decl']] = {}
    for role in merged_roles:
        for ci in cg.roles.get(role, []):
            ran = _init_chain(repo, ci)
            names_of[ci.name] = {d.name: d for d in reg.class_decls(ci.name) if d.dict_name == 'OutputParameterDict' and isinstance(d.name, str)
                                 and d.owner in ran}
    seen_pairs = set()
    ncross = 0
    inherited: Dict[Tuple[str, str, str, str], List[str]] = {}
    for i, ra in enumerate(merged_roles):
        for rb in merged_roles[i + 1:]:
            for ca in cg.roles.get(ra, []):
                for cb in cg.roles.get(rb, []):
                    ncross += 1
                    for nm in sorted(set(names_of[ca.name]) & set(names_of[cb.name])):
                        da, db = names_of[ca.name][nm], names_of[cb.name][nm]
                        if da.node is db.node:
                            # one declaration inherited by the classes of both objects: one mechanism, one report per class pair
                            inherited.setdefault((ra, da.owner, rb, cb.name), []).append(nm)
                            continue
                        k = (nm, da.where, db.where)
                        if k in seen_pairs:
                            continue
                        seen_pairs.add(k)
                        msg = (f'output name {nm!r} is declared by {da.owner}.{da.attr} ({ra}) and by {db.owner}.{db.attr} ({rb}); main() merges the '
                               f'dictionaries of both objects into one JSON object, so the {rb} entry replaces the {ra} entry')
                        if da.owner in RUNNABLE_OWNERS_INFO or db.owner in RUNNABLE_OWNERS_INFO:
                            ctx.info(f'J2 {db.where} {nm}/{da.owner}+{db.owner}/unique-across-merged-objects: {msg}')
                        else:
                            ctx.bad('J2', f'{nm}/{da.owner}.{da.attr}+{db.owner}.{db.attr}/unique-across-merged-objects', db.where, msg)
    for (ra, owner, rb, cb_name), nms in sorted(inherited.items()):
        nms = sorted(set(nms))
        ci = repo.cls(cb_name)
        ctx.bad('J2', f'{rb}:{cb_name}-inherits-outputs-of-{ra}:{owner}/unique-across-merged-objects', f'{ci.module.rel}:{ci.node.lineno}',
                f'{cb_name} (model.{rb}) inherits the {len(nms)} output declarations of {owner} (model.{ra}), e.g. {nms[:4]}; main() merges '
                f'model.{ra}.OutputParameterDict and then model.{rb}.OutputParameterDict into one JSON object, so every {ra} result in the JSON '
                f'is replaced by the {rb} object\'s entry of the same name (its never-computed default, or a different quantity)')
    ctx.analysed['merged_class_pairs_compared'] = ncross
    if not seen_pairs and not inherited:
        ctx.ok('J2', 'unique-across-merged-objects', 'src/geophires_x/GEOPHIRESv3.py', f'{ncross} class pairs, no shared output name')
    # J3 declared unit vs held unit
    for d in reg.decls:
        if d.attr in HELD_UNITS and not d.is_input and d.owner in ('SurfacePlant', 'Reservoir'):
            us = AtomResolver(repo, d.owner).unit_string(d)
            held = HELD_UNITS[d.attr]
            ctx.check(us in EQUIV_UNITS[held], 'J3', f'{d.owner}.{d.attr}/declared-unit-is-held-unit', d.where,
                      f'{d.name!r} holds {held} (integrator / heat-content formula, see C02) but is declared in {us!r}: the JSON and any unit '
                      f'conversion label the number with the wrong unit', fact=f'declared {us}')


# ------------------------------------------------------------------------------------------------- J4 writers are read-only
COPYING = ('np.array', 'np.copy', 'numpy.array', 'list', 'tuple', 'copy.copy', 'copy.deepcopy', 'pd.DataFrame', 'pd.Series', 'np.zeros',
           'np.ones', 'np.full', 'np.empty', 'np.linspace', 'np.arange', 'range', 'len', 'float', 'int', 'str', 'round', 'sum', 'max', 'min',
           'np.max', 'np.min', 'np.average', 'np.mean', 'np.sum', 'np.round', 'np.multiply', 'np.divide', 'np.add', 'np.subtract', 'abs')
MUTATORS = ('sort', 'reverse', 'append', 'extend', 'insert', 'pop', 'clear', 'fill', 'resize', 'itemset', 'put', 'remove', 'update', 'setdefault')


def check_writers_read_only(ctx) -> None:
    """The JSON is dumped after the report (and the rich/HTML report) is written.  Everything that runs in between - the writers and
    the module-level helpers they call - must leave the output values alone: no store to a `.value`, and no in-place operation on a
    local that may share storage with one (defined from an expression mentioning `.value` and not through a copying constructor)."""
    repo = ctx.repo
    cg = get_callgraph(repo)
    roots = []
    for cn, meth, suffix in WRITERS:
        if repo.has_module(suffix) and cn not in INFO_ONLY:
            roots.append(repo.method(cn, meth, suffix))
    ctx.require(roots, 'no report writer found')
    writer_modules = {f.module.rel for f in roots} | {'src/geophires_x/OutputsRich.py'}
    fns = [f for f in cg.reachable(roots).values() if f.module.rel in writer_modules and f.name not in ('_convert_units', 'read_parameters', '__init__')]
    ctx.floor('J4', len(fns), 5, 'writer functions between the report and the JSON dump')
    nsites = 0
    for f in fns:
        # locals that may alias an output value
        alias: Dict[str, ast.AST] = {}
        changed = True
        while changed:
            changed = False
            for st in ast.walk(f.node):
                if isinstance(st, ast.Assign) and len(st.targets) == 1 and isinstance(st.targets[0], ast.Name) and st.targets[0].id not in alias:
                    v = st.value
                    top = dotted_name(v.func) if isinstance(v, ast.Call) else None
                    if top in COPYING or isinstance(v, (ast.BinOp, ast.ListComp, ast.List, ast.Dict, ast.Constant, ast.JoinedStr, ast.Compare)):
                        continue            # a fresh object
                    mentions = any(isinstance(a, ast.Attribute) and a.attr == 'value' for a in ast.walk(v)) or \
                        any(isinstance(a, ast.Name) and a.id in alias for a in ast.walk(v))
                    if mentions:
                        alias[st.targets[0].id] = st
                        changed = True
        for st in ast.walk(f.node):
            where = f'{f.module.rel}:{getattr(st, "lineno", f.node.lineno)}'
            if isinstance(st, (ast.Assign, ast.AugAssign)):
                tg = st.targets if isinstance(st, ast.Assign) else [st.target]
                for t in tg:
                    base = t
                    while isinstance(base, ast.Subscript):
                        base = base.value
                    if isinstance(base, ast.Attribute) and base.attr == 'value' and (isinstance(st, ast.AugAssign) or t is not base or True):
                        nsites += 1
                        ctx.bad('J4', f'{f.qualname}/store:{norm(t)[:60]}', where,
                                f'`{norm(st)[:100]}` changes an output value while the report is being written: the JSON dumped afterwards (and any '
                                f'later section of the report) no longer carries the quantity the report printed')
                    elif isinstance(base, ast.Name) and base.id in alias and (isinstance(st, ast.AugAssign) or isinstance(t, ast.Subscript)):
                        nsites += 1
                        ctx.bad('J4', f'{f.qualname}/in-place:{base.id}', where,
                                f'`{norm(st)[:100]}` works in place on `{base.id}`, defined as `{norm(alias[base.id].value)[:80]}`, which may share '
                                f'storage with the output it was taken from: the JSON dumped after the report then holds the modified numbers')
            if isinstance(st, ast.Call) and isinstance(st.func, ast.Attribute) and st.func.attr in MUTATORS:
                base = st.func.value
                while isinstance(base, ast.Subscript):
                    base = base.value
                if (isinstance(base, ast.Attribute) and base.attr == 'value') or (isinstance(base, ast.Name) and base.id in alias):
                    nsites += 1
                    ctx.bad('J4', f'{f.qualname}/mutating-call:{norm(st.func)[:60]}', where,
                            f'`{norm(st)[:100]}` mutates an output value (or a local that may share its storage) while the report is written')
        ctx.ok('J4', f'{f.qualname}/read-only', f'{f.module.rel}:{f.node.lineno}', f'{len(alias)} possibly-aliasing locals, none modified in place')
    ctx.analysed['writer_functions_checked_read_only'] = len(fns)


# ------------------------------------------------------------------------------------------------- X5 result file per request
LOSSY_PATH_PARTS = ('name', 'stem', 'suffix', 'basename', 'parts')


def check_result_file_identity(ctx) -> None:
    """The client parses the report file named by get_output_file_path().  Two requests with different input files must not share it:
    the id in the file name is an injective function of the full input path (or a fresh uuid), never of a part of the path."""
    repo = ctx.repo
    ci = repo.cls('GeophiresInputParameters')
    init = ci.methods.get('__init__')
    gp = ci.methods.get('get_output_file_path')
    ctx.require(init is not None and gp is not None, 'GeophiresInputParameters.__init__/get_output_file_path not found')
    rel = init.module.rel
    # what the output path is built from
    used = {norm(a) for a in ast.walk(gp.node) if isinstance(a, ast.Attribute) and isinstance(a.value, ast.Name) and a.value.id == 'self'}
    ctx.require(used, 'get_output_file_path: no attribute of the request in the path (idiom changed)')
    for attr in sorted(used):
        defs = [st for st in ast.walk(init.node) if isinstance(st, ast.Assign) and norm(st.targets[0]) == attr]
        ctx.require(defs, f'{attr} is not assigned in __init__ (idiom changed)')
        from gxstat.inline import inline_sequential
        for st in defs:
            v = inline_sequential(st.value, st)          # through named intermediates (`p = self._file_path; self._id = hash(p)`)
            lossy = [a for a in ast.walk(v) if (isinstance(a, ast.Attribute) and a.attr in LOSSY_PATH_PARTS) or
                     (isinstance(a, ast.Call) and (dotted_name(a.func) or '').split('.')[-1] in ('basename', 'splitext'))]
            fresh = any(isinstance(a, ast.Call) and (dotted_name(a.func) or '').split('.')[-1] in ('uuid4', 'uuid1', 'token_hex', 'mkstemp', 'mkdtemp')
                        for a in ast.walk(v))
            full = any(norm(a) == 'self._file_path' for a in ast.walk(v))
            key = f'GeophiresInputParameters/{attr}/identifies-the-whole-input-path'
            where = f'{rel}:{st.lineno}'
            if lossy and not fresh:
                ctx.bad('X5', key, where,
                        f'`{norm(st)[:90]}` derives the result-file id from a part of the input path ({norm(lossy[0])[:40]}): two inputs with the '
                        f'same file name in different directories write and parse the same geophires-result_<id>.out, so the first '
                        f'result\'s file holds the second case\'s numbers')
            elif full or fresh:
                ctx.ok('X5', key, where, 'hash of the full input path' if full else 'fresh unique id')
            else:
                raise AnalysisError(f'{attr} = {norm(v)[:60]}: cannot tell whether it identifies the input (idiom changed)')


def run(ctx) -> None:
    ctx.rule('X6', 'every field the client (and the result schema) names is printed by some report writer, except the frozen legacy labels')
    ctx.rule('X5', 'the report file the client parses is named after the whole input path (or a fresh id): different inputs never share it')
    ctx.rule('J4', 'between the report and the JSON dump nothing changes an output value: writers and their helpers are read-only on `.value` and on locals that may share its storage')
    ctx.rule('X1', 'for each of the client\'s result fields the writer templates its predicate can match are pairwise either mutually '
                   'exclusive or identical in value expression, format and unit label (else set.pop() picks by hash seed)')
    ctx.rule('X2', 'after the label the text is `value` or `value unit` under the client\'s collapse-and-split tokenisation; unit '
                   'catalogues contain no blanks')
    ctx.rule('X3', 'each hard-coded header list has as many columns as the writer\'s row template has cells; three-line-header '
                   'profiles have as many header columns as row cells')
    ctx.rule('X4', 'as_csv accepts every table the constructor produces, handles both shapes and never mutates the parsed result')
    ctx.rule('J1', 'every parameter is registered in its dictionary under its own name')
    ctx.rule('J2', 'output names are unique per owner (a duplicate drops a reported quantity from the JSON)')
    ctx.rule('J3', 'declared unit = held unit for the kWh and heat-content outputs')
    templates = writer_templates(ctx.repo)
    ctx.floor('X1', len(templates), 450, 'writer templates')
    check_x1_x2(ctx, templates)
    check_x3(ctx, templates)
    check_adjacent_holes(ctx, templates, 'X3')     # the client splits table rows on whitespace
    check_x4(ctx)
    check_registry(ctx)
    check_writers_read_only(ctx)
    check_result_file_identity(ctx)
    ctx.rule('J5', 'the unit conversion of outputs is idempotent: a Quantity built from p.value names p.CurrentUnits and the test for "already in '
                   'the requested unit" compares with CurrentUnits - the add-on and S-DAC-GT writers convert again after the main report was '
                   'written, so a conversion that starts from PreferredUnits would change the values between the report and the JSON (C09 W7)')
    from rules.units_common import check_quantity_source_unit
    n5 = check_quantity_source_unit(ctx, 'J5')
    _cu = ctx.repo.method('Outputs', '_convert_units', 'geophires_x/Outputs.py') if 'Outputs' in ctx.repo.classes else None
    if _cu is not None:
        for _c in ast.walk(_cu.node):
            if isinstance(_c, ast.Compare) and len(_c.ops) == 1 and isinstance(_c.ops[0], (ast.NotEq, ast.Eq)):
                _sides = [norm(_c.left), norm(_c.comparators[0])]
                if any('ParameterDict[' in x for x in _sides) and any(x.endswith(('CurrentUnits', 'PreferredUnits')) for x in _sides):
                    n5 += 1
                    ctx.check(any(x.endswith('.CurrentUnits') for x in _sides), 'J5', 'Outputs._convert_units/already-converted-test-uses-CurrentUnits',
                              f'{_cu.module.rel}:{_c.lineno}',
                              f'`{norm(_c)[:90]}` decides whether an output still has to be converted by comparing the requested unit with PreferredUnits: '
                              f'after the first conversion the test still holds, so every later call converts the already converted value again',
                              fact='requested unit compared with CurrentUnits')
    ctx.floor('J5', n5, 3, 'quantity sites / conversion tests')
    ctx.undecided('parsing of arbitrary numeric spellings by _parse_number', 'cell widths overflowing for very large numbers (covered only '
                  'through literal separators, C09 W4)')
    ctx.exhaustive = True
