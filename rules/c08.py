"""C08 -- a run is a pure function of its input; runs do not contaminate each other.

P1 stash -> mutate -> restore-on-all-exits for cwd / sys.argv in every library wrapper and __main__,
P2 global-state inventory against an allow-list with reasons, P3 fresh objects per run,
P4 nondeterminism sources reach only stamp/log/temp-name sinks, P5 cache key covers the request content,
P6 no mutable default arguments."""
from __future__ import annotations

import ast
from typing import Dict, List, Optional, Set, Tuple

from gxstat.callgraph import get_callgraph
from gxstat.flowutil import enclosing_try, guards_of
from gxstat.registry import get_registry
from gxstat.srcmodel import (AnalysisError, FuncInfo, ModuleInfo, calls_in, dotted_name, enclosing_class,
                             enclosing_function, norm, parent, walk_no_nested)

CWD_READS = ('Path.cwd()', 'os.getcwd()', 'pathlib.Path.cwd()', 'Path.cwd().absolute()')


# =========================================================================================== P1
def _is_chdir(call: ast.Call) -> bool:
    return dotted_name(call.func) == 'os.chdir'


def _argv_store(st: ast.stmt) -> Optional[str]:
    """'whole' for `sys.argv = ...`, 'item' for sys.argv[i] = ... / sys.argv.append(...)"""
    if isinstance(st, (ast.Assign, ast.AugAssign)):
        tg = st.targets if isinstance(st, ast.Assign) else [st.target]
        for t in tg:
            if norm(t) == 'sys.argv':
                return 'whole'
            if isinstance(t, ast.Subscript) and norm(t.value) == 'sys.argv':
                return 'item'
    if isinstance(st, ast.Expr) and isinstance(st.value, ast.Call):
        d = dotted_name(st.value.func)
        if d in ('sys.argv.append', 'sys.argv.insert', 'sys.argv.extend', 'sys.argv.pop', 'sys.argv.clear'):
            return 'item'
    return None


def mutator_summary(cg) -> Tuple[Dict[int, bool], Dict[int, bool]]:
    """Per function: does it (transitively, in-process) change cwd / sys.argv?"""
    direct_cwd: Dict[int, bool] = {}
    direct_argv: Dict[int, bool] = {}
    for f in cg.funcs:
        dc = da = False
        for n in ast.walk(f.node):
            if isinstance(n, ast.Call) and _is_chdir(n):
                dc = True
            if isinstance(n, ast.stmt) and _argv_store(n):
                da = True
        direct_cwd[id(f.node)] = dc
        direct_argv[id(f.node)] = da

    sealed = {'cwd': set(), 'argv': set()}
    for f in cg.funcs:
        for kind in ('cwd', 'argv'):
            if _restores(_desugar_with(cg.repo, f.node.body), kind):
                sealed[kind].add(id(f.node))

    def closure(direct: Dict[int, bool], kind: str) -> Dict[int, bool]:
        res = {k: (v and k not in sealed[kind]) for k, v in direct.items()}
        changed = True
        while changed:
            changed = False
            for f in cg.funcs:
                if res[id(f.node)] or id(f.node) in sealed[kind]:
                    continue
                for call, targets, how in cg.edges[id(f.node)]:
                    if how == 'by-name-weak':
                        continue
                    if _in_pool_submission(call):
                        continue
                    if any(res.get(id(t.node)) for t in targets):
                        res[id(f.node)] = True
                        changed = True
                        break
        return res
    return closure(direct_cwd, 'cwd'), closure(direct_argv, 'argv')


def _restores(body: List[ast.stmt], kind: str) -> bool:
    """The body stashes the state before a try whose finally puts it back (a sealed wrapper)."""
    stash: Set[str] = set()
    for st in body:
        if isinstance(st, (ast.Assign, ast.AnnAssign)) and st.value is not None:
            v = norm(st.value)
            tg = st.targets if isinstance(st, ast.Assign) else [st.target]
            if (kind == 'cwd' and v in CWD_READS) or (kind == 'argv' and v in ('sys.argv', 'sys.argv.copy()', 'list(sys.argv)', 'sys.argv[:]')):
                stash |= {norm(t) for t in tg}
        if isinstance(st, ast.Try) and stash:
            for fs in st.finalbody:
                if kind == 'cwd' and isinstance(fs, ast.Expr) and isinstance(fs.value, ast.Call) and _is_chdir(fs.value) \
                        and fs.value.args and norm(fs.value.args[0]) in stash:
                    return True
                if kind == 'argv' and isinstance(fs, ast.Assign) and norm(fs.targets[0]) == 'sys.argv' and norm(fs.value) in stash:
                    return True
    return False


def _in_pool_submission(call: ast.Call) -> bool:
    """A callable handed to executor.submit/map runs in another process: a process boundary."""
    p = parent(call)
    while p is not None and not isinstance(p, ast.stmt):
        if isinstance(p, ast.Call) and isinstance(p.func, ast.Attribute) and p.func.attr in ('submit', 'map'):
            return True
        p = parent(p)
    return False


def _restoring_context_managers(repo) -> Dict[str, ast.FunctionDef]:
    """Functions decorated with contextmanager whose body is (docstring +) `try: yield finally: <statements>`: their finally block
    runs when the with-block is left, exactly like the finally of an inline try."""
    out: Dict[str, ast.FunctionDef] = {}
    for f in repo.all_functions():
        n = f.node
        if not any((dotted_name(d) or '').split('.')[-1] == 'contextmanager' for d in n.decorator_list):
            continue
        body = [s_ for s_ in n.body if not (isinstance(s_, ast.Expr) and isinstance(s_.value, ast.Constant))]
        # (the stash may be taken inside the manager, before the try: plain `name = <expr>` statements)
        if body and isinstance(body[-1], ast.Try) and body[-1].finalbody and not body[-1].handlers and \
                len(body[-1].body) == 1 and isinstance(body[-1].body[0], ast.Expr) and isinstance(body[-1].body[0].value, ast.Yield) and \
                all(isinstance(s_, ast.Assign) and len(s_.targets) == 1 and isinstance(s_.targets[0], ast.Name) for s_ in body[:-1]):
            out[f.name] = n
    return out


def _cm_parts(fn: ast.FunctionDef) -> Tuple[List[ast.stmt], ast.Try]:
    body = [s_ for s_ in fn.body if not (isinstance(s_, ast.Expr) and isinstance(s_.value, ast.Constant))]
    return body[:-1], body[-1]


def _plain_init_fields(ci, call: ast.Call = None) -> Optional[List[Tuple[str, ast.AST]]]:
    """[(field, value)] when the class's __init__ only does `self.<field> = <expr>` (else None); constructor parameters are replaced by the
    arguments of `call` (positional / keyword, all must be bound)."""
    from gxstat.inline import substitute
    init = ci.methods.get('__init__')
    if init is None:
        return [] if call is None or (not call.args and not call.keywords) else None
    n = init.node
    if n.args.vararg or n.args.kwarg or n.args.kwonlyargs:
        return None
    me = n.args.args[0].arg
    params = [a.arg for a in n.args.args[1:]]
    env: Dict[str, ast.AST] = {}
    if params:
        if call is None or len(call.args) > len(params) or any(k.arg is None or k.arg not in params for k in call.keywords):
            return None
        env = dict(zip(params, call.args))
        env.update({k.arg: k.value for k in call.keywords})
        defaults = n.args.defaults
        for p_, d_ in zip(params[len(params) - len(defaults):], defaults):
            env.setdefault(p_, d_)
        if set(params) - set(env):
            return None
    elif call is not None and (call.args or call.keywords):
        return None
    out = []
    for st in n.body:
        if isinstance(st, ast.Expr) and isinstance(st.value, ast.Constant):
            continue
        if isinstance(st, ast.Assign) and len(st.targets) == 1 and isinstance(st.targets[0], ast.Attribute) and \
                isinstance(st.targets[0].value, ast.Name) and st.targets[0].value.id == me:
            out.append((st.targets[0].attr, substitute(st.value, env) if env else st.value))
        elif isinstance(st, ast.AnnAssign) and isinstance(st.target, ast.Attribute) and isinstance(st.target.value, ast.Name) \
                and st.target.value.id == me and st.value is not None:
            out.append((st.target.attr, substitute(st.value, env) if env else st.value))
        else:
            return None
    return out


def _enter_fields(ci) -> Optional[List[Tuple[str, ast.AST]]]:
    """[(field, value)] when __enter__ only does `self.<field> = <expr>` (the stash may be taken on entry) and returns; else None."""
    en = ci.methods.get('__enter__')
    if en is None:
        return None
    me = en.node.args.args[0].arg
    out = []
    for st in en.node.body:
        if isinstance(st, ast.Expr) and isinstance(st.value, ast.Constant):
            continue
        if isinstance(st, (ast.Return, ast.Pass)):
            continue
        if isinstance(st, ast.Assign) and len(st.targets) == 1 and isinstance(st.targets[0], ast.Attribute) and \
                isinstance(st.targets[0].value, ast.Name) and st.targets[0].value.id == me:
            out.append((st.targets[0].attr, st.value, me))
        else:
            return None
    return out


def _exit_protocol_body(ci) -> Optional[Tuple[str, List[ast.stmt]]]:
    """(self name, statements) of a class-based context manager whose __enter__ only returns and whose __exit__ never swallows the
    exception (returns nothing / False / None): leaving the with-block runs exactly these statements, like a finally."""
    en, ex = ci.methods.get('__enter__'), ci.methods.get('__exit__')
    if en is None or ex is None:
        return None
    if _enter_fields(ci) is None:
        return None
    xb = [s_ for s_ in ex.node.body if not (isinstance(s_, ast.Expr) and isinstance(s_.value, ast.Constant))]
    rets = [r for s_ in xb for r in ast.walk(s_) if isinstance(r, ast.Return)]
    if any(not (r.value is None or (isinstance(r.value, ast.Constant) and r.value.value in (False, None))) for r in rets):
        return None
    if rets and not (len(rets) == 1 and rets[0] is xb[-1]):
        return None
    return ex.node.args.args[0].arg, [s_ for s_ in xb if not isinstance(s_, ast.Return)]


def _desugar_with(repo, body: List[ast.stmt]) -> List[ast.stmt]:
    """`with restorer(a, b): BODY` -> `try: BODY finally: <restorer's finally with parameters replaced by a, b>` (recursively).
    Object forms: `x = Cls()` additionally shows the fields its plain __init__ sets as `x.<field> = <expr>`; `with x:` runs Cls.__exit__ as
    the finally, `with x.method():` the finally of the @contextmanager method (self replaced by x)."""
    from gxstat.inline import substitute
    from gxstat.srcmodel import clone, set_parents
    cms = _restoring_context_managers(repo)
    changed = False
    out: List[ast.stmt] = []
    inst: Dict[str, object] = {}

    def relocate(node, st):
        for x in ast.walk(node):
            if hasattr(x, 'lineno') or isinstance(x, (ast.stmt, ast.expr)):
                x.lineno = st.end_lineno or st.lineno
                x.end_lineno = st.end_lineno or st.lineno
                x.col_offset = getattr(x, 'col_offset', 0)
                x.end_col_offset = getattr(x, 'end_col_offset', 0)
        return node

    def make_pre(st, pre_src: List[ast.stmt], env) -> List[ast.stmt]:
        out_ = []
        for ps in pre_src:
            c_ = clone(ps)
            c_ = substitute(c_, env) if env else c_
            for x in ast.walk(c_):
                if hasattr(x, 'lineno'):
                    x.lineno = st.lineno
                    x.end_lineno = st.lineno
            ast.fix_missing_locations(c_)
            set_parents(c_)
            c_._parent = parent(st)
            out_.append(c_)
        return out_

    def field_assign(st, x: str, fld: str, val: ast.AST, me: str) -> ast.Assign:
        a_ = ast.Assign(targets=[ast.Attribute(value=ast.Name(id=x, ctx=ast.Load()), attr=fld, ctx=ast.Store())],
                        value=substitute(val, {me: ast.Name(id=x, ctx=ast.Load())}))
        ast.copy_location(a_, st)
        for z in ast.walk(a_):
            if hasattr(z, 'lineno'):
                z.lineno = st.lineno
                z.end_lineno = st.lineno
        ast.fix_missing_locations(a_)
        set_parents(a_)
        a_._parent = parent(st)
        return a_

    def make_try(st, fin_src: List[ast.stmt], env) -> ast.Try:
        fin = []
        for fs in fin_src:
            c_ = clone(fs)
            c_ = substitute(c_, env) if env else c_
            fin.append(relocate(c_, st))
        tr = ast.Try(body=_desugar_with(repo, [clone(b) for b in st.body]), handlers=[], orelse=[], finalbody=fin)
        ast.copy_location(tr, st)
        tr.end_lineno = st.end_lineno
        ast.fix_missing_locations(tr)
        set_parents(tr)
        tr._parent = parent(st)          # keep the original statements' parent links untouched
        return tr

    for st in body:
        # x = Cls()  with a plain __init__
        if isinstance(st, ast.Assign) and len(st.targets) == 1 and isinstance(st.targets[0], ast.Name) and isinstance(st.value, ast.Call) \
                and isinstance(st.value.func, ast.Name):
            ci = repo.find_cls(st.value.func.id)
            if ci is not None and (_exit_protocol_body(ci) is not None or any(m in cms and cms[m] is ci.methods[m].node for m in ci.methods)):
                fields = _plain_init_fields(ci, st.value)
                if fields is not None:
                    x = st.targets[0].id
                    inst[x] = ci
                    out.append(st)
                    me = ci.methods['__init__'].node.args.args[0].arg if '__init__' in ci.methods else 'self'
                    for fld, val in fields:
                        out.append(field_assign(st, x, fld, val, me))
                    changed = True
                    continue
        if isinstance(st, ast.With) and len(st.items) == 1:
            ce = st.items[0].context_expr
            if isinstance(ce, ast.Call) and isinstance(ce.func, ast.Name) and ce.func.id in cms:
                fn = cms[ce.func.id]
                params = [a.arg for a in fn.args.args]
                env = {p_: a_ for p_, a_ in zip(params, ce.args)}
                env.update({k.arg: k.value for k in ce.keywords if k.arg})
                pre_src, tr_src = _cm_parts(fn)
                out.extend(make_pre(st, pre_src, env))
                out.append(make_try(st, tr_src.finalbody, env))
                changed = True
                continue
            # `with Cls():` / `with Cls() as x:` - the instance lives for the block only
            if isinstance(ce, ast.Call) and isinstance(ce.func, ast.Name) and ce.func.id not in cms:
                ci = repo.find_cls(ce.func.id)
                if ci is not None and _exit_protocol_body(ci) is not None and _plain_init_fields(ci, ce) is not None:
                    x = st.items[0].optional_vars.id if isinstance(st.items[0].optional_vars, ast.Name) else f'_cm_{ci.name}'
                    me0 = ci.methods['__init__'].node.args.args[0].arg if '__init__' in ci.methods else 'self'
                    for fld, val in _plain_init_fields(ci, ce):
                        out.append(field_assign(st, x, fld, val, me0))
                    inst[x] = ci
                    ce = ast.Name(id=x, ctx=ast.Load())
            if isinstance(ce, ast.Name) and ce.id in inst:
                proto = _exit_protocol_body(inst[ce.id])
                if proto is not None:
                    for fld, val, me1 in _enter_fields(inst[ce.id]):
                        out.append(field_assign(st, ce.id, fld, val, me1))
                    out.append(make_try(st, proto[1], {proto[0]: ast.Name(id=ce.id, ctx=ast.Load())}))
                    changed = True
                    continue
            if isinstance(ce, ast.Call) and isinstance(ce.func, ast.Attribute) and isinstance(ce.func.value, ast.Name) \
                    and ce.func.value.id in inst and ce.func.attr in inst[ce.func.value.id].methods and ce.func.attr in cms \
                    and cms[ce.func.attr] is inst[ce.func.value.id].methods[ce.func.attr].node:
                fn = cms[ce.func.attr]
                params = [a.arg for a in fn.args.args]
                env = {params[0]: ast.Name(id=ce.func.value.id, ctx=ast.Load())}
                env.update({p_: a_ for p_, a_ in zip(params[1:], ce.args)})
                env.update({k.arg: k.value for k in ce.keywords if k.arg})
                pre_src, tr_src = _cm_parts(fn)
                out.extend(make_pre(st, pre_src, env))
                out.append(make_try(st, tr_src.finalbody, env))
                changed = True
                continue
        out.append(st)
    return out if changed else body


def check_wrapper(ctx, owner: str, rel: str, body: List[ast.stmt], scope_node: ast.AST, f: Optional[FuncInfo],
                  cg, cwd_sum, argv_sum, module_edges=None) -> None:
    """P1 on one function body (or on a module body for __main__)."""
    if f is not None and f.name in _restoring_context_managers(ctx.repo):
        return                                  # a restoring context manager is the restore, not a wrapper that owes one
    if f is not None and f.cls is not None and f.name == '__exit__' and _exit_protocol_body(f.cls) is not None:
        return                                  # likewise the __exit__ of a class-based context manager (its users are desugared and checked)
    body = _desugar_with(ctx.repo, body)
    # mutating sites in this body
    def call_mutates(call: ast.Call, summ) -> bool:
        if f is not None:
            targets = cg.call_targets(call, f)
        else:
            # (statements inside a desugared with-block are copies: match the call by position and text)
            targets = [t for (c, ts, how) in (module_edges or [])
                       if c is call or ((c.lineno, c.col_offset) == (call.lineno, call.col_offset) and norm(c) == norm(call)) for t in ts]
        return any(summ.get(id(t.node)) for t in targets)

    owes_cwd_sites: List[ast.AST] = []
    owes_argv_sites: List[ast.AST] = []
    def _own(st):                       # the statement's own nodes: definitions nested in it run when called, not here
        stack = [st]
        while stack:
            x = stack.pop()
            if isinstance(x, (ast.FunctionDef, ast.AsyncFunctionDef, ast.ClassDef, ast.Lambda)):
                continue
            yield x
            stack.extend(ast.iter_child_nodes(x))
    nodes = [n for st in body for n in _own(st)]
    for n in nodes:
        if isinstance(n, ast.Call):
            if _in_pool_submission(n):
                continue
            if call_mutates(n, cwd_sum):
                owes_cwd_sites.append(n)
            if call_mutates(n, argv_sum):
                owes_argv_sites.append(n)
        if isinstance(n, ast.stmt) and _argv_store(n):
            owes_argv_sites.append(n)
    # direct chdir calls in the body that are not restores are mutations too
    tries = [st for st in body if isinstance(st, ast.Try)]
    # nested try (inside if __name__ == '__main__':)
    if not tries:
        for st in body:
            if isinstance(st, ast.If):
                tries += [s for s in st.body if isinstance(s, ast.Try)]
                if any(isinstance(s, ast.Try) for s in st.body):
                    body = st.body
    if not owes_cwd_sites and not owes_argv_sites:
        return
    where0 = f'{rel}:{getattr(scope_node, "lineno", 1)}'

    def stash_names(kind: str) -> Set[str]:
        out = set()
        for st in body:
            if isinstance(st, ast.Try):
                break
            if isinstance(st, (ast.Assign, ast.AnnAssign)):
                v = norm(st.value)
                tgts = st.targets if isinstance(st, ast.Assign) else [st.target]
                if kind == 'cwd' and v in CWD_READS:
                    out |= {norm(t) for t in tgts}
                if kind == 'argv' and v in ('sys.argv', 'sys.argv.copy()', 'list(sys.argv)', 'sys.argv[:]'):
                    out |= {norm(t) for t in tgts}
                if v in out:                      # a copy of the stash (`holder._argv = stash_argv`) is the stash
                    out |= {norm(t) for t in tgts}
        return out

    def restoring_try(kind: str, stash: Set[str]) -> Optional[ast.Try]:
        for tr in tries:
            for st in tr.finalbody:
                if kind == 'cwd' and isinstance(st, ast.Expr) and isinstance(st.value, ast.Call) and _is_chdir(st.value) \
                        and st.value.args and norm(st.value.args[0]) in stash and not _conditional(st, tr):
                    return tr
                if kind == 'argv' and isinstance(st, ast.Assign) and norm(st.targets[0]) == 'sys.argv' \
                        and norm(st.value) in stash:
                    return tr
        return None

    def _conditional(st, tr) -> bool:
        return False

    for kind, sites in (('cwd', owes_cwd_sites), ('argv', owes_argv_sites)):
        if not sites:
            continue
        key = f'{owner}/restore-{kind}'
        stash = stash_names(kind)
        if not stash:
            ctx.bad('P1', key, where0, f'{owner} can change the process {kind} (e.g. line {sites[0].lineno}) but never '
                                       f'stashes it before the guarded region')
            continue
        tr = restoring_try(kind, stash)
        if tr is None:
            ctx.bad('P1', key, where0, f'{owner} changes the process {kind} (line {sites[0].lineno}) but no try/finally '
                                       f'restores it from {sorted(stash)}: a failing run leaves the caller\'s {kind} changed')
            continue
        # whole-assignment stash of sys.argv aliases the list: in-place edits are not undone by `sys.argv = stash`
        bad_sites = []
        for s in sites:
            inside = tr.lineno <= s.lineno <= (tr.end_lineno or 10 ** 9)
            in_final = any(fs.lineno <= s.lineno <= (fs.end_lineno or 0) for fs in tr.finalbody)
            if in_final:
                continue
            if inside:
                continue
            # mutation before the try: allowed only when nothing that can raise sits between it and the try
            st = s
            while not isinstance(st, ast.stmt):
                st = parent(st)
            between = [b for b in body if st.lineno < b.lineno < tr.lineno]
            risky = [b for b in between if any(isinstance(x, ast.Call) for x in ast.walk(b)) and not _argv_store(b)
                     and not isinstance(b, ast.If)]
            if isinstance(s, ast.stmt) and _argv_store(s) and not risky and st.lineno < tr.lineno:
                continue
            bad_sites.append(s)
        if bad_sites:
            ctx.bad('P1', key, f'{rel}:{bad_sites[0].lineno}',
                    f'{kind} is changed at line {bad_sites[0].lineno} outside the try whose finally restores it '
                    f'(an exception there, or before the try is entered, skips the restore)')
        else:
            ctx.ok('P1', key, f'{rel}:{tr.lineno}',
                   f'{len(sites)} mutating site(s); stash {sorted(stash)}; restored in finally at line {tr.finalbody[0].lineno}')


def check_p1(ctx) -> None:
    repo = ctx.repo
    cg = get_callgraph(repo)
    cwd_sum, argv_sum = mutator_summary(cg)
    n_mut_cwd = sum(1 for f in cg.funcs for n in ast.walk(f.node) if isinstance(n, ast.Call) and _is_chdir(n))
    ctx.analysed['os.chdir_sites_in_functions'] = n_mut_cwd
    wrappers = 0
    # library wrappers: functions in package API modules (__init__.py) + schema generator
    for mi in repo.modules.values():
        if mi.base != '__init__.py':
            continue
        funcs = list(mi.functions.values()) + [m for c in mi.classes.values() for m in c.methods.values()]
        for f in funcs:
            before = ctx.count('P1')
            check_wrapper(ctx, f.qualname, mi.rel, f.node.body, f.node, f, cg, cwd_sum, argv_sum)
            if ctx.count('P1') > before:
                wrappers += 1
    # __main__ modules: module-level code
    for mi in repo.modules.values():
        if mi.base != '__main__.py':
            continue
        before = ctx.count('P1')
        check_wrapper(ctx, f'{mi.dotted}/<module>', mi.rel, mi.tree.body, mi.tree, None, cg, cwd_sum, argv_sum,
                      module_edges=cg.module_edges[mi.rel])
        if ctx.count('P1') > before:
            wrappers += 1
    ctx.analysed['state_restoring_wrappers'] = wrappers
    ctx.floor('P1', ctx.count('P1'), 9, 'restore obligations (5 library wrappers + 2 __main__ modules)')


# =========================================================================================== P2
MUTABLE_CTORS = ('dict', 'list', 'set', 'defaultdict', 'OrderedDict', 'deque', 'Counter')
MUTATING_METHODS = ('append', 'extend', 'insert', 'pop', 'remove', 'clear', 'update', 'setdefault', 'add', 'discard',
                    'popitem', 'sort', 'reverse', 'load_definitions', 'define')

# (module basename, name) -> reason it cannot carry run-specific data
GLOBAL_ALLOW: Dict[Tuple[str, str], str] = {
    ('Units.py', '_UREG'): 'pint application registry singleton, loaded once from the constant GEOPHIRES3_newunits.txt',
    ('common.py', '_geophires_x_client_logger'): 'logger singleton (no simulation data)',
    ('common.py', '_geophires_monte_carlo_logger'): 'logger singleton (no simulation data)',
    ('Parameter.py', '_ureg'): 'alias of the pint registry singleton; only read',
    ('GeoPHIRESUtils.py', '_ureg'): 'alias of the pint registry singleton; only read',
    ('GeoPHIRESUtils.py', '_logger'): 'module logger',
    ('AGSWellBores.py', 'data._cache'): 'AGS database cache keyed by (file name, case, fluid): content of a constant shipped '
                                        'file, not of a run (AGS cannot run in this sandbox; INFO only)',
    ('hip_ra_x.py', 'HIP_RA_X._ureg'): 'pint application registry; only read',
}

# stores to class attributes from inside functions: (file, Class.attr) -> reason it cannot carry run-specific data
CLASS_ATTR_STORE_ALLOW: Dict[Tuple[str, str], str] = {}

FOREIGN_WRITE_ALLOW = {
    ('SurfacePlantDistrictHeating.py', 'np.demand'): 'write-only attribute on the numpy module (a typo for the local `demand`); '
                                                     'the rule re-checks on every run that nothing in src/ reads it',
}

# memoised functions: qualname -> reason
CACHE_ALLOW_IMPURE_METHODS = {
    'Reservoir.Calculate': 'keyed by (self, model) identity; objects are fresh per run (P3) and never compare equal',
    'CylindricalReservoir.Calculate': 'same as Reservoir.Calculate',
    'SBTReservoir.Calculate_Uloop': 'same as Reservoir.Calculate',
    'SBTReservoir.Calculate_Coaxial': 'same as Reservoir.Calculate',
}


def _is_mutable_value(v: ast.AST) -> bool:
    if isinstance(v, (ast.Dict, ast.List, ast.Set, ast.ListComp, ast.DictComp, ast.SetComp)):
        return True
    if isinstance(v, ast.Call):
        d = dotted_name(v.func)
        if d and d.split('.')[-1] in MUTABLE_CTORS:
            return True
    return False


def check_p2(ctx) -> None:
    repo = ctx.repo
    n = 0
    # (a) names under `global` statements, (b) module-level mutable values that are mutated from functions
    for mi in repo.modules.values():
        if '/hip_ra/' in mi.rel and not ctx.thorough:
            continue
        globals_declared: Set[str] = set()
        for node in ast.walk(mi.tree):
            if isinstance(node, ast.Global):
                globals_declared |= set(node.names)
        module_names: Dict[str, ast.AST] = {}
        for st in mi.tree.body:
            if isinstance(st, ast.Assign):
                for t in st.targets:
                    if isinstance(t, ast.Name):
                        module_names[t.id] = st.value
            elif isinstance(st, ast.AnnAssign) and isinstance(st.target, ast.Name) and st.value is not None:
                module_names[st.target.id] = st.value
        mutated: Dict[str, ast.AST] = {}
        for fn in ast.walk(mi.tree):
            if not isinstance(fn, (ast.FunctionDef, ast.AsyncFunctionDef)):
                continue
            local_names = {a.arg for a in fn.args.args + fn.args.kwonlyargs + fn.args.posonlyargs}
            for x in ast.walk(fn):
                if isinstance(x, (ast.Assign, ast.AnnAssign, ast.AugAssign, ast.For, ast.With)):
                    tg = []
                    if isinstance(x, ast.Assign):
                        tg = x.targets
                    elif isinstance(x, (ast.AnnAssign, ast.AugAssign)):
                        tg = [x.target]
                    elif isinstance(x, ast.For):
                        tg = [x.target]
                    for t in tg:
                        for nm in ast.walk(t):
                            if isinstance(nm, ast.Name) and isinstance(nm.ctx, ast.Store):
                                local_names.add(nm.id)
            gl = {nm for x in ast.walk(fn) if isinstance(x, ast.Global) for nm in x.names}
            local_names -= gl
            for x in ast.walk(fn):
                base = None
                if isinstance(x, (ast.Assign, ast.AugAssign)):
                    for t in (x.targets if isinstance(x, ast.Assign) else [x.target]):
                        if isinstance(t, (ast.Subscript, ast.Attribute)):
                            b = t
                            while isinstance(b, (ast.Subscript, ast.Attribute)):
                                b = b.value
                            if isinstance(b, ast.Name):
                                base = b.id
                                if base in module_names and base not in local_names and base not in mi.imports:
                                    mutated.setdefault(base, x)
                if isinstance(x, ast.Call) and isinstance(x.func, ast.Attribute) and x.func.attr in MUTATING_METHODS:
                    b = x.func.value
                    while isinstance(b, (ast.Subscript, ast.Attribute)):
                        b = b.value
                    if isinstance(b, ast.Name) and b.id in module_names and b.id not in local_names \
                            and b.id not in mi.imports:
                        mutated.setdefault(b.id, x)
        for name in sorted(globals_declared | set(mutated) |
                           {k for k, v in module_names.items() if _is_mutable_value(v)}):
            val = module_names.get(name)
            is_mut_val = val is not None and _is_mutable_value(val)
            if name in globals_declared or name in mutated:
                n += 1
                key = f'{mi.base}:{name}/module-global'
                reason = GLOBAL_ALLOW.get((mi.base, name))
                where = f'{mi.rel}:{(mutated.get(name) or val or mi.tree).lineno if hasattr(mutated.get(name) or val or mi.tree, "lineno") else 1}'
                ctx.check(reason is not None, 'P2', key, where,
                          f'module-level name `{name}` is rebound/mutated from function code '
                          f'({"global statement" if name in globals_declared else norm(mutated[name])[:70]}): state that '
                          f'survives a run and is not on the allow-list', fact=reason or '')
            elif is_mut_val:
                # constant table: never mutated from functions of this module; check other modules do not mutate it
                n += 1
                ctx.ok('P2', f'{mi.base}:{name}/module-constant-table', f'{mi.rel}:{val.lineno}',
                       'mutable literal at module level, never mutated from function code in its module')
        # (c) writes to attributes of imported external modules
        for x in ast.walk(mi.tree):
            if isinstance(x, (ast.Assign, ast.AugAssign)):
                for t in (x.targets if isinstance(x, ast.Assign) else [x.target]):
                    if isinstance(t, ast.Attribute) and isinstance(t.value, ast.Name) and t.value.id in mi.imports \
                            and t.value.id not in ('self',):
                        # sys.argv is P1's business
                        if norm(t) in ('sys.argv',):
                            continue
                        fn = enclosing_function(x)
                        local = set()
                        if fn is not None and not isinstance(fn, ast.Lambda):
                            local = {a.arg for a in fn.args.args}
                            for y in ast.walk(fn):
                                if isinstance(y, ast.Name) and isinstance(y.ctx, ast.Store):
                                    local.add(y.id)
                        if t.value.id in local:
                            continue
                        tgt = mi.imports[t.value.id]
                        n += 1
                        allow = FOREIGN_WRITE_ALLOW.get((mi.base, norm(t)))
                        reads = [y for m2 in repo.modules.values() for y in ast.walk(m2.tree)
                                 if isinstance(y, ast.Attribute) and isinstance(y.ctx, ast.Load) and norm(y) == norm(t)]
                        if allow and not reads:
                            ctx.ok('P2', f'{mi.base}:{norm(t)}/foreign-module-write', f'{mi.rel}:{x.lineno}', allow)
                            continue
                        ctx.bad('P2', f'{mi.base}:{norm(t)}/foreign-module-write', f'{mi.rel}:{x.lineno}',
                                f'`{norm(x)[:80]}` writes an attribute of imported module `{tgt}`: process-wide state')
        # (d) class-level mutable attributes
        for ci in mi.classes.values():
            is_enum = any('Enum' in b for b in ci.base_names)
            for st in ci.node.body:
                tgt = val = None
                if isinstance(st, ast.Assign) and len(st.targets) == 1 and isinstance(st.targets[0], ast.Name):
                    tgt, val = st.targets[0].id, st.value
                elif isinstance(st, ast.AnnAssign) and isinstance(st.target, ast.Name) and st.value is not None:
                    tgt, val = st.target.id, st.value
                if tgt is None or is_enum:
                    continue
                interesting = _is_mutable_value(val) or (isinstance(val, ast.Call) and not _is_field_call(val)
                                                         and not _is_constant_ctor(val))
                if not interesting:
                    continue
                n += 1
                key = f'{mi.base}:{ci.name}.{tgt}/class-level'
                mutated_cls = _class_attr_mutated(repo, ci.name, tgt)
                reason = GLOBAL_ALLOW.get((mi.base, f'{ci.name}.{tgt}'))
                if mutated_cls is None and _is_mutable_value(val) is False and reason is None:
                    # object created once per class (e.g. a registry handle): must be allow-listed
                    ctx.bad('P2', key, f'{mi.rel}:{st.lineno}',
                            f'class-level object `{ci.name}.{tgt} = {norm(val)[:60]}` is shared by all instances and runs')
                elif mutated_cls is not None and reason is None:
                    ctx.bad('P2', key, f'{mi.rel}:{st.lineno}',
                            f'class-level mutable `{ci.name}.{tgt}` is mutated at {mutated_cls}: shared across runs')
                else:
                    ctx.ok('P2', key, f'{mi.rel}:{st.lineno}', reason or 'class-level table, never mutated')
    # (d2) stores to a class attribute from inside a function (`SomeClass.attr = ...`, `cls.attr = ...`, `type(self).attr = ...`): state that
    # outlives the instance and is shared by every subclass that does not shadow it
    for f in repo.all_functions():
        if not isinstance(f.node, (ast.FunctionDef, ast.AsyncFunctionDef)):
            continue
        for st in walk_no_nested(f.node):
            if not isinstance(st, (ast.Assign, ast.AugAssign)):
                continue
            for t in (st.targets if isinstance(st, ast.Assign) else [st.target]):
                b = t.value if isinstance(t, ast.Subscript) else t
                if not isinstance(b, ast.Attribute):
                    continue
                recv = norm(b.value)
                is_cls = (isinstance(b.value, ast.Name) and b.value.id != 'self' and b.value.id in repo.classes) or recv in ('cls', 'type(self)', 'self.__class__')
                if not is_cls:
                    continue
                n += 1
                key = f'{f.qualname}/class-attribute-store:{recv}.{b.attr}'
                reason = CLASS_ATTR_STORE_ALLOW.get((f.module.rel.split('/')[-1], f'{recv}.{b.attr}')) or \
                    GLOBAL_ALLOW.get((f.module.rel.split('/')[-1], f'{recv}.{b.attr}'))
                if reason:
                    ctx.ok('P2', key, f'{f.module.rel}:{st.lineno}', reason)
                else:
                    ctx.bad('P2', key, f'{f.module.rel}:{st.lineno}',
                            f'`{norm(st)[:80]}` stores into a class attribute: the value outlives the object, is seen by every later instance and by '
                            f'every subclass that does not define its own (a result computed for one request or one generator is handed to the next)')
    # (e) memoisation
    n_cache = 0
    for f in repo.all_functions():
        decos = [norm(d) for d in f.node.decorator_list]
        if not any('lru_cache' in d or d.split('(')[0].endswith('cache') or 'cached' in d for d in decos):
            continue
        if '/hip_ra/' in f.module.rel and not ctx.thorough:
            continue
        n_cache += 1
        key = f'{f.qualname}/memoised'
        impure = _impurities(f)
        is_method = f.cls is not None and f.args[:1] == ['self']
        if not impure and not is_method:
            shared = memoised_result_misuse(repo, f)
            if shared is None:
                ctx.ok('P2', key, f.where, 'memoised pure function of value-hashable arguments')
            else:
                ctx.bad('P2', key, shared[0], shared[1])
            continue
        if f.qualname in CACHE_ALLOW_IMPURE_METHODS and is_method:
            # identity-keyed: no __eq__/__hash__ on the receiver classes or on Model
            offenders = []
            classes = [f.cls] + repo.subclasses(f.cls) + repo.classes.get('Model', [])
            for c in classes:
                for m in ('__eq__', '__hash__'):
                    if repo.resolve_method(c, m) is not None:
                        offenders.append(f'{c.name}.{m}')
            ctx.check(not offenders, 'P2', key, f.where,
                      f'memoised impure method is keyed by objects that define {offenders}: two runs whose objects compare '
                      f'equal would share one calculation', fact=CACHE_ALLOW_IMPURE_METHODS[f.qualname])
        else:
            ctx.bad('P2', key, f.where,
                    f'memoised {"method" if is_method else "function"} has side effects / object-keyed cache '
                    f'({"; ".join(impure[:3]) or "keyed by self"}): a repeated call is skipped or returns a stale object')
    ctx.analysed['memoised_functions'] = n_cache
    ctx.analysed['global_state_items'] = n
    ctx.floor('P2', n_cache, 12, 'memoised functions')


ARRAY_PRODUCERS = {'array', 'asarray', 'zeros', 'ones', 'full', 'empty', 'linspace', 'arange', 'power', 'cumsum', 'concatenate', 'append',
                   'add.accumulate', 'zeros_like', 'ones_like', 'copy', 'exp', 'sqrt', 'multiply', 'divide', 'interp', 'tile', 'repeat'}
MUTATING_METHODS = {'append', 'extend', 'insert', 'pop', 'remove', 'sort', 'reverse', 'clear', 'update', 'fill', 'resize', 'put', 'itemset',
                    'setdefault', 'popitem', 'partition', 'setfield', 'ito', 'ito_base_units'}


def _returns_mutable(f) -> Optional[str]:
    """why the value a function returns is a mutable container (None when it is not known to be one)"""
    ann = norm(f.node.returns) if getattr(f.node, 'returns', None) is not None else ''
    if any(t in ann for t in ('ndarray', 'list', 'List', 'dict', 'Dict', 'set', 'Set', 'DataFrame')):
        return f'annotated -> {ann}'
    from gxstat.inline import inline_sequential
    for r in walk_no_nested(f.node):
        if not isinstance(r, ast.Return) or r.value is None:
            continue
        v = inline_sequential(r.value, r)
        for x in ast.walk(v):
            if isinstance(x, (ast.List, ast.Dict, ast.Set, ast.ListComp, ast.DictComp, ast.SetComp)) and x is v:
                return f'returns `{norm(v)[:60]}`'
            if isinstance(x, ast.Call):
                d = dotted_name(x.func) or ''
                if d.startswith(('np.', 'numpy.')) and d.split('.', 1)[1] in ARRAY_PRODUCERS:
                    return f'returns a numpy array (`{d}(...)`)'
                if x is v and d.split('.')[-1] in MUTABLE_CTORS:
                    return f'returns `{norm(v)[:60]}`'
    return None


def memoised_result_misuse(repo, f) -> Optional[Tuple[str, str]]:
    """A memoised function hands every caller the *same* object.  If that object is mutable and a caller changes it in place - or
    stores it where later code may (an attribute of the model) - the next call with the same arguments, in this or a later run of the
    process, receives the changed object.  Returns (where, message) for the first such use, None when there is none."""
    why = _returns_mutable(f)
    if why is None:
        return None
    for g in repo.all_functions():
        if not isinstance(g.node, (ast.FunctionDef, ast.AsyncFunctionDef)) or g is f:
            continue
        names = set()
        for st in walk_no_nested(g.node):
            if isinstance(st, (ast.Assign, ast.AnnAssign)) and getattr(st, 'value', None) is not None:
                v = st.value
                calls_f = isinstance(v, ast.Call) and (dotted_name(v.func) or '').split('.')[-1] == f.name
                alias = isinstance(v, ast.Name) and v.id in names
                if not (calls_f or alias):
                    continue
                for t in (st.targets if isinstance(st, ast.Assign) else [st.target]):
                    if isinstance(t, ast.Name):
                        names.add(t.id)
                    elif isinstance(t, ast.Attribute):
                        return (f'{g.module.rel}:{st.lineno}',
                                f'{f.qualname} is memoised and {why}; {g.qualname} stores the shared object in `{norm(t)}`, where later code can '
                                f'modify it in place: the next call with equal arguments (this run or a later one in the process) gets the modified object')
        if not names:
            continue
        for st in walk_no_nested(g.node):
            hit = None
            if isinstance(st, ast.AugAssign):
                b = st.target.value if isinstance(st.target, ast.Subscript) else st.target
                if isinstance(b, ast.Name) and b.id in names:
                    hit = st
            elif isinstance(st, ast.Assign):
                for t in st.targets:
                    if isinstance(t, ast.Subscript) and isinstance(t.value, ast.Name) and t.value.id in names:
                        hit = st
            elif isinstance(st, ast.Call):
                if isinstance(st.func, ast.Attribute) and st.func.attr in MUTATING_METHODS and isinstance(st.func.value, ast.Name) \
                        and st.func.value.id in names:
                    hit = st
                for kw in st.keywords:
                    if kw.arg == 'out' and isinstance(kw.value, ast.Name) and kw.value.id in names:
                        hit = st
            if hit is not None:
                return (f'{g.module.rel}:{hit.lineno}',
                        f'{f.qualname} is memoised and {why}; {g.qualname} modifies the shared object in place (`{norm(hit)[:80]}`): the next call '
                        f'with equal arguments - in this run or a later run of the same process - receives the modified object, so the result '
                        f'depends on the history of the process')
    return None


def _is_field_call(v: ast.Call) -> bool:
    return dotted_name(v.func) in ('field', 'dataclasses.field')


def _is_constant_ctor(v: ast.Call) -> bool:
    d = dotted_name(v.func) or ''
    return d.split('.')[-1] in ('frozenset', 'tuple', 'MappingProxyType', 'compile', 'Path', 'str', 'int', 'float',
                                'auto', 'TypeVar', 'namedtuple')


def _class_attr_mutated(repo, cls: str, attr: str) -> Optional[str]:
    for mi in repo.modules.values():
        for x in ast.walk(mi.tree):
            if isinstance(x, (ast.Assign, ast.AugAssign)):
                for t in (x.targets if isinstance(x, ast.Assign) else [x.target]):
                    if isinstance(t, ast.Subscript):
                        d = dotted_name(t.value)
                        if d and (d == f'{cls}.{attr}' or d.endswith(f'.{cls}.{attr}')):
                            return f'{mi.rel}:{x.lineno}'
            if isinstance(x, ast.Call) and isinstance(x.func, ast.Attribute) and x.func.attr in MUTATING_METHODS:
                d = dotted_name(x.func.value)
                if d and (d == f'{cls}.{attr}' or d.endswith(f'.{cls}.{attr}')):
                    return f'{mi.rel}:{x.lineno}'
    return None


def _impurities(f: FuncInfo) -> List[str]:
    out = []
    params = set(f.args)
    for x in ast.walk(f.node):
        if isinstance(x, (ast.Assign, ast.AugAssign)):
            for t in (x.targets if isinstance(x, ast.Assign) else [x.target]):
                if isinstance(t, (ast.Attribute, ast.Subscript)):
                    b = t
                    while isinstance(b, (ast.Attribute, ast.Subscript)):
                        b = b.value
                    if isinstance(b, ast.Name) and (b.id in params or b.id in ('self', 'model')):
                        out.append(f'writes {norm(t)[:40]}')
        if isinstance(x, ast.Global):
            out.append('global ' + ','.join(x.names))
        if isinstance(x, ast.Call):
            d = dotted_name(x.func) or ''
            if d in ('open', 'print') or d.endswith('.write'):
                out.append(f'I/O {d}')
            # reads of the outside world that the cache key does not cover: a file is identified by its name, not by its content
            last = d.split('.')[-1]
            if last in ('read_csv', 'read_excel', 'read_json', 'loadtxt', 'genfromtxt', 'load', 'read_text', 'read_bytes', 'readlines', 'exists',
                        'getmtime', 'listdir', 'glob', 'getenv', 'environ', 'now', 'time', 'getcwd') and d.split('.')[0] in (
                    'pd', 'pandas', 'np', 'numpy', 'os', 'Path', 'pathlib', 'json', 'pickle', 'datetime', 'time', 'glob', 'f', 'file', 'fh'):
                out.append(f'reads {d}')
    return out


# =========================================================================================== P3 / P6
def check_p3(ctx) -> None:
    repo = ctx.repo
    reg = get_registry(repo)
    main = repo.function('geophires_x/GEOPHIRESv3.py', 'main')
    ctor = [c for c in calls_in(main.node) if (dotted_name(c.func) or '').split('.')[-1] == 'Model']
    ctx.check(len(ctor) == 1 and not guards_of(ctor[0], main.node), 'P3', 'GEOPHIRESv3.main/fresh-model',
              main.where, 'main() does not unconditionally construct a new Model for the run',
              fact='model = Model.Model(...) on every call')
    # the Model must not be cached between calls
    for st in ast.walk(main.node):
        if isinstance(st, ast.Global):
            ctx.bad('P3', 'GEOPHIRESv3.main/global', f'{main.module.rel}:{st.lineno}',
                    f'main() rebinds module globals {st.names}: state survives the run')
    outside = 0
    for d in reg.decls:
        fn = enclosing_function(d.node)
        if fn is None or isinstance(fn, ast.Lambda) or fn.name not in ('__init__',):
            # helper closures inside __init__ are fine if their enclosing function is __init__
            top = fn
            ok = False
            while top is not None:
                if isinstance(top, ast.FunctionDef) and top.name == '__init__':
                    ok = True
                    break
                top = enclosing_function(top)
            if not ok:
                outside += 1
                ctx.bad('P3', f'{d.owner}.{d.attr}/declared-outside-init', d.where,
                        f'parameter object {d.name!r} is created outside __init__ '
                        f'({"module/class level" if fn is None else getattr(fn, "name", "lambda")}): shared between runs')
    # list/dict-valued arguments of a declaration must be fresh per instance (a shared default list is mutated in place
    # by the readers: `value.append`, `value[i] = ...`)
    n_listargs = 0
    for d in reg.decls:
        for k in ('value', 'DefaultValue'):
            a = d.arg_nodes.get(k)
            if a is None:
                continue
            if isinstance(a, (ast.List, ast.ListComp, ast.Dict)) or \
                    (isinstance(a, ast.Call) and (dotted_name(a.func) or '').split('.')[-1] in ('list', 'dict', 'copy', 'deepcopy', 'array', 'zeros')):
                n_listargs += 1
                if d.kind == 'listParameter':
                    ctx.ok('P3', f'{d.owner}.{d.attr}/{k}-fresh-literal', d.where, 'list built anew by every constructor call')
                continue
            if d.kind == 'listParameter' and isinstance(a, (ast.Name, ast.Attribute)):
                n_listargs += 1
                dn = dotted_name(a) or ''
                fn = enclosing_function(d.node)
                fresh_local = False
                if isinstance(a, ast.Name) and fn is not None:
                    defs = [st for st in ast.walk(fn) if isinstance(st, ast.Assign) and norm(st.targets[0]) == a.id]
                    fresh_local = bool(defs) and all(isinstance(st.value, (ast.List, ast.ListComp)) or
                                                     (isinstance(st.value, ast.Call) and (dotted_name(st.value.func) or '').split('.')[-1] in ('list', 'copy', 'deepcopy'))
                                                     for st in defs)
                ctx.check(fresh_local, 'P3', f'{d.owner}.{d.attr}/{k}-shared-object', d.where,
                          f'list parameter {d.name!r} takes {k}={dn}, an object that outlives the instance (class/module level): '
                          f'in-place edits by one run (append / item assignment in the readers) leak into every later run')
    ctx.analysed['list_valued_declaration_arguments'] = n_listargs
    ctx.ok('P3', 'registry/all-declarations-in-__init__', 'src/', f'{len(reg.decls) - outside} of {len(reg.decls)} declarations')
    ctx.floor('P3', len(reg.decls), 500, 'parameter declarations')
    # Model.__init__ creates the role objects afresh (constructor calls, no reuse of module-level instances)
    model = repo.cls('Model', 'geophires_x/Model.py')
    init = model.methods['__init__']
    for st in ast.walk(init.node):
        tgt = val = None
        if isinstance(st, ast.Assign) and len(st.targets) == 1:
            tgt, val = st.targets[0], st.value
        elif isinstance(st, ast.AnnAssign) and st.value is not None:
            tgt, val = st.target, st.value
        if tgt is None:
            continue
        d = dotted_name(tgt)
        if d and d.startswith('self.') and d[5:] in ('reserv', 'wellbores', 'surfaceplant', 'economics', 'outputs',
                                                      'addeconomics', 'addoutputs', 'sdacgteconomics', 'sdacgtoutputs',
                                                      'InputParameters'):
            fresh = isinstance(val, (ast.Call, ast.Dict)) or (isinstance(val, ast.Constant) and val.value is None)
            ctx.check(fresh, 'P3', f'Model.__init__/{d[5:]}={norm(val)[:40]}', f'{init.module.rel}:{st.lineno}',
                      f'`{norm(st)[:80]}` does not create a fresh object for this run')
    # P6 mutable default arguments
    nfun = 0
    for f in repo.all_functions():
        nfun += 1
        a = f.node.args
        for dflt in list(a.defaults) + [x for x in a.kw_defaults if x is not None]:
            if _is_mutable_value(dflt):
                ctx.bad('P6', f'{f.qualname}/mutable-default', f'{f.module.rel}:{dflt.lineno}',
                        f'mutable default argument `{norm(dflt)}` is shared by all calls (and all runs)')
    ctx.ok('P6', 'all-functions/no-mutable-defaults', 'src/', f'{nfun} function signatures scanned')


# =========================================================================================== P4
ND_SOURCES = ('datetime.datetime.now', 'datetime.now', 'datetime.datetime.today', 'time.time', 'time.perf_counter',
              'time.ctime', 'time.monotonic', 'uuid.uuid1', 'uuid.uuid4', 'os.getpid', 'os.urandom', 'hash', 'id',
              'random.random', 'random.randint', 'random.choice', 'random.uniform', 'random.shuffle')
STAMP_WORDS = ('Simulation Date', 'Simulation Time', 'Calculation Time', 'Calculation time')
LOG_METHODS = ('info', 'warning', 'warn', 'error', 'debug', 'fatal', 'critical', 'exception')
# function qualname -> reason the nondeterministic value cannot reach a numeric result
ND_ALLOW = {
    'GeophiresInputParameters.__init__': 'hash of the temp file path used only as identifier / temp output file name '
                                         '(its use as cache key is rule P5)',
    'GeophiresXClient.get_geophires_result': 'hash(input_params) is the cache key: rule P5',
    'GeophiresInputParameters.__hash__': 'returns the identifier',
}


def _sink_ok(node: ast.AST, f: Optional[FuncInfo]) -> Optional[str]:
    """Walk up from a nondeterministic call: which sink context encloses it?"""
    p = parent(node)
    cur = node
    while p is not None and not isinstance(p, ast.stmt):
        if isinstance(p, ast.Call):
            d = dotted_name(p.func) or ''
            last = d.split('.')[-1]
            if last in LOG_METHODS or d == 'print':
                return 'log'
            if last == 'write':
                txt = ' '.join(c.value for c in ast.walk(p) if isinstance(c, ast.Constant) and isinstance(c.value, str))
                if any(w in txt for w in STAMP_WORDS):
                    return 'stamp'
            if last == 'OutputTableItem':
                txt = ' '.join(c.value for c in ast.walk(p) if isinstance(c, ast.Constant) and isinstance(c.value, str))
                if any(w in txt for w in STAMP_WORDS):
                    return 'stamp'
            if last == 'Path' and any('tempfile.gettempdir' in norm(a) for a in p.args):
                return 'temp-name'
        cur = p
        p = parent(p)
    return None


def check_p4(ctx) -> None:
    repo = ctx.repo
    n = 0
    for mi in repo.modules.values():
        if mi.rel.startswith('src/geophires_monte_carlo/') or '/hip_ra/' in mi.rel:
            continue   # Monte Carlo is stochastic by design (C13); legacy HIP-RA only in thorough
        for call in [c for c in ast.walk(mi.tree) if isinstance(c, ast.Call)]:
            d = dotted_name(call.func)
            if d is None:
                continue
            is_src = d in ND_SOURCES or d.startswith('np.random.') or d.startswith('numpy.random.') or d.startswith('random.')
            if d in ('hash', 'id') and not call.args:
                is_src = False
            if not is_src:
                continue
            fn = enclosing_function(call)
            cls = enclosing_class(call)
            qual = (f'{cls.name}.' if cls is not None else '') + (getattr(fn, 'name', '<lambda>') if fn is not None else '<module>')
            n += 1
            key = f'{mi.base}:{qual}/{d}'
            where = f'{mi.rel}:{call.lineno}'
            sink = _sink_ok(call, None)
            if sink:
                ctx.ok('P4', key, where, f'{d}() flows to {sink}')
                continue
            # assigned to a variable whose every read is a sink
            st = call
            while not isinstance(st, ast.stmt):
                st = parent(st)
            if isinstance(st, ast.Assign) and len(st.targets) == 1:
                t = st.targets[0]
                reads = []
                if isinstance(t, ast.Name) and fn is not None:
                    reads = [x for x in ast.walk(fn) if isinstance(x, ast.Name) and x.id == t.id and isinstance(x.ctx, ast.Load)]
                elif isinstance(t, ast.Attribute):
                    reads = [x for m in repo.modules.values() for x in ast.walk(m.tree)
                             if isinstance(x, ast.Attribute) and x.attr == t.attr and isinstance(x.ctx, ast.Load)]
                else:
                    reads = None
                if reads is not None:
                    bad_reads = [r for r in reads if not _sink_ok(r, None)]
                    if not bad_reads:
                        ctx.ok('P4', key, where, f'{d}() stored in `{norm(t)}`; all {len(reads)} reads flow to stamp/log sinks')
                        continue
                    if qual in ND_ALLOW:
                        ctx.ok('P4', key, where, ND_ALLOW[qual])
                        continue
                    ctx.bad('P4', key, where, f'{d}() stored in `{norm(t)}` is read at line {bad_reads[0].lineno} outside a '
                                              f'stamp/log/temp-name sink: results may depend on time, ids or hash seed')
                    continue
            if qual in ND_ALLOW:
                ctx.ok('P4', key, where, ND_ALLOW[qual])
                continue
            ctx.bad('P4', key, where, f'{d}() is used outside a stamp/log/temp-name sink: `{norm(st)[:90]}`')
    # set iteration order reaching computation: `for x in set(...)` / set literals iterated
    for mi in repo.modules.values():
        for loop in [x for x in ast.walk(mi.tree) if isinstance(x, (ast.For, ast.comprehension))]:
            it = loop.iter
            setop = isinstance(it, ast.BinOp) and isinstance(it.op, (ast.BitAnd, ast.BitOr, ast.BitXor, ast.Sub)) and any(
                (isinstance(o, ast.Call) and isinstance(o.func, ast.Attribute) and o.func.attr in ('keys', 'items')) or
                isinstance(o, ast.Set) or (isinstance(o, ast.Call) and dotted_name(o.func) in ('set', 'frozenset'))
                for o in (it.left, it.right))
            setmeth = isinstance(it, ast.Call) and isinstance(it.func, ast.Attribute) and it.func.attr in (
                'intersection', 'union', 'difference', 'symmetric_difference')
            if setop or setmeth or isinstance(it, ast.Set) or (isinstance(it, ast.Call) and dotted_name(it.func) in ('set', 'frozenset')):
                n += 1
                ctx.bad('P4', f'{mi.base}/set-iteration:{norm(it)[:40]}', f'{mi.rel}:{it.lineno}',
                        'iteration over a set: order depends on the hash seed')
    ctx.analysed['nondeterminism_sites'] = n
    ctx.floor('P4', n, 14, 'nondeterminism source sites')


# =========================================================================================== P5
def check_p5(ctx) -> None:
    repo = ctx.repo
    f = repo.method('GeophiresXClient', 'get_geophires_result')
    key_defs = [st for st in ast.walk(f.node) if isinstance(st, ast.Assign) and norm(st.targets[0]) == 'cache_key']
    uses = [x for x in ast.walk(f.node) if isinstance(x, ast.Subscript) and norm(x.value) == 'self._cache']
    if not uses:
        ctx.ok('P5', 'GeophiresXClient.get_geophires_result/no-cache', f.where, 'no result cache')
        return
    ctx.require(len(key_defs) == 1, 'client cache present but cache_key definition not found (idiom changed)')
    v = key_defs[0].value
    # the text the key is built from must be read from the file on every request: a copy kept on the request object (or in a cache) is
    # the text of the *first* request, so a rewritten file keeps its old key
    from gxstat.inline import inline_sequential as _inl
    for cname_ in ('GeophiresInputParameters',):
        ci_ = repo.find_cls(cname_, f.module)
        at = ci_.methods.get('as_text') if ci_ is not None else None
        if at is None:
            continue
        memo = any('cache' in norm(d) for d in at.node.decorator_list)
        stale = None
        for r in walk_no_nested(at.node):
            if isinstance(r, ast.Return) and r.value is not None:
                rv = _inl(r.value, r)
                reads = any(isinstance(x, ast.Call) and isinstance(x.func, ast.Attribute) and x.func.attr in ('read', 'read_text', 'readlines')
                            for x in ast.walk(rv))
                if not reads and any(isinstance(x, ast.Attribute) and isinstance(x.value, ast.Name) and x.value.id == 'self' and
                                     not isinstance(parent(x), ast.Call) for x in ast.walk(rv)):
                    stale = r
        ctx.check(stale is None and not memo, 'P5', f'{cname_}.as_text/reads-the-file-on-every-call', at.where,
                  f'{cname_}.as_text returns a copy of the text kept from an earlier call ('
                  f'{"memoised" if memo else "`" + norm(stale)[:60] + "`" if stale is not None else ""}): the cache key built from it does not '
                  f'change when the input file is rewritten, and the second request is answered with the first one\'s result',
                  fact='file read on every call')
    deps: Set[str] = set()
    content = False
    if isinstance(v, ast.Call) and dotted_name(v.func) == 'hash' and len(v.args) == 1 and norm(v.args[0]) == 'input_params':
        cls = repo.cls('GeophiresInputParameters')
        h = cls.methods.get('__hash__')
        ctx.require(h is not None, 'GeophiresInputParameters.__hash__ not found')
        rets = [r.value for r in ast.walk(h.node) if isinstance(r, ast.Return) and r.value is not None]
        per_return = []
        for r in rets:
            has = False
            rdeps: Set[str] = set()
            for a in ast.walk(r):
                if isinstance(a, ast.Attribute) and isinstance(a.value, ast.Name) and a.value.id == 'self':
                    rdeps |= _attr_deps(cls, a.attr, set())
                if isinstance(a, ast.Call):
                    dd = dotted_name(a.func) or ''
                    if dd.endswith('as_text') or dd.endswith('.read'):
                        has = True
            if any(x in rdeps for x in ('read()', 'as_text()', 'readlines()', 'read_text()')):
                has = True
            per_return.append(has)
            deps |= rdeps
        # every way __hash__ can answer must cover the whole request text (a branch that hashes only part of the request lets two
        # different inputs share a cache entry)
        content = bool(per_return) and all(per_return)
        if per_return and not all(per_return):
            deps = {'(one return of __hash__ ignores the input text)'} | deps
    else:
        for a in ast.walk(v):
            if isinstance(a, ast.Call):
                dd = dotted_name(a.func) or ''
                if dd.endswith('as_text') or dd.endswith('.read') or dd.endswith('read_text'):
                    content = True
            if isinstance(a, ast.Attribute):
                deps.add(a.attr)
    if not (isinstance(v, ast.Call) and dotted_name(v.func) == 'hash' and len(v.args) == 1 and norm(v.args[0]) == 'input_params') and \
            any(x in deps for x in ('read()', 'as_text()', 'readlines()', 'read_text()')):
        content = True
    dep_txt = ','.join(sorted(deps)) or norm(v)
    ctx.check(content, 'P5', f'GeophiresXClient.get_geophires_result/cache-key-deps={{{dep_txt}}}',
              f'{f.module.rel}:{key_defs[0].lineno}',
              f'the client cache key depends only on {{{dep_txt}}}, not on the input text: after the file is rewritten '
              f'(or for another request that maps to the same key) a stale result is returned',
              fact=f'cache_key = {norm(v)}')
    check_key_injective(ctx, f, key_defs[0], 'P5')
    # cached object must be the result parsed from this request's own output file
    stores = [st for st in ast.walk(f.node) if isinstance(st, ast.Assign) and isinstance(st.targets[0], ast.Subscript)
              and norm(st.targets[0].value) == 'self._cache']
    for st in stores:
        ctx.check(norm(st.targets[0].slice) == 'cache_key' and norm(st.value) == 'result', 'P5',
                  'GeophiresXClient.get_geophires_result/cache-store', f'{f.module.rel}:{st.lineno}',
                  f'`{norm(st)}` does not store this request\'s result under this request\'s key')
    res = [st for st in ast.walk(f.node) if isinstance(st, ast.Assign) and norm(st.targets[0]) == 'result']
    from gxstat.inline import inline_sequential as _inl5
    for st in res:
        # read through a hoisted local (`output_file_path = input_params.get_output_file_path()`; also across the try / with around the run)
        ctx.check('input_params.get_output_file_path()' in norm(st.value) or
                  'input_params.get_output_file_path()' in norm(_inl5(st.value, st, cross=(ast.If, ast.With, ast.Try), cross_loops=False)), 'P5',
                  'GeophiresXClient.get_geophires_result/result-from-own-output', f'{f.module.rel}:{st.lineno}',
                  f'`{norm(st)}`: the result is not parsed from the output file of this request')
    # the output path handed to the simulator is the one parsed afterwards
    argv = [st for st in ast.walk(f.node) if isinstance(st, ast.Assign) and norm(st.targets[0]) == 'sys.argv'
            and isinstance(st.value, ast.List)]
    for st in argv:
        elts = [norm(e) for e in st.value.elts]
        ctx.check(len(elts) == 3 and elts[1] == 'input_params.as_file_path()' and elts[2] == 'input_params.get_output_file_path()',
                  'P5', 'GeophiresXClient.get_geophires_result/argv-binding', f'{f.module.rel}:{st.lineno}',
                  f'argv handed to the simulator is {elts}: input/output are not those of the request')


INJECTIVE_WRAPPERS = ('hash', 'str', 'bytes', 'tuple', 'repr', 'hashlib.sha256', 'hashlib.md5', 'hashlib.sha1', 'hashlib.blake2b')
INJECTIVE_METHODS = ('encode', 'hexdigest', 'digest')


def check_key_injective(ctx, f, key_def: ast.Assign, rule: str) -> None:
    """The request text must reach hash() unmodified: any transformation (sorting, set-building, stripping, a helper
    function) makes two different inputs share a key, and the reader is sensitive to order (last occurrence governs)."""
    # the key expression together with the single-assignment locals it is built from (`entries = f(text); key = hash(entries)`)
    roots = [key_def]
    seen_names: Set[str] = set()
    todo = [key_def.value]
    while todo:
        e = todo.pop()
        for nm in [x.id for x in ast.walk(e) if isinstance(x, ast.Name) and isinstance(x.ctx, ast.Load)]:
            if nm in seen_names:
                continue
            seen_names.add(nm)
            ds = [st for st in ast.walk(f.node) if isinstance(st, ast.Assign) and len(st.targets) == 1 and norm(st.targets[0]) == nm
                  and st.lineno < key_def.lineno]
            if len(ds) == 1:
                roots.append(ds[0])
                todo.append(ds[0].value)
    texts = [(c, rt) for rt in roots for c in ast.walk(rt.value) if isinstance(c, ast.Call) and isinstance(c.func, ast.Attribute)
             and c.func.attr in ('as_text', 'read', 'read_text')]
    # hash(<request object>) hashes what the object's own __hash__ returns: follow it
    ann = {a.arg: norm(a.annotation) for a in f.node.args.args if a.annotation is not None}
    for rt in roots:
        for c in ast.walk(rt.value):
            if not (isinstance(c, ast.Call) and dotted_name(c.func) == 'hash' and len(c.args) == 1 and isinstance(c.args[0], ast.Name)):
                continue
            cname = ann.get(c.args[0].id, '').split('.')[-1]
            ci = ctx.repo.find_cls(cname, f.module) if cname else None
            hm = ctx.repo.resolve_method(ci, '__hash__') if ci is not None else None
            if hm is None:
                continue
            tcalls = [x for x in ast.walk(hm.node) if isinstance(x, ast.Call) and isinstance(x.func, ast.Attribute)
                      and x.func.attr in ('as_text', 'read', 'read_text', 'readlines')]
            # a method of the class that itself reads the text and returns something derived from it is a transformation of the text
            readers: Set[str] = set()
            changed = True
            while changed:
                changed = False
                for mname, m in ci.methods.items():
                    if mname in readers or mname in ('as_text', '__hash__'):
                        continue
                    for x in ast.walk(m.node):
                        if isinstance(x, ast.Call) and isinstance(x.func, ast.Attribute) and \
                                (x.func.attr in ('as_text', 'read', 'read_text', 'readlines') or
                                 (isinstance(x.func.value, ast.Name) and x.func.value.id == 'self' and x.func.attr in readers)):
                            readers.add(mname)
                            changed = True
                            break
            for x in ast.walk(hm.node):
                if isinstance(x, ast.Call) and isinstance(x.func, ast.Attribute) and isinstance(x.func.value, ast.Name) and \
                        x.func.value.id == 'self' and x.func.attr in readers:
                    ctx.bad(rule, f'{ci.name}.__hash__/text-hashed-unmodified', f'{hm.module.rel}:{x.lineno}',
                            f'the cache key is hash({c.args[0].id}), and {ci.name}.__hash__ hashes `{norm(x)}`, a digest of the input text made by '
                            f'{ci.name}.{x.func.attr}: two inputs that differ only in what that method discards or merges (the order of two occurrences '
                            f'of one parameter, a unit token after the number, spellings of one number) share a key, and the second request is '
                            f'answered with the first one\'s result', fact='text reaches hash() unmodified')
            for x in tcalls:
                cur, p_, culprit = x, parent(x), None
                ret = None
                while p_ is not None and p_ is not hm.node:
                    if isinstance(p_, ast.Return):
                        ret = p_
                        break
                    if isinstance(p_, ast.Tuple) or (isinstance(p_, ast.Call) and cur in p_.args and (dotted_name(p_.func) or '') in INJECTIVE_WRAPPERS) or \
                            (isinstance(p_, ast.Attribute) and p_.attr in INJECTIVE_METHODS) or \
                            (isinstance(p_, ast.Call) and isinstance(p_.func, ast.Attribute) and p_.func.attr in INJECTIVE_METHODS and p_.func.value is cur):
                        cur, p_ = p_, parent(p_)
                        continue
                    culprit = p_
                    break
                ctx.check(culprit is None and ret is not None, rule, f'{ci.name}.__hash__/text-hashed-unmodified', f'{hm.module.rel}:{x.lineno}',
                          f'the cache key is hash({c.args[0].id}), and {ci.name}.__hash__ transforms the input text '
                          f'(`{norm(culprit)[:70] if culprit is not None else "text not part of the returned value"}`) before hashing it: two inputs that '
                          f'differ only in what the transformation discards (order of two occurrences of one parameter - the last one governs; a unit '
                          f'token; layout the reader is sensitive to) share a key, and the second request is answered with the first one\'s result',
                          fact='text reaches hash() unmodified')
    for c, rt in texts:
        cur = c
        p = parent(cur)
        culprit = None
        while p is not None and p is not rt:
            if isinstance(p, ast.Tuple) or (isinstance(p, ast.Call) and cur in p.args and (
                    (dotted_name(p.func) or '') in INJECTIVE_WRAPPERS)) or \
                    (isinstance(p, ast.Attribute) and p.attr in INJECTIVE_METHODS) or \
                    (isinstance(p, ast.Call) and isinstance(p.func, ast.Attribute) and p.func.attr in INJECTIVE_METHODS and p.func.value is cur):
                cur = p
                p = parent(p)
                continue
            culprit = p
            break
        ctx.check(culprit is None, rule, 'GeophiresXClient.get_geophires_result/cache-key-injective-in-text',
                  f'{f.module.rel}:{key_def.lineno}',
                  f'the input text is transformed by `{norm(culprit)[:70] if culprit is not None else ""}` before it is hashed into the '
                  f'cache key: two inputs that differ only in what the transformation discards (e.g. the order of two occurrences of '
                  f'one parameter - the last one governs) share a key, and the second request gets the first one\'s result',
                  fact='as_text() reaches hash() unmodified')


def _attr_deps(cls, attr: str, seen: Set[str]) -> Set[str]:
    """Attributes / reads that self.<attr> is computed from in the class's methods (transitively)."""
    if attr in seen:
        return set()
    seen.add(attr)
    out: Set[str] = set()
    for m in cls.methods.values():
        for st in ast.walk(m.node):
            if isinstance(st, ast.Assign) and any(norm(t) == f'self.{attr}' for t in st.targets):
                found = False
                for a in ast.walk(st.value):
                    if isinstance(a, ast.Attribute) and isinstance(a.value, ast.Name) and a.value.id == 'self':
                        out |= _attr_deps(cls, a.attr, seen) or {a.attr}
                        found = True
                    if isinstance(a, ast.Call):
                        dd = dotted_name(a.func) or ''
                        if dd.split('.')[-1] in ('read', 'as_text', 'readlines', 'read_text'):
                            out.add(dd.split('.')[-1] + '()')
                    if isinstance(a, ast.Name) and a.id not in ('self', 'hash', 'Path', 'str'):
                        out.add(a.id)
                if not found and not out:
                    out.add(attr)
    return out or {attr}


# =========================================================================================== P7
def check_p7(ctx) -> None:
    """Relative names in the input (bundled profiles, demand files) are resolved against the package directory, which main() enters
    first.  Until the last step of the pipeline has run, the working directory must stay there: a chdir in between makes what a
    relative data file resolves to - and so the result - depend on where the caller happened to be."""
    repo = ctx.repo
    for suffix, fname in (('geophires_x/GEOPHIRESv3.py', 'main'), ('hip_ra_x/hip_ra_x.py', 'main')):
        if not repo.has_module(suffix):
            continue
        f = repo.function(suffix, fname)
        chd = sorted([c for c in calls_in(f.node) if dotted_name(c.func) == 'os.chdir'], key=lambda c: c.lineno)
        steps = [c for c in calls_in(f.node) if isinstance(c.func, ast.Attribute) and c.func.attr in ('read_parameters', 'Calculate', 'PrintOutputs')]
        key = f'{f.qualname}@{suffix.split("/")[0]}/cwd-stays-in-package-dir-during-the-run'
        if not chd:
            ctx.ok('P7', key, f.where, 'main() does not change the working directory')
            continue
        ctx.require(steps, f'{suffix}:{fname}: pipeline steps not found (idiom changed)')
        first_step, last_step = min(c.lineno for c in steps), max(c.lineno for c in steps)
        first = chd[0]
        ok_first = first.lineno < first_step and '__file__' in norm(first.args[0]) if first.args else False
        inside = [c for c in chd[1:] if c.lineno <= last_step]
        ctx.check(ok_first and not inside, 'P7', key, f'{f.module.rel}:{(inside[0] if inside else first).lineno}',
                  (f'`{norm(inside[0])}` changes the working directory before the last pipeline step (line {last_step}): relative data files '
                   f'named in the input are opened during the calculation and now resolve against the caller\'s directory'
                   if inside else f'the first chdir `{norm(first)}` does not enter the package directory before the parameters are read'),
                  fact='one chdir into the package directory before read_parameters, none until the report is written')


def run(ctx) -> None:
    ctx.rule('P7', 'main() enters the package directory before reading parameters and does not leave it before the last pipeline step')
    ctx.rule('P1', 'every library wrapper / __main__ from which os.chdir or a sys.argv store is reachable in-process stashes '
                   'the state first and restores it in a finally that covers every mutating site')
    ctx.rule('P2', 'inventory of process-wide mutable state (globals, class-level mutables, foreign-module writes, memoisation) '
                   'against an allow-list with reasons; anything else is a violation')
    ctx.rule('P3', 'each run builds a fresh Model and fresh parameter objects (all declarations inside __init__)')
    ctx.rule('P4', 'clock / uuid / hash / RNG values reach only stamp lines, logs and temp-file names')
    ctx.rule('P5', 'the client cache key depends on the request content; the cached/parsed result is this request\'s own')
    ctx.rule('P6', 'no mutable default arguments')
    check_p1(ctx)
    check_p2(ctx)
    check_p3(ctx)
    check_p4(ctx)
    check_p5(ctx)
    from rules.client_common import check_any_client_cache
    check_any_client_cache(ctx, 'P5')
    check_p7(ctx)
    ctx.undecided('bit-identical floating-point results across run histories', 'pint/CoolProp internal caches',
                  'hash-seed effects inside third-party libraries')
    ctx.assume('a callable handed to ProcessPoolExecutor runs in another process (its cwd/argv changes do not reach the caller)')
