"""C06 -- results do not depend on the units in which inputs are written.

Decides the clauses visible in code shape (pint's own parsing and arithmetic are not analysed):
 U1  LookupUnits has an arm for every unit type a declaration uses, and the arm's catalogue is the declaration's catalogue
 U2  typestate "p.value is expressed in p.CurrentUnits" through ConvertUnits / ConvertUnitsBack / ConvertOutputUnits
 U3  rescale + relabel pairs use the conversion factor between the two units
 U4  no magnitude heuristic with its threshold inside the accepted range (shared rule)
 U5  a printed value is labelled with the unit it is expressed in (shared with C09 W1)
 U7  the K/M currency-prefix factor points from the unit the number is in to the unit it is stored/shown in (3 siblings)
 U8  inputs are declared with CurrentUnits = PreferredUnits (ConvertUnits converts to CurrentUnits, ranges are in PreferredUnits)
 U9  the currency arm does not silently drop a differing per-unit suffix (USD/kWh given for USD/MMBTU)
 U10 conversions go through pint's Quantity.to/ito, not through arithmetic on magnitudes (offset units)
 U11 the reader parses the converted text it wrote back to the shared entry (one conversion per read, re-reads see the result)"""
from __future__ import annotations

import ast
import os
from fractions import Fraction
from typing import Dict, List, Optional, Set, Tuple

from gxstat.atoms import AtomResolver
from gxstat.domains import UNIT_TABLE
from gxstat.flowutil import always_raises
from gxstat.registry import EnumRef, get_registry
from gxstat.report import writer_templates
from gxstat.runner import Renamed
from gxstat.srcmodel import AnalysisError, calls_in, const_value, dotted_name, norm, parent
from gxstat.symflow import PathEnumerator, expand_def, names_read
from rules.u4 import check_heuristics
from rules.units_common import _block_of, check_quantity_source_unit, check_value_unit_pairing

P = 'geophires_x/Parameter.py'
NO_CATALOGUE = ('NONE', 'CHOICE')
INFO_OWNERS = ('AGSWellBores', 'SurfacePlantAGS', 'AGSEconomics', 'TOUGH2Reservoir')

# inputs deliberately held in a unit other than the one they are shown in (value, Min, Max, DefaultValue are in CurrentUnits;
# ConvertUnits converts user text to CurrentUnits; the echo converts to PreferredUnits): one line of reason per row
HELD_IN_OTHER_UNIT = {
    ('SurfacePlant', 'pump_efficiency'): 'held as a fraction 0.1-1.0 (CurrentUnits ""), echoed in % through ConvertUnitsBack',
    ('SUTRAEconomics', 'inflrateconstruction'): 'held as a fraction (CurrentUnits ""), echoed in %',
    ('Reservoir', 'gradient'): 'held in degC/m (default 0.05), echoed in degC/km',
}
# consumed only by a module that cannot run offline: deviation reported as information
HELD_INFO = {
    ('WellBores', 'wellsep'): 'declared in inches but default/range (1000, 10-10000) and the TOUGH2 consumer use metres; only TOUGH2 reads or '
                              'prints it, and TOUGH2 cannot run offline',
}


# ------------------------------------------------------------------------------------------------- U1
def lookup_arms(repo) -> Dict[str, str]:
    f = repo.module(P).functions.get('LookupUnits')
    if f is None:
        raise AnalysisError('Parameter.LookupUnits not found')
    arms: Dict[str, str] = {}
    for n in ast.walk(f.node):
        if isinstance(n, ast.If) and isinstance(n.test, ast.Compare) and len(n.test.ops) == 1 and isinstance(n.test.ops[0], ast.Eq):
            l, r = dotted_name(n.test.left) or '', dotted_name(n.test.comparators[0]) or ''
            ut = r if r.startswith('Units.') else l if l.startswith('Units.') else None
            if ut is None:
                continue
            for st in n.body:
                if isinstance(st, ast.Assign) and isinstance(st.targets[0], ast.Name) and isinstance(st.value, ast.Name):
                    arms[ut.split('.')[1]] = st.value.id
    if not arms:
        # table form: `MyEnum = TABLE.get(uType)` / `TABLE[uType]` with TABLE a module-level (or local) dict literal {Units.X: XUnit, ...}
        mi = repo.module(P)
        tables = {st.targets[0].id: st.value for st in list(mi.tree.body) + list(ast.walk(f.node))
                  if isinstance(st, ast.Assign) and len(st.targets) == 1 and isinstance(st.targets[0], ast.Name) and isinstance(st.value, ast.Dict)}
        for n in ast.walk(f.node):
            t = None
            if isinstance(n, ast.Call) and isinstance(n.func, ast.Attribute) and n.func.attr == 'get' and isinstance(n.func.value, ast.Name) \
                    and len(n.args) >= 1 and (len(n.args) == 1 or (isinstance(n.args[1], ast.Constant) and n.args[1].value is None)):
                t = n.func.value.id
            elif isinstance(n, ast.Subscript) and isinstance(n.value, ast.Name) and isinstance(n.ctx, ast.Load):
                t = n.value.id
            if t in tables:
                for k, v in zip(tables[t].keys, tables[t].values):
                    kd = dotted_name(k) or ''
                    if kd.startswith('Units.') and isinstance(v, ast.Name):
                        arms[kd.split('.')[1]] = v.id
    return arms


def check_u1(ctx) -> None:
    repo = ctx.repo
    reg = get_registry(repo)
    arms = lookup_arms(repo)
    ctx.floor('U1', len(arms), 30, 'LookupUnits arms')
    ctx.analysed['lookup_arms'] = len(arms)
    used: Dict[str, Dict[str, List]] = {}
    for d in reg.decls:
        ut, pu = d.get('UnitType'), d.get('PreferredUnits') or d.get('CurrentUnits')
        if isinstance(ut, EnumRef) and ut.enum == 'Units' and isinstance(pu, EnumRef):
            used.setdefault(ut.member, {}).setdefault(pu.enum, []).append(d)
    for ut in sorted(used):
        if ut in NO_CATALOGUE:
            continue
        for enum, ds in sorted(used[ut].items()):
            members = reg.enums.enums.get(enum, {})
            d0 = ds[0]
            ins = [d for d in ds if d.is_input]
            who = f'{len(ins)} input(s), {len(ds) - len(ins)} output(s), e.g. {d0.owner}.{d0.attr}'
            key = f'Units.{ut}/{enum}'
            if ut not in arms:
                if len(members) < 2:
                    ctx.ok('U1', key + '/arm', d0.where, f'no arm, but the catalogue {enum} has a single unit: nothing to look up')
                    continue
                msg = (f'unit type {ut} ({who}) has no arm in LookupUnits: none of the {len(members)} units of {enum} that are not also in '
                       f'another catalogue can be resolved, so a unit-suffixed input leaves CurrentUnits = None and a `Units:` request for '
                       f'such an output cannot be honoured')
                shared = _resolvable_elsewhere(reg, arms, enum)
                if shared is True:
                    ctx.ok('U1', key + '/arm', d0.where, f'no arm of its own, every unit text of {enum} is found through another arm')
                elif all(d.owner in INFO_OWNERS for d in ds):
                    ctx.info(f'U1 {d0.where} {key}/arm: {msg}')
                else:
                    ctx.bad('U1', key + '/arm', d0.where, msg + f' (unresolvable: {shared})')
                continue
            if arms[ut] != enum:
                shared = _resolvable_elsewhere(reg, arms, enum)
                ctx.check(shared is True, 'U1', key + f'/arm-catalogue={arms[ut]}', d0.where,
                          f'declarations of type {ut} ({who}) take their units from {enum}, but the LookupUnits arm for {ut} searches '
                          f'{arms[ut]} and no other arm holds the unit texts {shared if shared is not True else []}: they cannot be resolved',
                          fact=f'arm searches {arms[ut]}; every unit text of {enum} is found through some arm')
            else:
                ctx.ok('U1', key + '/arm', d0.where, f'arm searches {enum}')


def _resolvable_elsewhere(reg, arms: Dict[str, str], enum: str):
    texts = [v for v in reg.enums.enums.get(enum, {}).values() if isinstance(v, str)]
    reachable = set()
    for e in set(arms.values()):
        reachable |= {v for v in reg.enums.enums.get(e, {}).values() if isinstance(v, str)}
    missing = [t for t in texts if t not in reachable]
    return True if not missing else missing


# ------------------------------------------------------------------------------------------------- U2
USER_TAINT = {'currType', 'parts', 'strUnit', 'val', 'elements', 'currShort'}
TARGET_NAMES = {'Old_valQ', 'ParamToModify.PreferredUnits', 'prefType'}


def check_u2_convert_units(ctx) -> None:
    """ConvertUnits returns the user's number expressed in the unit the parameter held on entry.  On every returning path the
    last store to ParamToModify.CurrentUnits (if any) must therefore not name the user's unit - unless the path is guarded by
    the equality of the two units."""
    repo = ctx.repo
    f = repo.module(P).functions.get('ConvertUnits')
    ctx.require(f is not None, 'Parameter.ConvertUnits not found')
    rel = f.module.rel
    ctx.local_anchor(f, 'currType', 'New_valQ', 'Old_valQ', 'prefType', 'parts')
    key_cu = 'ParamToModify.CurrentUnits'
    pe = PathEnumerator(f.node.body, {key_cu, 'strUnit'}, fork_all=True, track_calls=True, prune=True, max_paths=20000)
    paths = [p for p in pe.paths() if p.ended in ('return', 'fallthrough')]
    ctx.floor('U2', len(paths), 4, 'returning paths of ConvertUnits')
    # handlers on the way must leave (raise): otherwise a failed conversion would fall through with the label already changed
    for t in [n for n in ast.walk(f.node) if isinstance(n, ast.Try)]:
        for h in t.handlers:
            ctx.check(always_raises(h.body), 'U2', f'ConvertUnits/handler@{_stmt_key(t.body[0])}/leaves', f'{rel}:{h.lineno}',
                      'a failed unit construction/conversion is swallowed: the function goes on with a half-converted parameter',
                      fact='handler raises')
    seen: Dict[str, Tuple[bool, str, int]] = {}
    for p in paths:
        d = p.env.get(key_cu)
        if d is None or d.expr is None:
            continue
        reads = _transitive_reads(d)
        user = bool(reads & USER_TAINT) and not (reads & {'New_valQ'} and _after_ito(p, d))
        equal_guard = _guarded_equal(p, reads)
        unreachable = _dominated_by_forex_raise(f, d.stmt)
        key = f'ConvertUnits/CurrentUnits:={norm(d.expr)[:40]}@{_stmt_key(d.stmt)}'
        bad = user and not equal_guard and not unreachable
        prev = seen.get(key)
        if prev is None or (bad and not prev[0]):
            seen[key] = (bad, 'user unit' if user else 'unit of the converted quantity', d.line,
                         'guarded by equality with the preferred unit' if equal_guard else
                         'only reachable with the disabled forex API' if unreachable else '')
    for key, (bad, what, line, why) in sorted(seen.items()):
        ctx.check(not bad, 'U2', key + '/labels-the-unit-the-value-is-in', f'{rel}:{line}',
                  'on a returning path the last store to ParamToModify.CurrentUnits names the unit the user wrote, while the number '
                  'returned (and stored as .value) is expressed in the unit the parameter held before: the echo in the report converts it a '
                  'second time (`Maximum Temperature, 752 degF` is computed as 400 degC and echoed as 204.4 degC)',
                  fact=f'{what} {why}'.strip())


def _stmt_key(st: ast.stmt) -> str:
    return norm(st)[:48]


def _transitive_reads(d, depth: int = 4) -> Set[str]:
    out: Set[str] = set()
    todo = [(d, 0)]
    seen = set()
    while todo:
        x, k = todo.pop()
        if id(x) in seen or x.expr is None:
            continue
        seen.add(id(x))
        rs = names_read(x.expr)
        out |= rs
        if k < depth:
            for b in x.binds.values():
                todo.append((b, k + 1))
    return out


def _after_ito(p, d) -> bool:
    """The store happens after `New_valQ.ito(...)` on this path (the quantity then carries the target unit)."""
    return any(isinstance(c.func, ast.Attribute) and c.func.attr in ('ito', 'ito_base_units') and c.lineno < d.line for c in p.calls) or \
        any(isinstance(n, ast.Call) and isinstance(n.func, ast.Attribute) and n.func.attr == 'ito' and n.lineno < d.line
            for n in ast.walk(_func_of(d.stmt)))


def _func_of(st: ast.AST) -> ast.AST:
    p = st
    while p is not None and not isinstance(p, ast.FunctionDef):
        p = parent(p)
    return p


def _guarded_equal(p, reads: Set[str]) -> bool:
    for test, pol, _ in p.conds:
        if pol and isinstance(test, ast.Compare) and len(test.ops) == 1 and isinstance(test.ops[0], ast.Eq):
            a, b = norm(test.left), norm(test.comparators[0])
            if (a in reads and b in TARGET_NAMES) or (b in reads and a in TARGET_NAMES):
                return True
    return False


def _dominated_by_forex_raise(f, st: ast.stmt) -> bool:
    """An earlier statement of the same block is `try: if _DISABLE_FOREX_API: raise ...` with handlers that raise, and the module
    constant is True."""
    mod = None
    p = f.node
    blk = _block_of(st)
    idx = blk.index(st)
    for prev in blk[:idx]:
        if isinstance(prev, ast.Try) and prev.body and isinstance(prev.body[0], ast.If) and norm(prev.body[0].test) == '_DISABLE_FOREX_API' \
                and always_raises(prev.body[0].body) and all(always_raises(h.body) for h in prev.handlers):
            for s in f.module.tree.body:
                if isinstance(s, ast.Assign) and norm(s.targets[0]) == '_DISABLE_FOREX_API' and isinstance(s.value, ast.Constant):
                    return s.value.value is True
    return False


# ------------------------------------------------------------------------------------------------- U3
def check_u3(ctx) -> None:
    """`X.value = X.value * k` (or / k, also element-wise) followed in the same block by `X.CurrentUnits = <Enum>.<M>`:
    k is the factor from X's declared PreferredUnits to the new unit."""
    repo = ctx.repo
    reg = get_registry(repo)
    n = 0
    for f in repo.all_functions():
        if not f.module.rel.startswith('src/geophires_x/') or f.module.rel.endswith('Parameter.py'):
            continue
        cls = f.cls.name if f.cls is not None else None
        res = AtomResolver(repo, cls)
        for st in ast.walk(f.node):
            if not (isinstance(st, ast.Assign) and isinstance(st.targets[0], ast.Attribute) and st.targets[0].attr == 'CurrentUnits'):
                continue
            lab = st.value
            if not (isinstance(lab, ast.Attribute) and isinstance(lab.value, ast.Name) and lab.value.id in reg.enums.enums):
                continue
            new_u = reg.enums.enums[lab.value.id].get(lab.attr)
            obj = norm(st.targets[0].value)
            blk = _block_of(st)
            idx = blk.index(st)
            rescale = None
            for prev in reversed(blk[:idx]):
                if isinstance(prev, ast.Assign) and isinstance(prev.value, ast.BinOp) and isinstance(prev.value.op, (ast.Mult, ast.Div)):
                    tgt = prev.targets[0]
                    base = tgt.value if isinstance(tgt, ast.Subscript) else tgt
                    if norm(base) == obj + '.value' and norm(prev.value.left) == norm(tgt):
                        okk, k = const_value(prev.value.right)
                        if okk and isinstance(k, (int, float)):
                            rescale = (prev, Fraction(repr(float(k))) if isinstance(prev.value.op, ast.Mult) else 1 / Fraction(repr(float(k))))
                            break
            if rescale is None:
                continue
            d = res.decl(obj + '.value')
            if d is None and obj.split('.')[0] in ('ParameterToModify', 'param'):
                nm = _name_guard(st)
                if nm and cls:
                    d = next((x for x in reg.class_decls(cls) if x.name == nm), None)
            if d is None:
                ctx.info(f'U3 {f.module.rel}:{st.lineno} rescale+relabel of `{obj}`: declaration not resolved, not compared')
                continue
            old = d.get('PreferredUnits')
            old_u = reg.enums.enums.get(old.enum, {}).get(old.member) if isinstance(old, EnumRef) else None
            n += 1
            key = f'{f.qualname}/{d.attr}/rescale-matches-relabel'
            where = f'{f.module.rel}:{rescale[0].lineno}'
            if old_u not in UNIT_TABLE or new_u not in UNIT_TABLE:
                ctx.require(False, f'U3: unit {old_u!r} or {new_u!r} missing from the unit table (gxstat.domains.UNIT_TABLE)')
            (dim_o, sc_o), (dim_n, sc_n) = UNIT_TABLE[old_u], UNIT_TABLE[new_u]
            want = sc_o / sc_n
            ok = dim_o == dim_n and _close(rescale[1], want)
            if not ok:
                # the value may carry a label given elsewhere (Reservoir relabels depth to metres, Economics takes it back to km):
                # accept the factor from any unit this object is ever labelled with (flow order across functions is not analysed)
                for lab_u in _labels_given(repo, reg, d):
                    if lab_u in UNIT_TABLE and UNIT_TABLE[lab_u][0] == dim_n and _close(rescale[1], UNIT_TABLE[lab_u][1] / sc_n):
                        ok = True
                        old_u = lab_u
                        want = UNIT_TABLE[lab_u][1] / sc_n
            msg = (f'`{norm(rescale[0])[:80]}` rescales {d.name!r} by {float(rescale[1]):g} and relabels it {new_u}; from its declared '
                   f'{old_u} the factor is {float(want):g}: value and unit label no longer denote the quantity the user gave')
            if f.cls is not None and f.cls.name in INFO_OWNERS:
                if not ok:
                    ctx.info(f'U3 {where} {key}: {msg}')
                continue
            ctx.check(ok, 'U3', key, where, msg, fact=f'{old_u} -> {new_u} by {float(want):g}')
    ctx.floor('U3', n, 5, 'rescale/relabel pairs')


_LABELS: Dict[int, Dict[str, Set[str]]] = {}


def _labels_given(repo, reg, d) -> Set[str]:
    """Unit texts of every `<...>.<attr>.CurrentUnits = <Enum>.<M>` in the package (by attribute name)."""
    if id(repo) not in _LABELS:
        tab: Dict[str, Set[str]] = {}
        for f in repo.all_functions():
            for st in ast.walk(f.node):
                if isinstance(st, ast.Assign) and isinstance(st.targets[0], ast.Attribute) and st.targets[0].attr == 'CurrentUnits' and \
                        isinstance(st.value, ast.Attribute) and isinstance(st.value.value, ast.Name) and st.value.value.id in reg.enums.enums:
                    u = reg.enums.enums[st.value.value.id].get(st.value.attr)
                    a = norm(st.targets[0].value).split('.')[-1]
                    if isinstance(u, str):
                        tab.setdefault(a, set()).add(u)
                    nm = _name_guard(st)
                    if nm and isinstance(u, str):
                        tab.setdefault('name:' + nm, set()).add(u)
        _LABELS[id(repo)] = tab
    tab = _LABELS[id(repo)]
    return set(tab.get(d.attr, set())) | set(tab.get('name:' + str(d.name), set()))


def _close(a: Fraction, b: Fraction) -> bool:
    return a == b or abs(float(a) - float(b)) <= 1e-9 * max(abs(float(a)), abs(float(b)))


def _name_guard(node: ast.AST) -> Optional[str]:
    """The parameter Name tested by an enclosing `if <x>.Name == '...'` whose body contains the node."""
    cur = node
    p = parent(node)
    while p is not None and not isinstance(p, ast.FunctionDef):
        if isinstance(p, ast.If) and any(cur is b or any(x is cur for x in ast.walk(b)) for b in p.body):
            for c in ast.walk(p.test):
                if isinstance(c, ast.Compare) and len(c.ops) == 1 and isinstance(c.ops[0], ast.Eq) and norm(c.left).endswith('.Name') \
                        and isinstance(c.comparators[0], ast.Constant):
                    return c.comparators[0].value
        cur = p
        p = parent(p)
    return None


# ------------------------------------------------------------------------------------------------- U5 (shared with C09)
# ------------------------------------------------------------------------------------------------- U7
def check_u7(ctx) -> None:
    """The three sibling K/M prefix blocks compute Factor = mult(pref) / mult(curr) (pref multiplied up, curr divided down).
    A number in the `curr` unit becomes one in the `pref` unit by 1/Factor, a number in `pref` becomes one in `curr` by Factor."""
    repo = ctx.repo
    mi = repo.module(P)
    sites = {'ConvertUnits': 'curr->pref', '_parameter_with_currency_units_converted_back_to_preferred_units': 'pref->curr',
             'ConvertOutputUnits': 'pref->curr'}
    why = {'ConvertUnits': 'the number comes from the user\'s text in the unit written next to it and is returned to ReadParameter, which '
                           'range-checks and stores it in the preferred unit',
           '_parameter_with_currency_units_converted_back_to_preferred_units': 'the stored value is relabelled with the user\'s unit (currType)',
           'ConvertOutputUnits': 'the computed value is relabelled with the requested unit'}
    n = 0
    for fname, direction in sites.items():
        f = mi.functions.get(fname)
        ctx.require(f is not None, f'Parameter.{fname} not found')
        exps = _prefix_exponents(f)
        ctx.require(exps is not None, f'{fname}: K/M prefix factor block not recognised (idiom changed)')
        (e_pref, e_curr, lits), use = exps
        n += 1
        rel = f'{f.module.rel}:{use.lineno}'
        # literal table
        for letter, lit in lits:
            want = 1_000_000.0 if letter in ('M', 'm') else 1000.0
            ctx.check(float(lit) == want, 'U7', f'{fname}/prefix:{letter}/multiplier', rel,
                      f'prefix {letter} is given the multiplier {lit:g}, it stands for {want:g}', fact=f'{letter} = {want:g}')
        # exponent of Factor at the use site
        ue = _use_exponent(f, use)
        ctx.require(ue is not None, f'{fname}: use of Factor not recognised')
        # value' = value * Factor**ue ; Factor = pref**e_pref * curr**e_curr
        tot_pref, tot_curr = e_pref * ue, e_curr * ue
        want = (-1, 1) if direction == 'curr->pref' else (1, -1)
        ctx.check((tot_pref, tot_curr) == want, 'U7', f'{fname}/prefix-factor-direction', rel,
                  f'the number is multiplied by mult(pref)^{tot_pref} * mult(curr)^{tot_curr}; {why[fname]}, which needs '
                  f'mult(pref)^{want[0]} * mult(curr)^{want[1]} (a KUSD figure for a MUSD parameter is off by 10^6)',
                  fact=f'{direction}: mult(pref)^{tot_pref} * mult(curr)^{tot_curr}')
    ctx.floor('U7', n, 3, 'currency prefix blocks')


def _prefix_exponents(f):
    """((exponent of mult(pref) in Factor, exponent of mult(curr) in Factor, [(letter, literal)]), first statement using Factor)."""
    e = {'prefFactor': 0, 'currFactor': 0}
    lits: List[Tuple[str, float]] = []
    for n in ast.walk(f.node):
        if isinstance(n, ast.If):
            letters = [c.value for x in ast.walk(n.test) if isinstance(x, (ast.List, ast.Tuple)) for c in x.elts if isinstance(c, ast.Constant)]
            for st in n.body:
                if isinstance(st, ast.Assign) and isinstance(st.targets[0], ast.Name) and st.targets[0].id in e and \
                        isinstance(st.value, ast.BinOp) and norm(st.value.left) == st.targets[0].id:
                    okk, k = const_value(st.value.right)
                    if not okk:
                        return None
                    sgn = 1 if isinstance(st.value.op, ast.Mult) else -1 if isinstance(st.value.op, ast.Div) else None
                    if sgn is None:
                        return None
                    v = st.targets[0].id
                    if e[v] not in (0, sgn):
                        return None
                    e[v] = sgn
                    if letters:
                        lits.append((letters[0], float(k)))
    fdef = None
    for st in ast.walk(f.node):
        if isinstance(st, ast.Assign) and norm(st.targets[0]) == 'Factor' and not isinstance(st.value, ast.Constant):
            fdef = st
    if fdef is None or 0 in e.values():
        return None
    # Factor = <expr in prefFactor, currFactor>: exponents by structure
    ex = _monomial(fdef.value)
    if ex is None:
        return None
    e_pref = ex.get('prefFactor', 0) * e['prefFactor']
    e_curr = ex.get('currFactor', 0) * e['currFactor']
    use = None
    for st in ast.walk(f.node):
        if isinstance(st, ast.Assign) and st is not fdef and any(isinstance(x, ast.Name) and x.id == 'Factor' for x in ast.walk(st.value)):
            if use is None or st.lineno < use.lineno:
                use = st
    if use is None:
        return None
    return (e_pref, e_curr, lits), use


def _monomial(e: ast.AST) -> Optional[Dict[str, int]]:
    if isinstance(e, ast.Name):
        return {e.id: 1}
    if isinstance(e, ast.Constant) and isinstance(e.value, (int, float)):
        return {} if float(e.value) == 1.0 else None
    if isinstance(e, ast.BinOp) and isinstance(e.op, (ast.Mult, ast.Div)):
        l, r = _monomial(e.left), _monomial(e.right)
        if l is None or r is None:
            return None
        out = dict(l)
        for k, v in r.items():
            out[k] = out.get(k, 0) + (v if isinstance(e.op, ast.Mult) else -v)
        return out
    return None


def _use_exponent(f, use: ast.Assign) -> Optional[int]:
    m = _monomial_loose(use.value)
    return m


def _monomial_loose(e: ast.AST) -> Optional[int]:
    """Exponent of Factor in a product/quotient expression (other factors ignored)."""
    if isinstance(e, ast.Name):
        return 1 if e.id == 'Factor' else 0
    if isinstance(e, ast.BinOp) and isinstance(e.op, (ast.Mult, ast.Div)):
        l, r = _monomial_loose(e.left), _monomial_loose(e.right)
        if l is None or r is None:
            return None
        return l + (r if isinstance(e.op, ast.Mult) else -r)
    if isinstance(e, (ast.Call, ast.Attribute, ast.Constant, ast.Subscript)):
        return 0 if not any(isinstance(x, ast.Name) and x.id == 'Factor' for x in ast.walk(e)) else None
    return None


# ------------------------------------------------------------------------------------------------- U8
def check_u8(ctx) -> None:
    reg = get_registry(ctx.repo)
    n = 0
    for d in reg.decls:
        if not d.is_input:
            continue
        p, c = d.get('PreferredUnits'), d.get('CurrentUnits')
        if not isinstance(p, EnumRef) and not isinstance(c, EnumRef):
            continue
        n += 1
        key = f'{d.owner}.{d.attr}/current-units-declared-as-preferred'
        same = isinstance(p, EnumRef) and isinstance(c, EnumRef) and (p.enum, p.member) == (c.enum, c.member)
        if same or (p is None and isinstance(c, EnumRef)) or (c is None and isinstance(p, EnumRef)):
            ctx.ok('U8', key, d.where, 'same unit (or one of the two left to default to the other)')
            continue
        if (d.owner, d.attr) in HELD_IN_OTHER_UNIT:
            ctx.ok('U8', key, d.where, 'held in another unit by design: ' + HELD_IN_OTHER_UNIT[(d.owner, d.attr)])
            continue
        msg = (f'{d.name!r} is declared with CurrentUnits {c} but PreferredUnits {p}: ConvertUnits converts a unit-suffixed input to '
               f'CurrentUnits, while default, range and consumers are in the preferred unit, so the same quantity written with and without a '
               f'unit gives different values')
        if (d.owner, d.attr) in HELD_INFO or d.owner in INFO_OWNERS:
            ctx.info(f'U8 {d.where} {key}: {msg} [{HELD_INFO.get((d.owner, d.attr), "module not runnable offline")}]')
            continue
        ctx.bad('U8', key, d.where, msg)
    ctx.floor('U8', n, 200, 'input declarations with units')


# ------------------------------------------------------------------------------------------------- U9
def check_u9(ctx) -> None:
    """Currency arms strip a `/suffix` from both units before comparing the currency codes.  Unless the two suffixes are compared
    (and a difference converted or rejected) `0.17 USD/kWh` given for a USD/MMBTU parameter is stored as 0.17 USD/MMBTU."""
    mi = ctx.repo.module(P)
    for fname in ('ConvertUnits', '_parameter_with_currency_units_converted_back_to_preferred_units', 'ConvertOutputUnits'):
        f = mi.functions.get(fname)
        ctx.require(f is not None, f'Parameter.{fname} not found')
        strips = [st for st in ast.walk(f.node) if isinstance(st, ast.Assign) and norm(st.targets[0]) in ('currSuff', 'prefSuff')
                  and not isinstance(st.value, ast.Constant)]
        if not strips:
            ctx.ok('U9', f'{fname}/suffix-compared', f'{f.module.rel}:{f.node.lineno}', 'no suffix stripping in this function')
            continue
        compared = any(isinstance(c, ast.Compare) and {'currSuff', 'prefSuff'} <= {x.id for x in ast.walk(c) if isinstance(x, ast.Name)}
                       for c in ast.walk(f.node))
        if fname == '_parameter_with_currency_units_converted_back_to_preferred_units' and not compared:
            ctx.info(f'U9 {f.module.rel}:{strips[0].lineno} {fname}/suffix-compared: suffixes stripped and never compared; this legacy arm is only '
                     f'reached when pint cannot parse the unit and the currency codes agree, for which no input could be constructed')
            continue
        ctx.check(compared, 'U9', f'{fname}/suffix-compared', f'{f.module.rel}:{strips[0].lineno}',
                  'the per-unit suffixes (/kWh, /MMBTU, /yr, /tonne ...) are stripped from both units and never compared: a value given per '
                  'another unit of the same catalogue is taken over unconverted', fact='currSuff compared with prefSuff')


# ------------------------------------------------------------------------------------------------- U10
def check_u10(ctx) -> None:
    """Inside the converters a magnitude that is stored/returned comes straight from a Quantity converted by pint (.to/.ito):
    no Quantity is rebuilt from `<something>.magnitude * factor` and no `.magnitude` is scaled (offset units such as degF)."""
    mi = ctx.repo.module(P)
    n = 0
    for fname in ('ConvertUnits', 'ConvertUnitsBack', 'ConvertOutputUnits'):
        f = mi.functions.get(fname)
        ctx.require(f is not None, f'Parameter.{fname} not found')
        mags = [a for a in ast.walk(f.node) if isinstance(a, ast.Attribute) and a.attr in ('magnitude', 'm')]
        for a in mags:
            n += 1
            p = parent(a)
            arithmetic = isinstance(p, ast.BinOp) and isinstance(p.op, (ast.Mult, ast.Div, ast.Add, ast.Sub))
            src = a.value
            via_pint = False
            if isinstance(src, ast.Call) and isinstance(src.func, ast.Attribute) and src.func.attr in ('to', 'to_base_units'):
                via_pint = True
            elif isinstance(src, ast.Name):
                # the name must have been converted in place before this read and not rebuilt from arithmetic afterwards
                conv = [c for c in ast.walk(f.node) if isinstance(c, ast.Call) and isinstance(c.func, ast.Attribute) and c.func.attr in ('ito',)
                        and norm(c.func.value) == src.id and c.lineno <= a.lineno]
                conv += [s for s in ast.walk(f.node) if isinstance(s, ast.Assign) and norm(s.targets[0]) == src.id and s.lineno <= a.lineno and
                         isinstance(s.value, ast.Call) and isinstance(s.value.func, ast.Attribute) and s.value.func.attr == 'to']
                rebuilt = [s for s in ast.walk(f.node) if isinstance(s, ast.Assign) and norm(s.targets[0]) == src.id and
                           any(isinstance(x, ast.Attribute) and x.attr in ('magnitude', 'm') for x in ast.walk(s.value))]
                via_pint = bool(conv) and not rebuilt
            ctx.check(via_pint and not arithmetic, 'U10', f'{fname}/magnitude-of:{norm(src)[:40]}/converted-by-pint', f'{f.module.rel}:{a.lineno}',
                      f'`{norm(parent(a))[:90]}`: the magnitude is scaled by hand or read from a quantity that pint did not convert; a '
                      f'multiplicative factor drops the zero offset of degF/degK/degC (68 degF would become 37.8 degC instead of 20 degC)',
                      fact='magnitude of a pint-converted quantity, used unscaled')
    ctx.floor('U10', n, 3, 'magnitude reads in the converters')


# ------------------------------------------------------------------------------------------------- U11
def check_u11(ctx) -> None:
    """ReadParameter: the text returned by ConvertUnits is written back to ParameterReadIn.sValue and every numeric parse reads that
    field - readers run more than once over the same objects (SBTReservoir re-reads its parent's parameters), and a second
    conversion of the original text starts from a parameter whose CurrentUnits the first one changed."""
    f = ctx.repo.module(P).functions.get('ReadParameter')
    ctx.require(f is not None, 'Parameter.ReadParameter not found')
    rel = f.module.rel
    calls = [c for c in calls_in(f.node) if dotted_name(c.func) == 'ConvertUnits']
    ctx.floor('U11', len(calls), 1, 'ConvertUnits calls in ReadParameter')
    for c in calls:
        st = parent(c)
        while st is not None and not isinstance(st, ast.stmt):
            st = parent(st)
        tgt = norm(st.targets[0]) if isinstance(st, ast.Assign) else ''
        wb = [s for s in ast.walk(f.node) if isinstance(s, ast.Assign) and norm(s.targets[0]) == 'ParameterReadIn.sValue' and
              (norm(s.value) == tgt or any(x is c for x in ast.walk(s.value))) and s.lineno >= c.lineno]
        ctx.check(bool(wb), 'U11', 'ReadParameter/converted-text-written-back', f'{rel}:{c.lineno}',
                  'the converted number is not stored back into ParameterReadIn.sValue: a later read of the same entry (SBT reads the '
                  'reservoir parameters twice) converts the user\'s text again from a parameter whose CurrentUnits the first read changed, and '
                  'takes the raw number', fact='ParameterReadIn.sValue := converted text')


# ------------------------------------------------------------------------------------------------- U12
def check_u12(ctx) -> None:
    """Outside Parameter.py a store to `<x>.CurrentUnits` is a relabel; unless the same block rescales `<x>.value` just before it
    (U3 pairs) the number keeps its old unit under a new label."""
    repo = ctx.repo
    n = 0
    for f in repo.all_functions():
        if f.module.rel.endswith('geophires_x/Parameter.py') or '/src/' not in '/' + f.module.rel:
            continue
        # locals that stand for `<obj>.value` (the list object itself): an element store through the alias changes the value too
        alias_of: Dict[str, str] = {}
        for a_ in ast.walk(f.node):
            if isinstance(a_, ast.Assign) and len(a_.targets) == 1 and isinstance(a_.targets[0], ast.Name) and isinstance(a_.value, ast.Attribute) \
                    and a_.value.attr == 'value':
                alias_of[a_.targets[0].id] = norm(a_.value)
        for st in ast.walk(f.node):
            if not (isinstance(st, ast.Assign) and isinstance(st.targets[0], ast.Attribute) and st.targets[0].attr == 'CurrentUnits'):
                continue
            n += 1
            obj = norm(st.targets[0].value)
            blk = _block_of(st)
            idx = blk.index(st)
            paired = False
            for prev in reversed(blk[:idx]):
                for a in ast.walk(prev):      # also inside a guard just before the relabel
                    if isinstance(a, (ast.Assign, ast.AugAssign)):
                        tgt = a.targets[0] if isinstance(a, ast.Assign) else a.target
                        base = tgt.value if isinstance(tgt, ast.Subscript) else tgt
                        if norm(base) == obj + '.value' or (isinstance(tgt, ast.Subscript) and alias_of.get(norm(base)) == obj + '.value'):
                            paired = True
                if paired:
                    break
            # value assigned in the same statement list after the relabel also counts (value := computed in the new unit)
            for nxt in blk[idx + 1:idx + 3]:
                if isinstance(nxt, ast.Assign) and norm(nxt.targets[0]) == obj + '.value':
                    paired = True
            # the object is keyed by what it is, not by how the statement spells it: `OutputParameterDict[<name after 'Units:'>]` for the
            # output a Units: request names, whatever the locals holding the name are called
            okey = obj
            if isinstance(st.targets[0].value, ast.Subscript) and norm(st.targets[0].value.value).endswith('OutputParameterDict'):
                from gxstat.inline import inline_sequential
                ix = norm(inline_sequential(st.targets[0].value.slice, st, cross_loops=True))
                if ".replace('Units:', '')" in ix or (f.name == 'read_parameters' and not isinstance(st.targets[0].value.slice, ast.Constant)):
                    # in a read_parameters the only non-literal key into the output dictionary is the name a `Units:` request carries
                    okey = f"{norm(st.targets[0].value.value)}[<name after 'Units:'>]"
            key = f'{f.qualname}/{_obj_key(okey)}/relabel-paired-with-value-change'
            where = f'{f.module.rel}:{st.lineno}'
            msg = (f'`{norm(st)[:110]}` changes the unit label of {obj} and nothing in the block converts its value: the number stays in the '
                   f'old unit under the new label (and a later conversion starts from the wrong unit)')
            cls = f.cls.name if f.cls is not None else ''
            if not paired and cls in INFO_OWNERS:
                ctx.info(f'U12 {where} {key}: {msg}')
                continue
            ctx.check(paired, 'U12', key, where, msg, fact='value changed next to the relabel')
    ctx.floor('U12', n, 8, 'CurrentUnits stores outside Parameter.py')


def _obj_key(obj: str) -> str:
    return obj if len(obj) < 60 else obj[:57] + '...'


# ------------------------------------------------------------------------------------------------- U13 / U14
# unit types for which ConvertUnits leaves the user's unit in CurrentUnits after converting the value (the lookup of pint's long
# name of the preferred unit finds nothing in the catalogue and does not raise): witnessed with the real program during triage
STALE_LABEL_TYPES = {'TEMPERATURE': '`Maximum Temperature, 752 degF` -> value 400 (degC), CurrentUnits degF'}


def check_u13(ctx) -> None:
    """LookupUnits is documented to return nothing for an unknown text.  A pint lookup in it that can raise must sit in a try."""
    f = ctx.repo.module(P).functions.get('LookupUnits')
    ctx.require(f is not None, 'Parameter.LookupUnits not found')
    n = 0
    for c in calls_in(f.node):
        d = dotted_name(c.func) or ''
        if d.startswith('_ureg.') or d.startswith('ureg.'):
            n += 1
            guarded = False
            p = parent(c)
            while p is not None and p is not f.node:
                if isinstance(p, ast.Try) and any(x is c for b in [p.body] for st in b for x in ast.walk(st)) and p.handlers:
                    guarded = True
                p = parent(p)
            ctx.check(guarded, 'U13', f'LookupUnits/{d}/cannot-raise', f'{f.module.rel}:{c.lineno}',
                      f'`{norm(c)}` raises UndefinedUnitError for any text that is not a single unit name (\'meter ** 2\', \'dimensionless\'); '
                      f'ConvertUnits looks up the unit of the converted quantity this way, so an input written in another area, volume, '
                      f'density, gradient or percent unit of the catalogue aborts the run', fact='inside try/except')
    ctx.floor('U13', n, 1, 'pint lookups in LookupUnits')


def check_u14(ctx, rule: str = 'U14', only_classes=None) -> int:
    """While ConvertUnits leaves a stale label on inputs of the listed unit types (U2), code must read such an input through
    `.value` (expressed in the unit held before the read), not through `.quantity()` / Quantity(x.value, x.CurrentUnits)."""
    repo = ctx.repo
    n = 0
    for f in repo.all_functions():
        if f.module.rel.endswith('geophires_x/Parameter.py'):
            continue
        cls = f.cls.name if f.cls is not None else None
        if only_classes is not None and cls not in only_classes:
            continue
        res = AtomResolver(repo, cls)
        for c in calls_in(f.node):
            if not (isinstance(c.func, ast.Attribute) and c.func.attr == 'quantity' and not c.args):
                continue
            obj = dotted_name(c.func.value)
            if not obj:
                continue
            d = res.decl(obj + '.value')
            if d is None and obj.split('.')[0] in ('ParameterToModify', 'param'):
                nm = _name_guard(c)          # generic reader object: identified by the `.Name == '...'` guard around the call
                if nm and cls:
                    d = next((x for x in get_registry(repo).class_decls(cls) if x.name == nm), None)
            if d is None or not d.is_input:
                continue
            ut = d.get('UnitType')
            n += 1
            t = ut.member if isinstance(ut, EnumRef) else None
            key = f'{f.qualname}/{d.attr}.quantity()'
            where = f'{f.module.rel}:{c.lineno}'
            msg = (f'`{norm(c)}` trusts CurrentUnits of the input {d.name!r} ({t}); after a unit-suffixed read ConvertUnits leaves the '
                   f'user\'s unit there although the value was converted ({STALE_LABEL_TYPES.get(t, "")}), so the already-converted number is '
                   f'interpreted in the user\'s unit a second time and the results depend on the unit the input was written in')
            if t in STALE_LABEL_TYPES and cls in INFO_OWNERS:
                ctx.info(f'{rule} {where} {key}: {msg}')
            else:
                ctx.check(t not in STALE_LABEL_TYPES, rule, key, where, msg, fact=f'{t}: label restored after the read')
    return n


# ------------------------------------------------------------------------------------------------- U15
CURRENCY_CODES_WITHOUT_RATES = ('EUR', 'MXN')     # conversion between currencies is disabled in the program itself (_DISABLE_FOREX_API,
#                                                   upstream issue 236) and refused with a message that says so: informational


def check_u15(ctx) -> None:
    """Every unit text of a catalogue that a declaration uses (and that offers an alternative, i.e. has >= 2 members) is a
    unit expression over identifiers defined in pint's definition files + GEOPHIRES3_newunits.txt (read as data)."""
    import glob
    from gxstat.pintdefs import load
    repo = ctx.repo
    reg = get_registry(repo)
    cands = sorted(glob.glob('/venv/lib/python3*/site-packages/pint/default_en.txt'))
    ctx.require(cands, 'pint definition file default_en.txt not found in the repository environment (/venv)')
    own = os.path.join(repo.root, 'src', 'geophires_x', 'GEOPHIRES3_newunits.txt')
    ctx.require(os.path.exists(own), 'src/geophires_x/GEOPHIRES3_newunits.txt not found')
    defs = load([cands[0], own])
    ctx.floor('U15', len(defs.units), 500, 'unit names read from the pint definition files')
    ctx.analysed['pint_definition_files'] = [os.path.basename(f) for f in defs.files]
    ctx.analysed['pint_unit_names'] = len(defs.units)
    used: Dict[str, List] = {}
    for d in reg.decls:
        pu = d.get('PreferredUnits') or d.get('CurrentUnits')
        if isinstance(pu, EnumRef):
            used.setdefault(pu.enum, []).append(d)
    n = 0
    for enum in sorted(used):
        members = reg.enums.enums.get(enum, {})
        texts = {m: v for m, v in members.items() if isinstance(v, str)}
        if len(set(texts.values())) < 2:
            continue
        d0 = used[enum][0]
        for m, v in sorted(texts.items()):
            n += 1
            unk = defs.unknown_identifiers('percent' if v == '%' else v)
            key = f'{enum}.{m}/defined-for-pint'
            if not unk:
                ctx.ok('U15', key, d0.where, f'`{v}` resolves')
                continue
            msg = (f'catalogue unit `{v}` of {enum} (used by {len(used[enum])} declaration(s), e.g. {d0.owner}.{d0.attr}) uses '
                   f'{unk}, which neither pint nor GEOPHIRES3_newunits.txt defines: a value written in this listed unit cannot be '
                   f'converted (the input is refused; a `Units:` request falls into the legacy branch)')
            if any(c in v for c in CURRENCY_CODES_WITHOUT_RATES):
                ctx.info(f'U15 {d0.where} {key}: {msg} [currency conversion is disabled by the program and refused with that explanation]')
            else:
                ctx.bad('U15', key, d0.where, msg)
    ctx.floor('U15', n, 90, 'catalogue unit texts')


def run(ctx) -> None:
    ctx.rule('U15', 'every unit text of a used catalogue is defined in pint\'s definition files or GEOPHIRES3_newunits.txt')
    ctx.rule('U16', 'ConvertUnits returns the converted text and never stores ParamToModify.value itself')
    ctx.rule('U13', 'pint lookups inside LookupUnits cannot raise (the function returns nothing for unknown text)')
    ctx.rule('U14', 'inputs of a unit type whose label goes stale in ConvertUnits are read through .value, not .quantity()')
    ctx.rule('U12', 'outside the converters a CurrentUnits store is paired with a change of the same object\'s value')
    ctx.rule('U1', 'every unit type used by a declaration has a LookupUnits arm whose catalogue holds the declaration\'s unit texts')
    ctx.rule('U2', 'typestate value-in-CurrentUnits: ConvertUnits never leaves the user\'s unit as label of a converted value; every '
                   'Quantity built from p.value names p.CurrentUnits; a converted magnitude is relabelled in the next statement')
    ctx.rule('U3', 'a literal rescale followed by a relabel uses the conversion factor between declared and new unit')
    ctx.rule('U4', 'no value-vs-literal unit guess with its threshold inside the accepted range')
    ctx.rule('U5', 'printed values are labelled with the unit they are expressed in (C09 W1 under this property\'s id)')
    ctx.rule('U7', 'K/M prefix factor direction and multipliers in the three sibling currency blocks')
    ctx.rule('U8', 'input declarations: CurrentUnits = PreferredUnits unless frozen with a reason')
    ctx.rule('U9', 'currency per-unit suffixes are compared before a number is taken over')
    ctx.rule('U10', 'magnitudes come from pint conversions, never from hand scaling')
    ctx.rule('U11', 'ReadParameter parses the converted text it wrote back into the entry')
    check_u1(ctx)
    check_u2_convert_units(ctx)
    n = check_quantity_source_unit(ctx, 'U2')
    m = check_value_unit_pairing(ctx, 'U2')
    from rules.units_common import check_no_inplace_conversion
    m += check_no_inplace_conversion(ctx, 'U2')
    ctx.floor('U2', n + m, 4, 'Quantity(p.value, ...) sites and converted-value stores')
    check_u3(ctx)
    k = check_heuristics(ctx, 'U4')
    ctx.floor('U4', k, 5, 'magnitude heuristics')
    from rules.c09 import check_w1_w2
    check_w1_w2(Renamed(ctx, {'W1': 'U5'}), writer_templates(ctx.repo))
    check_u7(ctx)
    check_u8(ctx)
    check_u9(ctx)
    check_u10(ctx)
    check_u11(ctx)
    check_u12(ctx)
    cu = ctx.repo.module(P).functions.get('ConvertUnits')
    st16 = [st for st in ast.walk(cu.node) if isinstance(st, (ast.Assign, ast.AugAssign)) and
            any(norm(t) == 'ParamToModify.value' for t in (st.targets if isinstance(st, ast.Assign) else [st.target]))]
    ctx.check(not st16, 'U16', 'ConvertUnits/does-not-store-the-value', f'{cu.module.rel}:{st16[0].lineno if st16 else cu.node.lineno}',
              f'`{norm(st16[0])[:80] if st16 else ""}`: ConvertUnits stores the converted number itself; ReadParameter then sees "new value == '
              f'current value" and returns before the range check and before Provided is set, so the same quantity written in another unit is '
              f'treated differently from the one written in the default unit', fact='returns the converted text only')
    check_u13(ctx)
    check_u15(ctx)
    k14 = check_u14(ctx)
    ctx.floor('U14', k14, 20, '.quantity() reads of input parameters')
    ctx.rule('U17', 'a result cache in front of the reader keys on the unmodified input text: a request that differs only in a unit token is never '
                    'answered from the cache of another (C12 L5)')
    from gxstat.runner import Renamed as _Renamed
    from rules.c12 import check_l5
    check_l5(_Renamed(ctx, {'L5': 'U17'}))
    ctx.undecided('what pint parses or computes for a given unit text', 'numerical equality of a run re-expressed in other units (paired-run property)',
                  'list-valued inputs with per-element units')
    ctx.assume('a unit-suffixed input reaches ConvertUnits through ReadParameter only (C07 V3 routing)')
    ctx.exhaustive = True
