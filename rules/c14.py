"""C14 -- Monte-Carlo rows are reproducible and the statistics describe them.

Q1 column discipline (one token per requested output on every path; header and row iterate the same lists in
the same order; pass_list packing = unpacking), Q2 atomic append / no silently dropped row, Q3 statistic <->
reducer pairing and text/JSON from one dictionary, Q4 no shared mutable state between iterations, Q5 the row
records the sampled inputs that were actually simulated."""
from __future__ import annotations

import ast
import re
from typing import Dict, List, Optional, Tuple

from gxstat.flowutil import guards_of
from gxstat.srcmodel import AnalysisError, calls_in, dotted_name, norm, parent, walk_no_nested
from rules.mc_common import MC
from rules.c13 import result_row_facts

STATS = {'minimum': 'nanmin', 'maximum': 'nanmax', 'median': 'nanmedian', 'average': 'average', 'mean': 'nanmean',
         'standard deviation': 'nanstd'}


def entries_var(w) -> Optional[str]:
    """Name of the text the worker appends to the per-iteration input file (`with open(tmp, 'a') as f: f.write('\\n' + entries)`)."""
    for n in ast.walk(w.node):
        if isinstance(n, ast.With):
            for it in n.items:
                ce = it.context_expr
                if isinstance(ce, ast.Call) and dotted_name(ce.func) == 'open' and len(ce.args) >= 2 and isinstance(ce.args[1], ast.Constant) \
                        and ce.args[1].value == 'a' and isinstance(it.optional_vars, ast.Name):
                    for c in calls_in(n):
                        if isinstance(c.func, ast.Attribute) and c.func.attr == 'write' and norm(c.func.value) == it.optional_vars.id and c.args:
                            names = [x.id for x in ast.walk(c.args[0]) if isinstance(x, ast.Name)]
                            if len(names) == 1:
                                return names[0]
    return None


def check_q1(ctx) -> None:
    repo = ctx.repo
    w = repo.function(MC, 'work_package')
    main = repo.function(MC, 'main')
    # the loop over requested outputs that builds the row
    from rules.mc_common import row_var
    ROW = row_var(w)
    ctx.require(ROW is not None, 'work_package: the row handed to the locked append was not found (idiom changed)')
    loops = [n for n in ast.walk(w.node) if isinstance(n, ast.For) and
             any(isinstance(s, ast.AugAssign) and norm(s.target) == ROW for s in ast.walk(n))]
    comp_form = None
    if not loops:
        # join form: `row = ''.join(<token> + ', ' for x in <lines> [if x is not None])`
        from gxstat.inline import inline_sequential
        for st in ast.walk(w.node):
            if isinstance(st, ast.Assign) and norm(st.targets[0]) == ROW and isinstance(st.value, ast.Call) and isinstance(st.value.func, ast.Attribute) \
                    and st.value.func.attr == 'join' and st.value.args and isinstance(st.value.args[0], (ast.GeneratorExp, ast.ListComp)) \
                    and len(st.value.args[0].generators) == 1:
                comp_form = (st, st.value.args[0])
    ctx.require(len(loops) == 1 or comp_form is not None, f'work_package: expected one loop building the row, found {len(loops)}')
    loop = loops[0] if loops else comp_form[0]
    where = f'{w.module.rel}:{loop.lineno}'
    def tokens_on_paths(stmts) -> List[int]:
        """number of `result_s += ...` executions on each path through stmts (if/else forks only)."""
        paths = [0]
        for st in stmts:
            if isinstance(st, ast.AugAssign) and norm(st.target) == ROW:
                paths = [p + 1 for p in paths]
            elif isinstance(st, ast.If):
                a = tokens_on_paths(st.body)
                b = tokens_on_paths(st.orelse)
                paths = [p + x for p in paths for x in set(a) | set(b)]
            elif isinstance(st, (ast.For, ast.While)):
                if any(isinstance(s, ast.AugAssign) and norm(s.target) == ROW for s in ast.walk(st)):
                    raise AnalysisError('row tokens appended in a nested loop: unsupported idiom')
            elif isinstance(st, (ast.Continue, ast.Break)):
                return sorted(set(paths))
        return sorted(set(paths))
    counts = tokens_on_paths(loop.body) if comp_form is None else ([0, 1] if comp_form[1].generators[0].ifs else [1])
    ctx.check(counts == [1], 'Q1', 'work_package/one-token-per-output', where,
              f'a requested output contributes {counts} tokens to the row depending on the path: when its label is not '
              f'found the token is skipped and every later value shifts under the wrong header',
              fact=f'tokens per iteration on each path: {counts}')
    # row loop iterates the outputs list handed over by main, in order
    if comp_form is None:
        it = norm(loop.iter)
    else:
        # the lines the join runs over come, one per requested output and in order, from a comprehension over the outputs list
        unpacked = tuple(norm(st.target if isinstance(st, ast.AnnAssign) else st.targets[0]) for st in w.node.body
                         if isinstance(st, (ast.Assign, ast.AnnAssign)) and st.value is not None and norm(st.value).startswith('pass_list['))
        src_e = inline_sequential(comp_form[1].generators[0].iter, comp_form[0], keep=unpacked)
        it = norm(src_e.generators[0].iter) if isinstance(src_e, (ast.ListComp, ast.GeneratorExp)) and len(src_e.generators) == 1 \
            and not src_e.generators[0].ifs else norm(src_e)
    alias = {norm(st.targets[0]): norm(st.value) for st in w.node.body if isinstance(st, ast.Assign)}
    src = alias.get(it, it)
    src = alias.get(src, src)
    unpack = {norm(st.target if isinstance(st, ast.AnnAssign) else st.targets[0]): norm(st.value)
              for st in w.node.body if isinstance(st, (ast.Assign, ast.AnnAssign)) and st.value is not None
              and norm(st.value).startswith('pass_list[')}
    # main's packing
    packs = [st for st in ast.walk(main.node) if isinstance(st, ast.Assign) and norm(st.targets[0]) == 'pass_list'
             and isinstance(st.value, ast.List)]
    ctx.require(len(packs) == 1, 'main: pass_list construction not found')
    packed = [norm(e) for e in packs[0].value.elts]
    want = {'input_values': 'inputs', 'outputs': 'outputs', 'args': 'args', 'output_file': 'output_file',
            'python_path': 'python_path'}
    for local, expr in unpack.items():
        idx = int(expr[len('pass_list['):-1])
        if local in want:
            ctx.check(idx < len(packed) and packed[idx] == want[local], 'Q1', f'pass_list/{local}', f'{w.module.rel}:{w.node.lineno}',
                      f'work_package reads `{local}` from pass_list[{idx}] but main packs `{packed[idx] if idx < len(packed) else "?"}` there',
                      fact=f'{local} <- pass_list[{idx}] = {packed[idx] if idx < len(packed) else "?"}')
    ctx.check(unpack.get(src) is not None and unpack.get(src, '').startswith('pass_list[') and src == 'outputs', 'Q1',
              'work_package/row-iterates-outputs', where, f'the row loop iterates `{it}` (= {src}), not the requested outputs list')
    # header: outputs first then inputs, same order as the row (outputs..., then "(inputs)")
    # the header string is what main writes into the freshly created result file (`with open(output_file, 'w') as f: f.write(s)`)
    HDR = None
    for n in ast.walk(main.node):
        if isinstance(n, ast.With):
            for it in n.items:
                ce = it.context_expr
                if isinstance(ce, ast.Call) and dotted_name(ce.func) == 'open' and len(ce.args) >= 2 and isinstance(ce.args[1], ast.Constant) \
                        and ce.args[1].value == 'w' and isinstance(it.optional_vars, ast.Name):
                    for c in calls_in(n):
                        if isinstance(c.func, ast.Attribute) and c.func.attr == 'write' and norm(c.func.value) == it.optional_vars.id \
                                and len(c.args) == 1 and isinstance(c.args[0], ast.Name) and HDR is None:
                            HDR = c.args[0].id
    ctx.require(HDR is not None, 'main: the header line written to the new result file was not found (idiom changed)')
    hdr_loops = [n for n in main.node.body if isinstance(n, ast.For) and
                 any(isinstance(s, ast.AugAssign) and norm(s.target) == HDR for s in n.body)]
    if not hdr_loops:
        # join form: `', '.join(outputs + [v[0] for v in inputs]) + '\n'`
        from gxstat.inline import inline_sequential
        hd = [st for st in main.node.body if isinstance(st, ast.Assign) and norm(st.targets[0]) == HDR and
              any(isinstance(c, ast.Attribute) and c.attr == 'join' for c in ast.walk(st.value)) and
              not any(isinstance(x, ast.Name) and x.id == HDR for x in ast.walk(st.value))]        # later trims re-read the header itself
        ctx.require(len(hd) == 1, 'main: header is built neither by two loops nor by one join (idiom changed)')
        hv = inline_sequential(hd[0].value, hd[0])
        j = next((c for c in ast.walk(hv) if isinstance(c, ast.Call) and isinstance(c.func, ast.Attribute) and c.func.attr == 'join' and c.args), None)
        cols = j.args[0] if j is not None else None
        # `''.join(c + ', ' for c in <columns>)`: the columns are what the comprehension runs over
        if isinstance(cols, (ast.GeneratorExp, ast.ListComp)) and len(cols.generators) == 1 and not cols.generators[0].ifs:
            cols = cols.generators[0].iter
        ctx.require(isinstance(cols, ast.BinOp) and isinstance(cols.op, ast.Add),
                    'main: header is built neither by two loops nor by a join over outputs + inputs (idiom changed)')
        parts = []
        for side in (cols.left, cols.right):
            if isinstance(side, ast.Call) and dotted_name(side.func) in ('list', 'tuple') and len(side.args) == 1:
                side = side.args[0]
            if isinstance(side, ast.Name):
                parts.append(side.id)
            elif isinstance(side, (ast.ListComp, ast.GeneratorExp)) and len(side.generators) == 1 and \
                    norm(side.elt) == f'{norm(side.generators[0].target)}[0]':
                parts.append(norm(side.generators[0].iter))
            else:
                raise AnalysisError(f'main: header part `{norm(side)[:60]}` not recognised (idiom changed)')
        ctx.check(parts == ['outputs', 'inputs'], 'Q1', 'main/header-order', f'{main.module.rel}:{hd[0].lineno}',
                  f'header columns are built from {parts} (row order is outputs then inputs)')
    else:
        ctx.require(len(hdr_loops) == 2, f'main: expected two header loops, found {len(hdr_loops)}')
        ctx.check([norm(l.iter) for l in hdr_loops] == ['outputs', 'inputs'], 'Q1', 'main/header-order', f'{main.module.rel}:{hdr_loops[0].lineno}',
                  f'header columns are built from {[norm(l.iter) for l in hdr_loops]} (row order is outputs then inputs)')
    # after the loop the inputs are appended to the row: the text appended to the simulated input file (C13 M3 / Q5)
    ENT = entries_var(w)
    ctx.require(ENT is not None, 'work_package: the sampled-input text appended to the simulated input file was not found (idiom changed)')
    tail = [st for st in ast.walk(w.node) if isinstance(st, ast.AugAssign) and norm(st.target) == ROW
            and any(isinstance(x, ast.Name) and x.id == ENT for x in ast.walk(st.value))]
    ctx.check(len(tail) == 1 and tail[0].lineno > loop.lineno, 'Q1', 'work_package/inputs-after-outputs', where,
              'the sampled inputs are not appended after the output tokens')
    # value tokenisation: the value is the first token after the colon
    # (kept as a fact; the writer/reader agreement is C10)


def check_q2(ctx) -> None:
    repo = ctx.repo
    w = repo.function(MC, 'work_package')
    lock_with = result_row_facts(ctx, w)
    ctx.require(lock_with is not None, 'work_package: locked append not found')
    writes = [c for c in ast.walk(lock_with) if isinstance(c, ast.Call) and isinstance(c.func, ast.Attribute) and c.func.attr == 'write']
    ctx.check(len(writes) == 1, 'Q2', 'work_package/single-write-call', f'{w.module.rel}:{lock_with.lineno}',
              f'the row is written with {len(writes)} write calls inside the lock (a reader or a crash can see a torn row)')
    # Locker parameters: append mode
    lockers = [c for c in calls_in(w.node) if (dotted_name(c.func) or '').endswith('Locker')]
    ctx.require(len(lockers) == 1, 'work_package: Locker(...) construction not found')
    kws = {k.arg: norm(k.value) for k in lockers[0].keywords}
    ctx.check(kws.get('mode') == "'a'" and kws.get('filePath') == 'output_file', 'Q2', 'work_package/locker-append-mode',
              f'{w.module.rel}:{lockers[0].lineno}', f'Locker is opened with {kws}: not an append to the shared result file')
    # a failed acquisition must not drop the row silently
    for c in writes:
        for test, pol in guards_of(c, lock_with):
            if norm(test) in ('fd is not None', 'acquired'):
                ifn = parent(c)
                while not isinstance(ifn, ast.If):
                    ifn = parent(ifn)
                has_else = bool(ifn.orelse) and any(isinstance(x, (ast.Raise,)) or
                                                     (isinstance(x, ast.Expr) and isinstance(x.value, ast.Call) and
                                                      (dotted_name(x.value.func) or '').split('.')[-1] in ('error', 'warning', 'critical', 'exit'))
                                                     for x in ifn.orelse)
                ctx.check(has_else, 'Q2', 'work_package/lock-timeout-drops-row', f'{w.module.rel}:{ifn.lineno}',
                          'when the lock is not acquired within its time-out (`fd is None`) the finished iteration\'s row is '
                          'dropped without error: the file then has fewer rows than successful iterations')


def check_q3(ctx) -> None:
    repo = ctx.repo
    main = repo.function(MC, 'main')
    red: Dict[str, Tuple[str, str, str]] = {}
    for st in main.node.body:
        if isinstance(st, ast.Assign) and isinstance(st.value, ast.Call) and (dotted_name(st.value.func) or '').startswith('np.'):
            fn = dotted_name(st.value.func).split('.')[-1]
            if fn in STATS.values() and isinstance(st.targets[0], ast.Name):
                args = [norm(a) for a in st.value.args] + [f'{k.arg}={norm(k.value)}' for k in st.value.keywords]
                red[st.targets[0].id] = (fn, args[0] if args else '', ','.join(args[1:]))
    ctx.floor('Q3', len(red), 6, 'reducer assignments')
    datas = {d for _, d, _ in red.values()}
    ctx.require(len(datas) == 1, f'main: the reducers read {sorted(datas)} (expected one container of parsed rows)')
    DATA = next(iter(datas))
    for var, (fn, data, axis) in red.items():
        ctx.check(data == DATA and axis in ('0', 'axis=0'), 'Q3', f'main/reducer:{var}', f'{main.module.rel}:{main.node.lineno}',
                  f'{var} = np.{fn}({data}, {axis}): not a per-column reduction over the parsed rows')
    # the statistics dictionary: the one whose entries get the documented statistic names
    pairs = []
    for st in ast.walk(main.node):
        if isinstance(st, ast.Assign) and isinstance(st.targets[0], ast.Subscript):
            t = st.targets[0]
            if isinstance(t.value, ast.Subscript) and isinstance(t.value.value, ast.Name) and isinstance(t.slice, ast.Constant) \
                    and t.slice.value in STATS:
                pairs.append((t.slice.value, st.value, st, t.value.slice, t.value.value.id))            # D[label]['minimum'] = mins[i]
            elif isinstance(t.value, ast.Name) and isinstance(st.value, ast.Dict) and st.value.keys and \
                    all(isinstance(k, ast.Constant) and k.value in STATS for k in st.value.keys):
                for k, v in zip(st.value.keys, st.value.values):                         # D[label] = {'minimum': mins[i], ...}
                    pairs.append((k.value, v, st, t.slice, t.value.id))
    # stats = {'minimum': mins[i], ...}; D[label] = stats
    STAT_LOCAL = None
    for st in ast.walk(main.node):
        tg = st.targets[0] if isinstance(st, ast.Assign) and len(st.targets) == 1 else st.target if isinstance(st, ast.AnnAssign) else None
        if isinstance(tg, ast.Name) and isinstance(getattr(st, 'value', None), ast.Dict) and st.value.keys and \
                all(isinstance(k, ast.Constant) and k.value in STATS for k in st.value.keys):
            puts = [x for x in ast.walk(main.node) if isinstance(x, ast.Assign) and isinstance(x.targets[0], ast.Subscript)
                    and isinstance(x.targets[0].value, ast.Name) and isinstance(x.value, ast.Name) and x.value.id == tg.id]
            if len(puts) == 1:
                STAT_LOCAL = tg.id
                for k, v in zip(st.value.keys, st.value.values):
                    pairs.append((k.value, v, puts[0], puts[0].targets[0].slice, puts[0].targets[0].value.id))
    dicts = {p[4] for p in pairs}
    ctx.require(len(dicts) <= 1, f'main: statistics are stored in {sorted(dicts)} (expected one dictionary)')
    DICT = next(iter(dicts)) if dicts else None
    ctx.floor('Q3', len(pairs), 6, 'statistic assignments')
    seen = set()
    stat_loops = [n for n in ast.walk(main.node) if isinstance(n, ast.For) and any(s is p[2] for p in pairs for s in ast.walk(n))]
    stat_loops = [n for n in stat_loops if not any(m is not n and any(x is m for x in ast.walk(n)) for m in stat_loops)]   # innermost
    ctx.require(len(stat_loops) == 1, f'main: expected one loop filling the statistics, found {len(stat_loops)}')
    loop = stat_loops[0]
    IDX = norm(loop.target)
    for name, val, st, _lab, _d in pairs:
        key = f'main/statistic:{name}'
        where = f'{main.module.rel}:{st.lineno}'
        ok = isinstance(val, ast.Subscript) and isinstance(val.value, ast.Name) and norm(val.slice) == IDX and \
            red.get(val.value.id, ('',))[0] == STATS.get(name)
        seen.add(name)
        ctx.check(ok, 'Q3', key, where,
                  f"statistic {name!r} is filled from `{norm(val)}` (= np.{red.get(getattr(val.value, 'id', ''), ('?',))[0] if isinstance(val, ast.Subscript) else '?'}), "
                  f'expected np.{STATS.get(name)} of column {IDX}', fact=f'{name} <- {norm(val)}')
    ctx.check(seen == set(STATS), 'Q3', 'main/statistics-complete', f'{main.module.rel}:{main.node.lineno}',
              f'statistics reported: {sorted(seen)}; documented: {sorted(STATS)}')
    # the loop index ranges over outputs and the column is that index (results columns are in outputs order)
    from gxstat.inline import inline_sequential
    ctx.check(norm(loop.iter) == 'range(len(outputs))', 'Q3', 'main/statistic-loop-range',
              f'{main.module.rel}:{loop.lineno}', f'statistics loop iterates `{norm(loop.iter)}`')
    lab_ok = all(norm(inline_sequential(p[3], p[2])) == f'outputs[{IDX}]' for p in pairs)
    ctx.check(lab_ok, 'Q3', 'main/statistic-label-index',
              f'{main.module.rel}:{loop.lineno}', f'the label of a statistics block is not outputs[{IDX}] for column {IDX}')
    # text block from the same dictionary
    inner = [n for n in ast.walk(loop) if isinstance(n, ast.For) and (norm(n.iter).startswith(f'{DICT}[') or norm(n.iter) == f'{STAT_LOCAL}.items()') and norm(n.iter).endswith('.items()')]
    ctx.check(len(inner) == 1 and any(isinstance(c.func, ast.Attribute) and c.func.attr == 'write' for c in calls_in(inner[0])),
              'Q3', 'main/text-from-same-dict', f'{main.module.rel}:{loop.lineno}',
              f'the text summary is not printed from {DICT} (the dictionary that becomes the JSON)')
    dumps = [c for c in calls_in(main.node) if dotted_name(c.func) == 'json.dumps']
    ctx.check(len(dumps) == 1 and norm(dumps[0].args[0]) == DICT, 'Q3', 'main/json-from-same-dict',
              f'{main.module.rel}:{dumps[0].lineno if dumps else main.node.lineno}', f'the JSON summary is not json.dumps({DICT})')
    # no write to outputs_result between the statistics loop and the dump other than the six assignments
    other = [st for st in ast.walk(main.node) if isinstance(st, (ast.Assign, ast.AugAssign)) and
             DICT in {x.id for x in ast.walk(st.targets[0] if isinstance(st, ast.Assign) else st.target) if isinstance(x, ast.Name)} and
             st not in [p[2] for p in pairs] and not isinstance(getattr(st, 'value', None), ast.Dict)]
    other = [st for st in other if not (isinstance(st, ast.AnnAssign))]
    for st in other:
        ctx.bad('Q3', f'main/extra-write:{norm(st)[:50]}', f'{main.module.rel}:{st.lineno}',
                f'{DICT} is modified outside the six statistic assignments: text and JSON may differ')
    # rows parsed for statistics: every non-empty row, output columns only
    check_rows_container(ctx, main, DATA)


def check_rows_container(ctx, main, DATA: str = 'results') -> None:
    """The array the statistics are reduced over holds exactly the parsed rows: it starts empty and grows by one append per
    parsed line, or - when pre-allocated - is cut to the number of rows stored before the first reducer reads it."""
    rel = main.module.rel
    defs = [st for st in ast.walk(main.node) if isinstance(st, ast.Assign) and norm(st.targets[0]) == DATA]
    ctx.require(defs, f'main: no definition of `{DATA}` found (anchor vanished)')
    first = min(defs, key=lambda st: st.lineno)
    reducers = [st for st in main.node.body if isinstance(st, ast.Assign) and isinstance(st.value, ast.Call) and
                (dotted_name(st.value.func) or '').startswith('np.') and st.value.args and norm(st.value.args[0]) == DATA]
    ctx.require(reducers, f'main: no reducer over `{DATA}` found (anchor vanished)')
    first_red = min(r.lineno for r in reducers)
    appends = [c for c in calls_in(main.node) if isinstance(c.func, ast.Attribute) and c.func.attr == 'append' and norm(c.func.value) == DATA]
    stores = [st for st in ast.walk(main.node) if isinstance(st, ast.Assign) and isinstance(st.targets[0], ast.Subscript) and
              norm(st.targets[0].value) == DATA]
    empty = isinstance(first.value, ast.List) and not first.value.elts
    key = 'main/statistics-over-parsed-rows-only'
    where = f'{rel}:{first.lineno}'
    if empty and not stores and len(defs) == 1:
        from gxstat.inline import enclosing_stmt, inline_sequential
        ok = len(appends) >= 1 and all('float' in norm(inline_sequential(c.args[0], enclosing_stmt(c))) for c in appends)
        ctx.check(ok, 'Q3', key, where, f'`{DATA}` starts empty but is not filled by appending the parsed floats of each row '
                                        f'({[norm(c)[:60] for c in appends]})', fact='starts empty, one append of parsed floats per row')
        return
    # pre-allocated / indexed container: must be cut to the stored count before the reducers
    trims = [st for st in defs if st is not first and st.lineno < first_red and isinstance(st.value, ast.Subscript) and
             norm(st.value.value) == DATA and isinstance(st.value.slice, ast.Slice) and st.value.slice.lower is None and
             st.value.slice.upper is not None]
    counters = {norm(st.targets[0].slice) for st in stores}
    ok = bool(trims) and any(norm(t.value.slice.upper) in counters or norm(t.value.slice.upper).startswith('len(') is False and
                             norm(t.value.slice.upper) in {norm(a.target) for a in ast.walk(main.node) if isinstance(a, ast.AugAssign)}
                             for t in trims)
    ctx.check(ok, 'Q3', key, where,
              f'`{DATA}` is created as `{norm(first.value)[:60]}` and filled by position; it is not cut to the number of rows actually '
              f'stored before np.nanmin/... read it, so every iteration that produced no row contributes a row of filler values to the '
              f'minimum, median, mean and standard deviation', fact='pre-allocated and trimmed to the stored count')


def check_q4(ctx) -> None:
    repo = ctx.repo
    w = repo.function(MC, 'work_package')
    shared = {'pass_list'}
    for st in w.node.body:
        if isinstance(st, (ast.Assign, ast.AnnAssign)) and st.value is not None:
            v = norm(st.value)
            t = norm(st.target if isinstance(st, ast.AnnAssign) else st.targets[0])
            if v.startswith('pass_list[') or v in shared:
                shared.add(t)
    MUT = ('append', 'extend', 'insert', 'pop', 'remove', 'clear', 'update', 'sort', 'reverse', 'setdefault')
    n = 0
    for x in ast.walk(w.node):
        if isinstance(x, ast.Global):
            ctx.bad('Q4', f'work_package/global:{",".join(x.names)}', f'{w.module.rel}:{x.lineno}', 'worker rebinds module globals')
        if isinstance(x, (ast.Assign, ast.AugAssign)):
            for t in (x.targets if isinstance(x, ast.Assign) else [x.target]):
                b = t
                if isinstance(b, (ast.Subscript, ast.Attribute)):
                    while isinstance(b, (ast.Subscript, ast.Attribute)):
                        b = b.value
                    if isinstance(b, ast.Name) and b.id in shared:
                        n += 1
                        ctx.bad('Q4', f'work_package/mutates:{norm(t)[:40]}', f'{w.module.rel}:{x.lineno}',
                                f'`{norm(x)[:70]}` mutates an object shared by all iterations (pass_list is the same list for every task)')
        if isinstance(x, ast.Call) and isinstance(x.func, ast.Attribute) and x.func.attr in MUT:
            b = x.func.value
            while isinstance(b, (ast.Subscript, ast.Attribute)):
                b = b.value
            if isinstance(b, ast.Name) and b.id in shared:
                ctx.bad('Q4', f'work_package/mutates:{norm(x.func)[:40]}', f'{w.module.rel}:{x.lineno}',
                        f'`{norm(x)[:70]}` mutates an object shared by all iterations')
    ctx.ok('Q4', 'work_package/shared-objects-read-only', w.where, f'aliases of pass_list: {sorted(shared)}')
    # per-iteration temp files are uniquely named
    tmp = [st for st in w.node.body if isinstance(st, (ast.Assign, ast.AnnAssign)) and
           norm(st.target if isinstance(st, ast.AnnAssign) else st.targets[0]) == 'tmp_input_file']
    ctx.check(len(tmp) == 1 and 'uuid.uuid4()' in norm(tmp[0].value), 'Q4', 'work_package/unique-temp-input', w.where,
              'the per-iteration input file name is not unique per task: concurrent iterations overwrite each other\'s input')
    out = [st for st in w.node.body if isinstance(st, (ast.Assign, ast.AnnAssign)) and
           norm(st.target if isinstance(st, ast.AnnAssign) else st.targets[0]) == 'tmp_output_file']
    ctx.check(len(out) == 1 and 'tmp_input_file' in norm(out[0].value), 'Q4', 'work_package/unique-temp-output', w.where,
              'the per-iteration result file name is not derived from the unique input name')


def check_q5(ctx) -> None:
    """The sampled values recorded in the row are the ones appended to the simulated input file."""
    repo = ctx.repo
    w = repo.function(MC, 'work_package')
    fw = [c for c in calls_in(w.node) if isinstance(c.func, ast.Attribute) and c.func.attr == 'write' and norm(c.func.value) == 'f']
    ctx.check(len(fw) == 1 and norm(fw[0].args[0]) in ('input_file_entries', "'\\n' + input_file_entries"), 'Q5', 'work_package/simulated-input=recorded-input',
              f'{w.module.rel}:{fw[0].lineno if fw else w.node.lineno}',
              'the text appended to the simulated input file is not the same `input_file_entries` recorded in the row')
    cp = [c for c in calls_in(w.node) if dotted_name(c.func) == 'shutil.copyfile' and norm(c.args[0]) == 'args.Input_file']
    ctx.check(len(cp) == 1 and norm(cp[0].args[1]) == 'tmp_input_file' and fw and cp[0].lineno < fw[0].lineno, 'Q5',
              'work_package/base-copied-then-samples-appended', w.where,
              'the base input is not copied before the sampled values are appended (last occurrence governs)')
    # the simulated file is the temp file
    sims = [c for c in calls_in(w.node) if 'from_file_path' in [k.arg for k in c.keywords] or
            'file_path_or_params_dict' in [k.arg for k in c.keywords]]
    for c in sims:
        v = [k.value for k in c.keywords if k.arg in ('from_file_path', 'file_path_or_params_dict')][0]
        ctx.check(norm(v) == 'Path(tmp_input_file)', 'Q5', f'work_package/simulates-temp-file:{norm(c.func)}', f'{w.module.rel}:{c.lineno}',
                  f'the iteration simulates `{norm(v)}`, not the file that carries the sampled values')
    ctx.floor('Q5', len(sims), 3, 'client invocations')
    # outputs are read from this iteration's own result copy
    op = [n for n in ast.walk(w.node) if isinstance(n, ast.With) and any('open(tmp_output_file)' in norm(i.context_expr) for i in n.items)]
    ctx.check(len(op) == 1, 'Q5', 'work_package/reads-own-result', w.where, 'output values are not read from this iteration\'s own result file')


def check_q6(ctx) -> None:
    """One task per iteration: batching (chunksize > 1) makes a failing iteration abort the rest of its batch."""
    from rules.mc_common import pool_workers
    for w, sub, ctor in pool_workers(ctx.repo):
        kws = {k.arg: k.value for k in sub.keywords}
        cs = kws.get('chunksize')
        ok = cs is None or (isinstance(cs, ast.Constant) and cs.value == 1)
        ctx.check(ok, 'Q6', f'main/{norm(sub.func)}/one-task-per-iteration', f'{w.module.rel}:{sub.lineno}',
                  f'iterations are handed to the pool in batches (chunksize={norm(cs) if cs is not None else 1}): an iteration that '
                  f'raises aborts every later iteration of its batch, so successful inputs get no row',
                  fact='one pool task per iteration')
        if sub.func.attr == 'map':
            n_iter = [a for a in sub.args[1:]]
            ctx.check(len(n_iter) == 1, 'Q6', f'main/{norm(sub.func)}/single-iterable', f'{w.module.rel}:{sub.lineno}',
                      'executor.map is not called with exactly one iterable of per-iteration argument lists')


UNIQUE_SOURCES = ('TemporaryDirectory', 'mkdtemp', 'mkstemp', 'NamedTemporaryFile', 'uuid4', 'uuid1', 'token_hex')


def check_q7(ctx) -> None:
    """When the caller names no result file, the request's own default must be a location nobody else writes to: its path is built
    from a fresh unique object (TemporaryDirectory, mkdtemp, uuid ...).  Rows are appended to that file by the workers and the
    summary is computed from it, so a shared default mixes the rows of different runs."""
    repo = ctx.repo
    ci = repo.cls('MonteCarloRequest')
    init = ci.methods.get('__init__')
    ctx.require(init is not None, 'MonteCarloRequest.__init__ not found')
    rel = init.module.rel
    stores = [st for st in ast.walk(init.node) if isinstance(st, (ast.Assign, ast.AnnAssign)) and
              norm(st.targets[0] if isinstance(st, ast.Assign) else st.target) == 'self.output_file' and st.value is not None]
    defaults = [st for st in stores if norm(st.value) != 'output_file']
    ctx.floor('Q7', len(defaults), 1, 'default result locations')
    assigns = {}
    for st in ast.walk(init.node):
        if isinstance(st, (ast.Assign, ast.AnnAssign)) and st.value is not None:
            assigns.setdefault(norm(st.targets[0] if isinstance(st, ast.Assign) else st.target), []).append(st.value)
    for st in defaults:
        # transitive sources of the default path expression
        seen, todo, unique = set(), [st.value], False
        while todo:
            e = todo.pop()
            for n in ast.walk(e):
                if isinstance(n, ast.Call) and ((dotted_name(n.func) or '').split('.')[-1] in UNIQUE_SOURCES or
                                                (isinstance(n.func, ast.Attribute) and n.func.attr in UNIQUE_SOURCES)):
                    unique = True
                d = dotted_name(n) if isinstance(n, (ast.Name, ast.Attribute)) else None
                if d and d in assigns and d not in seen:
                    seen.add(d)
                    todo.extend(assigns[d])
        ctx.check(unique, 'Q7', 'MonteCarloRequest/default-result-file-unique-per-request', f'{rel}:{st.lineno}',
                  f'the default result file `{norm(st.value)[:90]}` does not derive from a per-request unique location (TemporaryDirectory, '
                  f'mkdtemp, uuid ...): two runs that omit output_file append their rows to one file, so each result contains foreign '
                  f'rows and statistics over the mixture', fact='derived from a per-request unique temporary location')


def _unpicklable_exception(cls_node: ast.ClassDef) -> Optional[str]:
    """A class deriving from an exception type whose __init__ takes more required arguments than it passes to super().__init__:
    BaseException pickles as (type, self.args), so the parent process re-creates it with fewer arguments than __init__ needs and
    fails - which breaks the whole process pool, not just the iteration that raised."""
    if not any((dotted_name(b) or '').split('.')[-1].endswith(('Error', 'Exception')) for b in cls_node.bases):
        return None
    if any(isinstance(n, ast.FunctionDef) and n.name in ('__reduce__', '__reduce_ex__', '__getnewargs__', '__getnewargs_ex__') for n in cls_node.body):
        return None
    init = next((n for n in cls_node.body if isinstance(n, ast.FunctionDef) and n.name == '__init__'), None)
    if init is None:
        return None
    nreq = len(init.args.args) - 1 - len(init.args.defaults)
    if init.args.vararg is not None:
        return None
    sup = [c for c in ast.walk(init) if isinstance(c, ast.Call) and isinstance(c.func, ast.Attribute) and c.func.attr == '__init__']
    passed = max((len(c.args) for c in sup), default=0)
    if any(any(isinstance(a, ast.Starred) for a in c.args) for c in sup):
        return None
    if nreq > passed:
        return f'__init__ needs {nreq} argument(s) but hands {passed} to the base exception (pickled args)'
    return None


def check_worker_failure_isolation(ctx) -> None:
    """Q8: "an iteration that fails affects only its own row".  (a) exception classes of the repository must survive pickling back to
    the parent (else one failing iteration breaks the pool and drops every pending iteration); (b) a self-check keeps the rule armed."""
    repo = ctx.repo
    n = 0
    mods = {f.module.rel: f.module for f in repo.all_functions()}
    for rel, mi in sorted(mods.items()):
        for node in ast.walk(mi.tree):
            if isinstance(node, ast.ClassDef) and any((dotted_name(b) or '').split('.')[-1].endswith(('Error', 'Exception')) for b in node.bases):
                n += 1
                why = _unpicklable_exception(node)
                ctx.check(why is None, 'Q8', f'{node.name}/exception-survives-pickling', f'{rel}:{node.lineno}',
                          f'exception class {node.name}: {why}; raised inside a Monte-Carlo worker it cannot be re-created in the parent process, '
                          f'the process pool is marked broken and all running and pending iterations are lost', fact='default-compatible constructor')
    # the rule matches nothing on a tree without own exception classes: keep it armed with a positive and a negative example
    pos = ast.parse("class E(RuntimeError):\n    def __init__(self, msg, extra):\n        super().__init__(msg)\n        self.extra = extra\n").body[0]
    neg = ast.parse("class E(RuntimeError):\n    def __init__(self, msg, extra=None):\n        super().__init__(msg)\n").body[0]
    ctx.require(_unpicklable_exception(pos) is not None and _unpicklable_exception(neg) is None, 'Q8 self-check failed (rule predicate broken)')
    ctx.ok('Q8', 'exception-classes/survive-pickling', 'src/', f'{n} exception classes defined in the repository; predicate self-check passed')


def check_no_digit_grouping(ctx) -> None:
    """Q9: the driver copies the token after a report label verbatim into its comma-separated row (and the client reads the first
    blank-separated token).  A format spec with a thousands separator (`,` or `_`) splits one value into two fields as soon as it
    reaches 1000: every later column of the row shifts under the wrong header."""
    repo = ctx.repo
    n = 0
    # the driver may instead normalise the token it copies: `<token>.replace(',', '')` before it is appended to the row
    w = repo.function(MC, 'work_package')
    from rules.mc_common import strips_commas, token_expressions
    toks = token_expressions(w)
    strips = all(strips_commas(v) for _, v in toks) if toks else None
    ctx.analysed['driver_strips_thousands_separators'] = strips
    for f in repo.all_functions():
        if f.name not in ('PrintOutputs', 'print_outputs_rich') and not (f.cls is not None and f.cls.name.endswith('Outputs')):
            if not f.module.rel.endswith(('hip_ra_x.py', 'HIP_RA.py')):
                continue
        specs = []
        for x in ast.walk(f.node):
            if isinstance(x, ast.FormattedValue) and x.format_spec is not None:
                specs.append((norm(x.format_spec).strip("f'\""), x))
            if isinstance(x, ast.Call) and isinstance(x.func, ast.Attribute) and x.func.attr == 'format' and isinstance(x.func.value, ast.Constant) \
                    and isinstance(x.func.value.value, str):
                for m in re.finditer(r'\{[^{}:]*:([^{}]*)\}', x.func.value.value):
                    specs.append((m.group(1), x))
        if not specs:
            continue
        n += len(specs)
        bad = [(sp, x) for sp, x in specs if re.search(r'^[^a-zA-Z%]*[,_]', sp)]
        if bad and strips is None:
            raise AnalysisError('work_package: the statement that copies a report token into the row was not found (idiom changed); cannot tell '
                                'whether thousands separators are stripped')
        if bad and strips and all(',' in sp and '_' not in sp.split('.')[0] for sp, _ in bad):
            ctx.ok('Q9', f'{f.qualname}/no-digit-grouping-in-numbers', f'{f.module.rel}:{bad[0][1].lineno}',
                   f'{len(bad)} spec(s) group digits with a comma; the driver strips commas from the token it copies')
            continue
        ctx.check(not bad, 'Q9', f'{f.qualname}/no-digit-grouping-in-numbers', f'{f.module.rel}:{bad[0][1].lineno if bad else f.node.lineno}',
                  f'format spec `{bad[0][0] if bad else ""}` prints a thousands separator: a value of 1000 or more becomes two comma-separated '
                  f'fields in the Monte-Carlo row (and two tokens for the client), shifting every later column', fact=f'{len(specs)} format specs, none groups digits')
    ctx.floor('Q9', n, 300, 'numeric format specs in the report writers')


def run(ctx) -> None:
    ctx.rule('Q6', 'each iteration is its own pool task (no chunking), so a failing iteration affects only its own row')
    ctx.rule('Q1', 'each requested output contributes exactly one token to the row on every path; header and row iterate the '
                   'same lists in the same order; pass_list packing positions equal the unpacking positions')
    ctx.rule('Q2', 'the row is appended by a single write inside the lock; a failed acquisition does not drop it silently')
    ctx.rule('Q3', 'minimum/maximum/median/average/mean/standard deviation come from nanmin/nanmax/nanmedian/average/nanmean/'
                   'nanstd over axis 0 of the parsed rows; text block and JSON come from the same dictionary')
    ctx.rule('Q4', 'iterations share no mutable state: the task never mutates objects reachable from the shared pass_list and '
                   'uses uniquely named temp files')
    ctx.rule('Q5', 'the sampled values recorded in the row are the ones appended to the file that is simulated')
    ctx.rule('Q7', 'the default result file of a request is unique to it (rows of different runs never share a file by default)')
    ctx.rule('Q11', 'the input an iteration simulates is read from the files as they are when the run is made: no function of the Monte-Carlo '
                    'driver or the clients that reads a file is memoised (a row of a later run would record values simulated on an earlier '
                    'version of the base input and could not be reproduced from the inputs of its own run) (C08 P2)')
    from gxstat.runner import Renamed as _Ren
    from rules.c08 import check_p2 as _check_p2
    n0_ = len(ctx.obligations)
    _check_p2(_Ren(ctx, {'P2': 'Q11'}, key_filter=lambda k: k.endswith('/memoised')))
    mc_mem = [o for o in ctx.obligations[n0_:]]
    # only the driver and client packages belong to this property
    keep = []
    for o in mc_mem:
        if any(seg in o['where'] for seg in ('geophires_monte_carlo/', 'geophires_x_client/', 'hip_ra/__init__', 'hip_ra_x/__init__')):
            keep.append(o)
    del ctx.obligations[n0_:]
    ctx.obligations.extend(keep)
    if not keep:
        ctx.ok('Q11', 'driver-and-clients/no-memoised-function', 'src/geophires_monte_carlo/', 'no memoised function in the driver or the clients')
    check_q1(ctx)
    check_q7(ctx)
    ctx.rule('Q8', 'exception classes defined in the repository survive pickling from a worker to the parent (a failing iteration does not break the pool)')
    ctx.rule('Q9', 'a thousands separator never reaches the comma-separated row: no writer groups digits, or the driver strips the commas from the token it copies')
    ctx.rule('Q10', 'client wrappers restore process-wide state (cwd, argv, stdout) in a finally: a failing iteration leaves the worker usable (C08 P1)')
    check_worker_failure_isolation(ctx)
    check_no_digit_grouping(ctx)
    from gxstat.runner import Renamed
    from rules.c08 import check_p1
    check_p1(Renamed(ctx, {'P1': 'Q10'}, key_filter=lambda k: True))
    check_q2(ctx)
    check_q3(ctx)
    check_q4(ctx)
    check_q5(ctx)
    check_q6(ctx)
    ctx.undecided('re-simulating a row reproduces its values (needs execution)', 'pylocker behaviour under contention',
                  'numpy reducer numerics')
