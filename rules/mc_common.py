"""Shared extraction for the Monte-Carlo driver rules (C13, C14)."""
from __future__ import annotations

import ast
from typing import Dict, List, Optional, Tuple

from gxstat.srcmodel import AnalysisError, FuncInfo, calls_in, dotted_name, norm, parent, walk_no_nested

MC = 'geophires_monte_carlo/MC_GeoPHIRES3.py'


def pool_workers(repo) -> List[Tuple[FuncInfo, ast.Call, ast.Call]]:
    """(worker function, submit/map call, executor ctor call) for every ProcessPoolExecutor use in the MC module."""
    mi = repo.module(MC)
    out = []
    for f in list(mi.functions.values()):
        execs: Dict[str, ast.Call] = {}
        for n in ast.walk(f.node):
            if isinstance(n, ast.With):
                for it in n.items:
                    if isinstance(it.context_expr, ast.Call) and (dotted_name(it.context_expr.func) or '').endswith('ProcessPoolExecutor') \
                            and isinstance(it.optional_vars, ast.Name):
                        execs[it.optional_vars.id] = it.context_expr
            if isinstance(n, ast.Assign) and isinstance(n.value, ast.Call) and \
                    (dotted_name(n.value.func) or '').endswith('ProcessPoolExecutor') and isinstance(n.targets[0], ast.Name):
                execs[n.targets[0].id] = n.value
        for c in calls_in(f.node):
            if isinstance(c.func, ast.Attribute) and c.func.attr in ('map', 'submit') and isinstance(c.func.value, ast.Name) \
                    and c.func.value.id in execs and c.args and isinstance(c.args[0], ast.Name):
                w = mi.functions.get(c.args[0].id)
                if w is None:
                    raise AnalysisError(f'pool callable {c.args[0].id} is not a function of {MC}')
                out.append((w, c, execs[c.func.value.id]))
    return out


def top_level_index(fn: ast.AST, node: ast.AST) -> Optional[int]:
    """Index of the top-level statement of fn.body that contains node, or None."""
    for i, st in enumerate(fn.body):
        if st is node or any(x is node for x in ast.walk(st)):
            return i
    return None


def is_unconditional_top(fn: ast.AST, node: ast.AST) -> bool:
    """node is (inside) an expression statement that sits directly in fn.body (no if/loop/try around it)."""
    st = node
    while st is not None and not isinstance(st, ast.stmt):
        st = parent(st)
    return st is not None and any(st is s for s in fn.body)


def lock_with_of(w) -> Optional[ast.With]:
    """The `with <Locker(...)> as r:` block of the worker (the lock object may be bound to any local name)."""
    lockers = {st.targets[0].id for st in ast.walk(w.node) if isinstance(st, ast.Assign) and isinstance(st.value, ast.Call)
               and (dotted_name(st.value.func) or '').split('.')[-1] == 'Locker' and isinstance(st.targets[0], ast.Name)}
    found = None
    for n in ast.walk(w.node):
        if isinstance(n, ast.With):
            for it in n.items:
                src = norm(it.context_expr)
                if src in lockers or 'Locker(' in src:
                    found = n
    return found


def row_var(w) -> Optional[str]:
    """Name of the string the worker appends to the shared result file: the argument of the write on the handle the lock yields."""
    lw = lock_with_of(w)
    if lw is None:
        return None
    names = {x.id for c in ast.walk(lw) if isinstance(c, ast.Call) and isinstance(c.func, ast.Attribute)
             and c.func.attr in ('write', 'writelines') for a in c.args for x in ast.walk(a) if isinstance(x, ast.Name)}
    return next(iter(names)) if len(names) == 1 else None


def token_expressions(w) -> List[Tuple[ast.AugAssign, ast.AST]]:
    """(statement, value) for every `row += <value>` inside a loop of the worker, the value composed over the straight-line code before
    it (`s = line.split(':'); s = s[1].strip(); ...; row += s + ', '` reads as one expression)."""
    from gxstat.inline import inline_sequential
    rv = row_var(w)
    out = []
    if rv is None:
        return out
    for lp in ast.walk(w.node):
        if isinstance(lp, ast.For):
            for st in ast.walk(lp):
                if isinstance(st, ast.AugAssign) and isinstance(st.target, ast.Name) and st.target.id == rv and not any(st is x for x, _ in out):
                    out.append((st, inline_sequential(st.value, st)))
    if not out:
        # join form: `row = ''.join(<token expr> for line in lines ...)`; helpers defined inside the worker are read through
        from gxstat.inline import inline_simple_calls
        local_fns = {n.name: n for n in ast.walk(w.node) if isinstance(n, ast.FunctionDef) and n is not w.node}
        for st in ast.walk(w.node):
            if isinstance(st, ast.Assign) and norm(st.targets[0]) == rv and isinstance(st.value, ast.Call) and isinstance(st.value.func, ast.Attribute) \
                    and st.value.func.attr == 'join' and st.value.args and isinstance(st.value.args[0], (ast.GeneratorExp, ast.ListComp)):
                out.append((st, inline_simple_calls(st.value.args[0].elt, local_fns)))
    return out


def strips_commas(expr: ast.AST) -> bool:
    """The copied token goes through `.replace(',', '')` on its way into the row (somewhere along its method/subscript chain)."""
    e = expr
    if isinstance(e, ast.BinOp) and isinstance(e.op, ast.Add):        # `<token> + ', '`
        e = e.left
    while isinstance(e, (ast.Call, ast.Subscript, ast.Attribute)):
        if isinstance(e, ast.Call):
            if isinstance(e.func, ast.Attribute) and e.func.attr == 'replace' and len(e.args) >= 2 and \
                    isinstance(e.args[0], ast.Constant) and e.args[0].value == ',' and isinstance(e.args[1], ast.Constant) and e.args[1].value == '':
                return True
            e = e.func
        else:
            e = e.value
    return False
