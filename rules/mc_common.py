"""Shared extraction for the Monte-Carlo driver rules (C13, C14)."""
from __future__ import annotations

import ast
from typing import Dict, List, Optional, Tuple

from gxstat.srcmodel import AnalysisError, FuncInfo, calls_in, dotted_name, norm, parent, walk_no_nested

MC = 'geophires_monte_carlo/MC_GeoPHIRES3.py'


def pool_workers(repo) -> List[Tuple[FuncInfo, ast.Call, ast.Call]]:
    """(worker function, submit/map call, executor ctor call) for every ProcessPoolExecutor use in the MC module."""
    mi = repo.module(MC)
    out = []
    for f in list(mi.functions.values()):
        execs: Dict[str, ast.Call] = {}
        for n in ast.walk(f.node):
            if isinstance(n, ast.With):
                for it in n.items:
                    if isinstance(it.context_expr, ast.Call) and (dotted_name(it.context_expr.func) or '').endswith('ProcessPoolExecutor') \
                            and isinstance(it.optional_vars, ast.Name):
                        execs[it.optional_vars.id] = it.context_expr
            if isinstance(n, ast.Assign) and isinstance(n.value, ast.Call) and \
                    (dotted_name(n.value.func) or '').endswith('ProcessPoolExecutor') and isinstance(n.targets[0], ast.Name):
                execs[n.targets[0].id] = n.value
        for c in calls_in(f.node):
            if isinstance(c.func, ast.Attribute) and c.func.attr in ('map', 'submit') and isinstance(c.func.value, ast.Name) \
                    and c.func.value.id in execs and c.args and isinstance(c.args[0], ast.Name):
                w = mi.functions.get(c.args[0].id)
                if w is None:
                    raise AnalysisError(f'pool callable {c.args[0].id} is not a function of {MC}')
                out.append((w, c, execs[c.func.value.id]))
    return out


def top_level_index(fn: ast.AST, node: ast.AST) -> Optional[int]:
    """Index of the top-level statement of fn.body that contains node, or None."""
    for i, st in enumerate(fn.body):
        if st is node or any(x is node for x in ast.walk(st)):
            return i
    return None


def is_unconditional_top(fn: ast.AST, node: ast.AST) -> bool:
    """node is (inside) an expression statement that sits directly in fn.body (no if/loop/try around it)."""
    st = node
    while st is not None and not isinstance(st, ast.stmt):
        st = parent(st)
    return st is not None and any(st is s for s in fn.body)
