"""Rules shared by the properties that reach through the client packages (C08, C17, C20 ...)."""
from __future__ import annotations

import ast
from typing import List

from gxstat.srcmodel import AnalysisError, calls_in, dotted_name, norm

CLIENT_PACKAGES = ('src/geophires_x_client/', 'src/hip_ra/__init__.py', 'src/hip_ra_x/__init__.py', 'src/geophires_monte_carlo/__init__.py')
CONTENT_READS = ('as_text', 'read', 'read_text', 'readlines', 'read_bytes')


def check_any_client_cache(ctx, rule: str, only_prefixes=None) -> int:
    """Every result cache of a client class (a `self._cache[...]` / `*_cache[...]` subscript) is keyed by an expression that reads the
    request's content; a key made of the input file's path or name alone returns a stale result once the file is rewritten."""
    repo = ctx.repo
    n = 0
    for f in repo.all_functions():
        if not any(f.module.rel.startswith(p) or f.module.rel == p for p in (only_prefixes or CLIENT_PACKAGES)):
            continue
        subs = [x for x in ast.walk(f.node) if isinstance(x, ast.Subscript) and norm(x.value).endswith('_cache') and norm(x.value).startswith('self.')]
        if not subs:
            continue
        n += 1
        keys = {norm(x.slice) for x in subs}
        for k in sorted(keys):
            exprs: List[ast.AST] = []
            if k.isidentifier():
                exprs = [st.value for st in ast.walk(f.node) if isinstance(st, ast.Assign) and norm(st.targets[0]) == k]
                if not exprs:
                    raise AnalysisError(f'{f.qualname}: cache key `{k}` is not assigned in the function (idiom changed)')
            else:
                exprs = [x.slice for x in subs if norm(x.slice) == k]
            content = False
            todo = list(exprs)
            seen = set()
            while todo:
                e = todo.pop()
                for c in ast.walk(e):
                    if isinstance(c, ast.Call) and isinstance(c.func, ast.Attribute) and c.func.attr in CONTENT_READS:
                        content = True
                    if isinstance(c, ast.Name) and c.id not in seen:
                        seen.add(c.id)
                        todo.extend(st.value for st in ast.walk(f.node) if isinstance(st, ast.Assign) and norm(st.targets[0]) == c.id)
                    # hash(obj) of a request object: look into its __hash__
                    if isinstance(c, ast.Call) and dotted_name(c.func) == 'hash' and c.args and isinstance(c.args[0], ast.Name):
                        for ci in repo.classes.get('GeophiresInputParameters', []) + repo.classes.get('HipRaInputParameters', []):
                            h = ci.methods.get('__hash__')
                            if h is not None and all(any(isinstance(z, ast.Call) and isinstance(z.func, ast.Attribute) and z.func.attr in CONTENT_READS
                                                         for z in ast.walk(r.value)) for r in ast.walk(h.node) if isinstance(r, ast.Return) and r.value is not None):
                                content = True
            ctx.check(content, rule, f'{f.qualname}/cache-key:{k[:40]}/covers-request-content', f.where,
                      f'the result cache of {f.qualname} is keyed by `{norm(exprs[0])[:70]}`, which does not read the request\'s content: after the '
                      f'input file is rewritten in place (a parameter sweep) the first result is returned for every later request',
                      fact='key reads the request text')
    return n


def check_lossless_rendering(ctx, rule: str) -> int:
    """The clients turn a dictionary of parameters into input-file lines.  The value text must be `str(value)` (round-trips every
    float): rounding or a fixed-precision format makes the dictionary request differ from the same values written in a file."""
    repo = ctx.repo
    n = 0
    for f in repo.all_functions():
        if not any(f.module.rel.startswith(p) or f.module.rel == p for p in CLIENT_PACKAGES):
            continue
        from gxstat.inline import loops_to_comprehensions
        from gxstat.srcmodel import parent
        fnode = loops_to_comprehensions(f.node)          # a list built by loop-append reads as the comprehension it is
        # f-string spelling of a parameter line: f'{name!s}, {value!s}\n' in a comprehension over `.items()`
        for comp_ in [x for x in ast.walk(fnode) if isinstance(x, (ast.ListComp, ast.GeneratorExp)) and isinstance(x.elt, ast.JoinedStr)
                      and any('items()' in norm(g_.iter) for g_ in x.generators)]:
            fvs = [v for v in comp_.elt.values if isinstance(v, ast.FormattedValue)]
            lits = ''.join(v.value for v in comp_.elt.values if isinstance(v, ast.Constant) and isinstance(v.value, str))
            if len(fvs) < 2 or ',' not in lits:
                continue
            n += 1
            key = f'{f.qualname}/parameter-values-rendered-losslessly'
            where = f'{f.module.rel}:{comp_.lineno}'
            lossless = all(v.format_spec is None and v.conversion in (-1, 115, 114) and isinstance(v.value, ast.Name) for v in fvs)
            lossy = any(v.format_spec is not None for v in fvs) or any(isinstance(x, ast.Call) and dotted_name(x.func) in ('round', 'format', 'np.round')
                                                                       for v in fvs for x in ast.walk(v.value))
            if lossless:
                ctx.ok(rule, key, where, norm(comp_.elt)[:60])
            elif lossy:
                ctx.bad(rule, key, where,
                        f'parameter values are written to the input file through `{norm(comp_.elt)[:60]}`, which rounds / formats floats: a dictionary '
                        f'request no longer carries the values given (0.00125 becomes 0.0013) and disagrees with the same inputs written in a file')
            else:
                raise AnalysisError(f'{f.qualname}: value rendering `{norm(comp_.elt)[:60]}` not recognised (cannot decide)')
        for c in calls_in(fnode):
            if not (isinstance(c.func, ast.Attribute) and c.func.attr == 'join' and isinstance(c.func.value, ast.Constant) and
                    isinstance(c.func.value.value, str) and ',' in c.func.value.value and c.args):
                continue
            comp = c.args[0]
            if isinstance(comp, ast.Call) and dotted_name(comp.func) == 'map' and len(comp.args) == 2 and isinstance(comp.args[1], ast.Name):
                # `', '.join(map(str, item))` for the pair variable of a comprehension over `.items()`
                q = parent(c)
                inside = False
                while q is not None and q is not fnode:
                    if isinstance(q, (ast.ListComp, ast.GeneratorExp)) and any('items()' in norm(g_.iter) and norm(g_.target) == comp.args[1].id for g_ in q.generators):
                        inside = True
                    q = parent(q)
                if inside:
                    n += 1
                    fn_ = dotted_name(comp.args[0]) or norm(comp.args[0])
                    key = f'{f.qualname}/parameter-values-rendered-losslessly'
                    where = f'{f.module.rel}:{c.lineno}'
                    if fn_ in ('str', 'repr'):
                        ctx.ok(rule, key, where, norm(comp)[:60])
                    else:
                        raise AnalysisError(f'{f.qualname}: value rendering `{norm(comp)[:60]}` not recognised (cannot decide)')
                    continue
            if isinstance(comp, (ast.Tuple, ast.List)) and comp.elts:
                # `', '.join((str(name), str(value)))` inside a comprehension over `.items()`: the elements are spelled out
                q = parent(c)
                enclosing = None
                while q is not None and q is not fnode:
                    if isinstance(q, (ast.ListComp, ast.GeneratorExp)) and any('items()' in norm(g_.iter) for g_ in q.generators):
                        enclosing = q
                        break
                    q = parent(q)
                if enclosing is None:
                    continue
                n += 1
                key = f'{f.qualname}/parameter-values-rendered-losslessly'
                where = f'{f.module.rel}:{c.lineno}'
                oks = [isinstance(e, ast.Name) or (isinstance(e, ast.Call) and dotted_name(e.func) in ('str', 'repr') and len(e.args) == 1
                                                    and isinstance(e.args[0], ast.Name)) for e in comp.elts]
                lossy = any(isinstance(x, ast.Call) and dotted_name(x.func) in ('round', 'format', 'np.round') for e in comp.elts for x in ast.walk(e)) or \
                    any(isinstance(x, ast.FormattedValue) and x.format_spec is not None for e in comp.elts for x in ast.walk(e))
                if all(oks):
                    ctx.ok(rule, key, where, norm(comp)[:60])
                elif lossy:
                    ctx.bad(rule, key, where,
                            f'parameter values are written to the input file through `{norm(comp)[:60]}`, which rounds / formats floats: a dictionary '
                            f'request no longer carries the values given (0.00125 becomes 0.0013) and disagrees with the same inputs written in a file')
                else:
                    raise AnalysisError(f'{f.qualname}: value rendering `{norm(comp)[:60]}` not recognised (cannot decide)')
                continue
            if not isinstance(comp, (ast.ListComp, ast.GeneratorExp)):
                continue

            def over_items(g) -> bool:
                if 'items()' in norm(g.iter) or 'param' in norm(g.iter):
                    return True
                # the pair variable of an enclosing comprehension / loop over `.items()`
                if isinstance(g.iter, ast.Name):
                    q = parent(c)
                    while q is not None and q is not fnode:
                        for og in (q.generators if isinstance(q, (ast.ListComp, ast.GeneratorExp, ast.SetComp)) else [q] if isinstance(q, ast.For) else []):
                            if norm(og.target) == g.iter.id and 'items()' in norm(og.iter):
                                return True
                        q = parent(q)
                return False
            if not any(over_items(g) for g in comp.generators):
                continue
            n += 1
            elt = comp.elt
            txt = norm(elt)
            var = norm(comp.generators[0].target)
            ok = txt == f'str({var})' or txt == f'repr({var})' or txt == var
            lossy = any(isinstance(x, ast.Call) and dotted_name(x.func) in ('round', 'format', 'np.round') for x in ast.walk(elt)) or \
                isinstance(elt, ast.JoinedStr) and any(isinstance(v, ast.FormattedValue) and v.format_spec is not None for v in elt.values)
            helper = None
            if isinstance(elt, ast.Call) and isinstance(elt.func, ast.Name) and not ok:
                # a local helper: look inside
                for d in ast.walk(f.node):
                    if isinstance(d, ast.FunctionDef) and d.name == elt.func.id:
                        helper = d
                        lossy = lossy or any(isinstance(x, ast.Call) and dotted_name(x.func) in ('round', 'format', 'np.round') for x in ast.walk(d)) or \
                            any(isinstance(x, ast.FormattedValue) and x.format_spec is not None for x in ast.walk(d))
            key = f'{f.qualname}/parameter-values-rendered-losslessly'
            where = f'{f.module.rel}:{c.lineno}'
            if ok:
                ctx.ok(rule, key, where, txt)
            elif lossy:
                ctx.bad(rule, key, where,
                        f'parameter values are written to the input file through `{txt[:60]}`{" (helper " + helper.name + ")" if helper else ""}, which '
                        f'rounds / formats floats: a dictionary request no longer carries the values given (0.00125 becomes 0.0013) and disagrees '
                        f'with the same inputs written in a file')
            else:
                raise AnalysisError(f'{f.qualname}: value rendering `{txt[:60]}` not recognised (cannot decide)')
    return n
