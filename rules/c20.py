"""C20 -- all entry points give the same answer.

N1 single pipeline (Model -> read_parameters -> Calculate -> PrintOutputs -> JSON) performed only by
GEOPHIRESv3.main and reached by CLI, client and the Monte-Carlo driver; N2 exit status of `python -m geophires_x`
is non-zero on every failing path; N3 argv[1]/argv[2] handed to the simulator are absolute paths and the JSON
path is derived from the report path."""
from __future__ import annotations

import ast
from typing import List, Optional

from gxstat.callgraph import get_callgraph
from gxstat.flowutil import guards_of, handler_catches, handler_reraises
from gxstat.srcmodel import AnalysisError, calls_in, dotted_name, norm, parent, walk_no_nested


def _nonzero_expr(v: ast.AST) -> Optional[bool]:
    """True: provably non-zero int; False: may be 0/None; None: cannot tell."""
    if isinstance(v, ast.Constant):
        return isinstance(v.value, int) and not isinstance(v.value, bool) and v.value != 0
    if isinstance(v, ast.UnaryOp) and isinstance(v.op, ast.USub):
        return _nonzero_expr(v.operand)
    if isinstance(v, ast.IfExp):
        els = _nonzero_expr(v.orelse)
        body = _nonzero_expr(v.body)
        if body is None or body is False:
            bt = norm(v.body)
            conj = v.test.values if isinstance(v.test, ast.BoolOp) and isinstance(v.test.op, ast.And) else [v.test]
            if any(norm(c) in (f'{bt} != 0', f'0 != {bt}') for c in conj) and \
                    any(norm(c) == f'isinstance({bt}, int)' for c in conj):
                body = True
        if els and body:
            return True
        if els is False or body is False:
            return False
        return None
    if isinstance(v, ast.BoolOp) and isinstance(v.op, ast.Or):
        return True if _nonzero_expr(v.values[-1]) else None
    if isinstance(v, (ast.Name, ast.Attribute)):
        return False if norm(v).endswith('.code') else None
    return None


def check_n1(ctx) -> None:
    repo = ctx.repo
    cg = get_callgraph(repo)
    main = repo.function('geophires_x/GEOPHIRESv3.py', 'main')
    # order of the pipeline inside main, all at top level and unconditional
    steps = {'ctor': None, 'read_parameters': None, 'Calculate': None, 'PrintOutputs': None, 'json': None}
    for st in main.node.body:
        for c in calls_in(st):
            d = dotted_name(c.func) or ''
            last = d.split('.')[-1]
            if last == 'Model' and steps['ctor'] is None:
                steps['ctor'] = (st, c)
            elif d == 'model.read_parameters':
                steps['read_parameters'] = (st, c)
            elif d == 'model.Calculate':
                steps['Calculate'] = (st, c)
            elif d == 'model.outputs.PrintOutputs':
                steps['PrintOutputs'] = (st, c)
            elif last == 'write' and any('json' in norm(a) for a in c.args):
                steps['json'] = (st, c)
    missing = [k for k, v in steps.items() if v is None]
    ctx.require(not missing, f'GEOPHIRESv3.main: pipeline steps not found at top level: {missing}')
    order = [steps[k][0].lineno for k in ('ctor', 'read_parameters', 'Calculate', 'PrintOutputs', 'json')]
    ctx.check(order == sorted(order), 'N1', 'GEOPHIRESv3.main/pipeline-order', main.where,
              f'pipeline steps are out of order (lines {order})',
              fact='Model() < read_parameters < Calculate < PrintOutputs < JSON')
    for k in ('ctor', 'read_parameters', 'Calculate', 'PrintOutputs'):
        st, c = steps[k]
        g = guards_of(c, main.node)
        ctx.check(not g and st in main.node.body, 'N1', f'GEOPHIRESv3.main/{k}-unconditional',
                  f'{main.module.rel}:{c.lineno}', f'step {k} is conditional on `{norm(g[0][0]) if g else "?"}`')
    # the JSON is written to a path derived from argv[2] (N3) -- and after PrintOutputs
    # no second pipeline anywhere else
    n_sites = 0
    for f in cg.funcs:
        if f is main:
            continue
        if f.module.rel.startswith('src/hip_ra'):
            continue
        has_ctor = any((dotted_name(c.func) or '').split('.')[-1] == 'Model' for c in calls_in(f.node))
        calc = [c for c in calls_in(f.node) if isinstance(c.func, ast.Attribute) and c.func.attr in ('Calculate', 'PrintOutputs')
                and (dotted_name(c.func) or '').split('.')[0] not in ('self', 'super') and
                not (dotted_name(c.func) or '').startswith('model.')]
        po = [c for c in calls_in(f.node) if (dotted_name(c.func) or '').split('.')[-2:] == ['outputs', 'PrintOutputs']]
        if has_ctor:
            n_sites += 1
            bad = [c for c in calls_in(f.node) if isinstance(c.func, ast.Attribute) and c.func.attr in ('Calculate', 'PrintOutputs')]
            ctx.check(not bad, 'N1', f'{f.qualname}/second-pipeline', f.where,
                      f'{f.qualname} builds a Model and calls {norm(bad[0].func) if bad else ""}: a second copy of the '
                      f'simulation pipeline that can diverge from GEOPHIRESv3.main', fact='constructs Model only')
        if po:
            ctx.bad('N1', f'{f.qualname}/prints-report', f'{f.module.rel}:{po[0].lineno}',
                    'the case report is produced outside GEOPHIRESv3.main')
    # the three entry points reach main
    def reaches_main(fi) -> bool:
        return cg.reaches(fi, lambda g: g is main) is not None

    client = repo.method('GeophiresXClient', 'get_geophires_result')
    ctx.check(any(t is main for c in calls_in(client.node) for t in cg.call_targets(c, client)), 'N1',
              'GeophiresXClient.get_geophires_result/calls-main', client.where,
              'the client does not run the simulation through GEOPHIRESv3.main')
    mm = repo.module('geophires_x/__main__.py')
    ctx.check(any(t is main for (c, ts, how) in cg.module_edges[mm.rel] for t in ts), 'N1', '__main__/calls-main',
              f'{mm.rel}:1', 'python -m geophires_x does not run GEOPHIRESv3.main')
    wp = repo.function('geophires_monte_carlo/MC_GeoPHIRES3.py', 'work_package')
    arm_ok = False
    for n in ast.walk(wp.node):
        if isinstance(n, ast.If) and 'GEOPHIRESv3.py' in norm(n.test):
            arm_ok = any(t is client for st in n.body for c in calls_in(st) for t in cg.call_targets(c, wp))
    ctx.check(arm_ok, 'N1', 'MC.work_package/geophires-arm-uses-client', wp.where,
              'the Monte-Carlo GEOPHIRES arm does not run iterations through GeophiresXClient.get_geophires_result')
    ctx.analysed['model_constructing_functions_outside_main'] = n_sites


def check_n2(ctx) -> None:
    repo = ctx.repo
    cg = get_callgraph(repo)
    mm = repo.module('geophires_x/__main__.py')
    main = repo.function('geophires_x/GEOPHIRESv3.py', 'main')
    tries = [st for st in mm.tree.body if isinstance(st, ast.Try)]
    # a try that is the body of a top-level `with <restoring context manager>:` is as good as a top-level try
    tries += [s_ for st in mm.tree.body if isinstance(st, ast.With) for s_ in st.body if isinstance(s_, ast.Try)]
    call_try = None
    for tr in tries:
        for st in tr.body:
            for c in calls_in(st):
                if dotted_name(c.func) in ('geophires.main', 'GEOPHIRESv3.main', 'main'):
                    call_try = (tr, st, c)
    if call_try is None:
        # call not in a try: then the status is whatever SystemExit carries / traceback => check exits reachable
        handler = None
        tr = None
    else:
        tr, call_st, call = call_try
        handler = [h for h in tr.handlers if handler_catches(h, ('SystemExit',)) and h.type is not None
                   and 'SystemExit' in norm(h.type) or (h.type is None) or
                   (h.type is not None and 'BaseException' in norm(h.type))]
    where = f'{mm.rel}:{tr.lineno if tr else 1}'
    # status discipline: the status variable is what the module finally exits with (`sys.exit(rc)` / `raise SystemExit(rc)`)
    exits = [c for c in ast.walk(mm.tree) if isinstance(c, ast.Call) and dotted_name(c.func) in ('sys.exit', 'exit', 'os._exit')]
    raises = [r.exc for r in ast.walk(mm.tree) if isinstance(r, ast.Raise) and isinstance(r.exc, ast.Call) and dotted_name(r.exc.func) == 'SystemExit']
    finals = [c for c in exits + raises if any(c is x for st in mm.tree.body for x in ast.walk(st) if not isinstance(st, (ast.FunctionDef, ast.ClassDef)))]
    names = {c.args[0].id for c in finals if len(c.args) == 1 and isinstance(c.args[0], ast.Name)}
    RC = next(iter(names)) if len(names) == 1 else None
    for c in finals:
        if not c.args or isinstance(c.args[0], ast.Constant):
            ctx.bad('N2', '__main__/exits-with-rc', f'{mm.rel}:{c.lineno}', f'the module ends with the constant status `{norm(c)}`, whatever the '
                                                                          f'simulation did')

    def _guarded_nonzero(st: ast.Assign, scope: ast.AST) -> bool:
        """`rc = X` under a guard that contains `isinstance(X, int) and X != 0`."""
        vt = norm(st.value)
        lits = []
        for t, pol in guards_of(st, scope):
            if pol:
                lits.extend([norm(x) for x in (t.values if isinstance(t, ast.BoolOp) and isinstance(t.op, ast.And) else [t])])
        return (f'{vt} != 0' in lits or f'0 != {vt}' in lits) and f'isinstance({vt}, int)' in lits

    rc_assigns = [(st, st.value) for st in ast.walk(mm.tree) if isinstance(st, ast.Assign) and RC is not None and norm(st.targets[0]) == RC]
    if rc_assigns:
        ctx.require(tr is not None, '__main__: status variable present but simulation call not inside try (idiom changed)')
        init = [v for st, v in rc_assigns if st in mm.tree.body and st.lineno < tr.lineno]

        def assigns_rc(stmts) -> bool:
            return any(isinstance(x, ast.Assign) and norm(x.targets[0]) == RC for s_ in stmts for x in ast.walk(s_))
        # paths that reach the final exit: the body completing (+ else), and every handler that does not re-raise.  When each of them sets
        # the status itself no initial value is needed (any other exception propagates and never reaches the exit)
        from gxstat.flowutil import handler_reraises as _hr
        need_init = not assigns_rc(list(tr.body) + list(tr.orelse)) or any(not _hr(h) and not assigns_rc(h.body) for h in tr.handlers)
        if need_init or init:
            ctx.check(bool(init) and all(_nonzero_expr(v) for v in init), 'N2', '__main__/rc-initially-nonzero', where,
                      f'{RC} is not initialised to a non-zero status before the simulation runs: an exception path that '
                      f'reaches the final exit would report success')
        else:
            ctx.ok('N2', '__main__/rc-initially-nonzero', where, f'every path that reaches the final exit sets {RC} itself')
        zero = [st for st, v in rc_assigns if _nonzero_expr(v) is False and isinstance(v, ast.Constant)]
        for st in zero:
            in_body_after = (any(st is s for s in tr.body) and st.lineno > call.lineno) or any(st is s for s in tr.orelse)
            ctx.check(in_body_after, 'N2', '__main__/rc-zero-only-after-main', f'{mm.rel}:{st.lineno}',
                      f'`{RC} = 0` is not placed in the try body after geophires.main() returns (or in the try\'s else)')
        ctx.ok('N2', '__main__/exits-with-rc', where, f'the module ends with {norm(finals[0])}')
        for h in tr.handlers:
            for st in ast.walk(h):
                if isinstance(st, ast.Assign) and norm(st.targets[0]) == RC:
                    nz = _nonzero_expr(st.value)
                    if not nz and _guarded_nonzero(st, h):
                        nz = True
                    if nz is None:
                        raise AnalysisError(f'__main__: cannot decide whether `{norm(st)}` is non-zero')
                    ctx.check(nz, 'N2', '__main__/handler-status-nonzero', f'{mm.rel}:{st.lineno}',
                              f'`{norm(st)}` can set a zero status on a failing path')
            if handler_catches(h, ('Exception', 'ValueError', 'RuntimeError')) and not handler_reraises(h):
                sets = any(isinstance(st, ast.Assign) and norm(st.targets[0]) == RC for st in ast.walk(h))
                ctx.check(sets, 'N2', '__main__/handler-swallows-failure', f'{mm.rel}:{h.lineno}',
                          'a handler around the simulation swallows the failure without setting a non-zero status')
    # SystemExit interception vs reachable bare exits
    catching = [h for h in tr.handlers if h.type is None or any(x in norm(h.type) for x in ('SystemExit', 'BaseException'))] if tr is not None else []
    if catching and RC is None:
        raise AnalysisError('__main__: SystemExit is intercepted but the status the module finally exits with is not a single variable '
                            '(idiom changed); cannot decide the exit status of intercepted exits')
    intercepts = any(any(isinstance(st, ast.Assign) and norm(st.targets[0]) == RC and (_nonzero_expr(st.value) or _guarded_nonzero(st, h))
                         for st in ast.walk(h)) for h in catching)
    reach = cg.reachable([main])
    bare = []
    for f in reach.values():
        for c in calls_in(f.node):
            d = dotted_name(c.func)
            if d in ('sys.exit', 'exit', 'quit'):
                a = c.args
                zero = (not a) or (isinstance(a[0], ast.Constant) and a[0].value in (0, None))
                if zero:
                    bare.append((f, c))
    ctx.analysed['bare_exit_sites_reachable_from_main'] = len(bare)
    for f, c in bare:
        key = f'{f.qualname}/bare-exit'
        ctx.check(intercepts, 'N2', key, f'{f.module.rel}:{c.lineno}',
                  f'`{norm(c)}` on an error path of {f.qualname} ends the process with status 0 and __main__ does not '
                  f'intercept SystemExit: a failed simulation is reported as success',
                  fact='intercepted by __main__ (SystemExit -> non-zero rc)')
    ctx.floor('N2', len(bare), 5, 'status-less exit sites reachable from main')
    # report writers: a handler that swallows a write failure and exits 0 is covered above (bare exit);
    # a handler that swallows and continues would leave a truncated report with status 0
    for f in reach.values():
        if f.name != 'PrintOutputs':
            continue
        for trr in [x for x in walk_no_nested(f.node) if isinstance(x, ast.Try)]:
            for h in trr.handlers:
                if not any(isinstance(c.func, ast.Attribute) and c.func.attr == 'write' for b in trr.body for c in calls_in(b)):
                    continue
                ends = handler_reraises(h) or any(
                    isinstance(s, ast.Expr) and isinstance(s.value, ast.Call) and dotted_name(s.value.func) in ('sys.exit', 'exit')
                    for s in h.body)
                ctx.check(ends, 'N2', f'{f.qualname}/report-failure-not-swallowed', f'{f.module.rel}:{h.lineno}',
                          'a failure while writing the report is swallowed: the run continues and exits 0 with a truncated report')


def check_n3(ctx) -> None:
    repo = ctx.repo
    mm = repo.module('geophires_x/__main__.py')
    # every store to sys.argv[1] / sys.argv[2] in __main__ is an absolute path
    from gxstat.inline import inline_sequential
    n = 0
    for st in ast.walk(mm.tree):
        if isinstance(st, ast.Assign) and isinstance(st.targets[0], ast.Subscript) and norm(st.targets[0].value) == 'sys.argv':
            idx = norm(st.targets[0].slice)
            n += 1
            v = norm(inline_sequential(st.value, st))
            ctx.check(v.endswith('.absolute()') or v.endswith('.resolve()') or 'os.path.abspath(' in v, 'N3',
                      f'__main__/argv[{idx}]-absolute', f'{mm.rel}:{st.lineno}',
                      f'sys.argv[{idx}] = {v}: not made absolute, but GEOPHIRESv3.main changes the working directory before '
                      f'the three consumers open it')
    ctx.floor('N3', n, 2, 'argv stores in __main__')            # (input path, output path; the default output may share the store)
    # default output name is the documented HDR.out in the caller's cwd (captured before the simulation changes it)
    def variants(st):
        """The value stored, once per possible definition of a local that is set in the branches of a preceding if (`p = A if .. else B`
        written as an if/else)."""
        v0 = inline_sequential(st.value, st)
        opaque = [x.id for x in ast.walk(v0) if isinstance(x, ast.Name) and isinstance(x.ctx, ast.Load)]
        outv = []
        for nm in dict.fromkeys(opaque):
            dfs = [a_ for a_ in ast.walk(mm.tree) if isinstance(a_, ast.Assign) and len(a_.targets) == 1 and norm(a_.targets[0]) == nm and a_.lineno < st.lineno]
            if len(dfs) >= 2:
                from gxstat.inline import _subst_once
                from gxstat.srcmodel import clone as _cl
                for a_ in dfs:
                    outv.append(norm(_subst_once(_cl(v0), nm, inline_sequential(a_.value, a_))))
                return outv
        return [norm(v0)]
    dflt = [(st, v) for st in ast.walk(mm.tree) if isinstance(st, ast.Assign) and norm(st.targets[0]) == 'sys.argv[2]' for v in variants(st)]
    dflt = [(st, v) for st, v in dflt if 'HDR.out' in v]
    ctx.check(len(dflt) == 1 and any(x in dflt[0][1] for x in ('Path.cwd()', 'os.getcwd()')), 'N3', '__main__/default-output-in-caller-cwd',
              f'{mm.rel}:{dflt[0][0].lineno if dflt else 1}', 'the default report path is not HDR.out in the caller\'s directory')
    # consumers: Model.__init__ uses argv[2] for the report, main uses argv[2] for json + echo
    main = repo.function('geophires_x/GEOPHIRESv3.py', 'main')
    # the JSON path is the name main opens for writing and json-dumps into
    JP = None
    for n in ast.walk(main.node):
        if isinstance(n, ast.With) and n.items and isinstance(n.items[0].context_expr, ast.Call) and dotted_name(n.items[0].context_expr.func) == 'open':
            oc = n.items[0].context_expr
            if len(oc.args) >= 2 and isinstance(oc.args[1], ast.Constant) and oc.args[1].value == 'w' and isinstance(oc.args[0], ast.Name) \
                    and any((dotted_name(c.func) or '').startswith('json.dump') for c in calls_in(n)):
                JP = oc.args[0].id
    ctx.require(JP is not None, 'GEOPHIRESv3.main: the file the JSON is written to was not found (idiom changed)')
    js = [st for st in ast.walk(main.node) if isinstance(st, ast.Assign) and norm(st.targets[0]) == JP]
    ctx.require(len(js) >= 2, f'GEOPHIRESv3.main: {JP} definitions not found')
    derived = [(st, norm(inline_sequential(st.value, st))) for st in js]
    derived = [(st, v) for st, v in derived if 'sys.argv[2]' in v]
    ctx.check(len(derived) == 1 and '.json' in derived[0][1] and ('stem' in derived[0][1] or 'with_suffix' in derived[0][1]), 'N3',
              'GEOPHIRESv3.main/json-path-from-report-path', f'{main.module.rel}:{derived[0][0].lineno if derived else main.node.lineno}',
              'the JSON path is not derived from the report path (same directory, same stem)')
    model_init = repo.method('Model', '__init__', 'geophires_x/Model.py')
    # the report path variable is what the output objects are constructed with (`Outputs(self, output_file=<var>)`)
    from gxstat.inline import module_consts, substitute
    pvars = {k.value.id for c in calls_in(model_init.node) for k in c.keywords if k.arg == 'output_file' and isinstance(k.value, ast.Name)}
    ctx.require(len(pvars) == 1, f'Model.__init__: report path variable handed to the output objects not found ({sorted(pvars)})')
    pv = next(iter(pvars))
    consts = module_consts(model_init.module.tree)
    vals: List[str] = []
    for st in ast.walk(model_init.node):
        if isinstance(st, (ast.Assign, ast.AnnAssign)) and norm(st.targets[0] if isinstance(st, ast.Assign) else st.target) == pv and st.value is not None:
            v = substitute(st.value, consts)
            for alt in ([v.body, v.orelse] if isinstance(v, ast.IfExp) else [v]):
                vals.append(norm(alt))
    ctx.check('sys.argv[2]' in vals and "'HDR.out'" in vals,
              'N3', 'Model.__init__/report-path-from-argv2', model_init.where,
              f'Model does not take the report path from argv[2] (default HDR.out): `{pv}` is one of {vals}')
    client = repo.method('GeophiresXClient', 'get_geophires_result')
    # client: get_output_file_path is absolute (tempdir)
    gip = repo.cls('GeophiresInputParameters')
    gop = gip.methods.get('get_output_file_path')
    ctx.require(gop is not None, 'GeophiresInputParameters.get_output_file_path missing')
    rets = [r.value for r in ast.walk(gop.node) if isinstance(r, ast.Return)]
    ctx.check(all('tempfile.gettempdir()' in norm(r) for r in rets), 'N3', 'client/output-path-absolute', gop.where,
              'the client output path is not anchored at an absolute directory')


def check_n4(ctx) -> None:
    """The embedded runs see the same effective input and the same defaults as the command line."""
    repo = ctx.repo
    # (a) runs embedded in one process must not share parameter objects: list-valued declaration arguments are fresh
    from gxstat.registry import get_registry
    from gxstat.srcmodel import enclosing_function
    reg = get_registry(repo)
    n = 0
    for d in reg.decls:
        if d.kind != 'listParameter':
            continue
        for k in ('value', 'DefaultValue'):
            a = d.arg_nodes.get(k)
            if a is None:
                continue
            n += 1
            fresh = isinstance(a, (ast.List, ast.ListComp)) or (isinstance(a, ast.Call) and (dotted_name(a.func) or '').split('.')[-1] in ('list', 'copy', 'deepcopy'))
            if not fresh and isinstance(a, ast.Name):
                fn = enclosing_function(d.node)
                defs = [st for st in ast.walk(fn) if isinstance(st, ast.Assign) and norm(st.targets[0]) == a.id] if fn is not None else []
                fresh = bool(defs) and all(isinstance(st.value, (ast.List, ast.ListComp)) for st in defs)
            ctx.check(fresh, 'N4', f'{d.owner}.{d.attr}/{k}-fresh-per-run', d.where,
                      f'list parameter {d.name!r} takes {k}={norm(a)[:40]}, an object shared by every Model built in the process: after one '
                      f'embedded run edits it in place, a later client / Monte-Carlo run of another input no longer starts from the documented '
                      f'default, so it disagrees with the command line (fresh process) for the same input')
    ctx.floor('N4', n, 2, 'list-valued declaration arguments')
    # (b) the Monte-Carlo iteration input = verbatim copy of the base input + appended samples
    wp = repo.function('geophires_monte_carlo/MC_GeoPHIRES3.py', 'work_package')
    cp = [c for c in calls_in(wp.node) if dotted_name(c.func) == 'shutil.copyfile' and c.args and norm(c.args[0]) == 'args.Input_file']
    ctx.check(len(cp) == 1 and norm(cp[0].args[1]) == 'tmp_input_file', 'N4', 'work_package/base-input-copied-verbatim', wp.where,
              'the per-iteration input is not a verbatim copy of the base input (lines filtered or rewritten): the embedded run then '
              'simulates a different effective input than the command line given base + sampled values')
    ap = [n_ for n_ in ast.walk(wp.node) if isinstance(n_, ast.With) and any(
        isinstance(i.context_expr, ast.Call) and dotted_name(i.context_expr.func) == 'open' and norm(i.context_expr.args[0]) == 'tmp_input_file'
        for i in n_.items)]
    modes = [norm(i.context_expr.args[1]) if len(i.context_expr.args) > 1 else "'r'" for w in ap for i in w.items
             if isinstance(i.context_expr, ast.Call) and norm(i.context_expr.args[0]) == 'tmp_input_file']
    ctx.check(modes == ["'a'"], 'N4', 'work_package/samples-appended', wp.where,
              f'the per-iteration input file is opened with modes {modes}; sampled values must be appended after the copied base input')


def check_n5(ctx) -> None:
    """No report file is created before the calculations have succeeded."""
    repo = ctx.repo
    cg = get_callgraph(repo)
    roots = [repo.method('Model', '__init__', 'geophires_x/Model.py'), repo.method('Model', 'read_parameters', 'geophires_x/Model.py'),
             repo.method('Model', 'Calculate', 'geophires_x/Model.py')]
    reach = cg.reachable(roots)
    n = 0
    for f in reach.values():
        if f.name == 'PrintOutputs' or f.module.rel.startswith('src/hip_ra'):
            continue
        for c in calls_in(f.node):
            if dotted_name(c.func) != 'open' or not c.args:
                continue
            mode = norm(c.args[1]) if len(c.args) > 1 else next((norm(k.value) for k in c.keywords if k.arg == 'mode'), "'r'")
            if not any(m in mode for m in ('w', 'a', 'x', '+')):
                continue
            n += 1
            target = norm(c.args[0])
            is_report = any(w in target for w in ('output_file', 'sys.argv[2]', 'outputfile'))
            ctx.check(not is_report, 'N5', f'{f.qualname}/opens-report-before-calculation', f'{f.module.rel}:{c.lineno}',
                      f'`{norm(c)[:70]}` creates the report file while the model is still being set up / calculated: when the simulation '
                      f'then fails, an (empty) report is left behind although the run exits non-zero',
                      fact=f'write-mode open of {target[:40]} (not the report)')
    ctx.ok('N5', 'pre-report-phase/no-report-file-created', 'src/', f'{len(reach)} functions reachable from Model.__init__/read_parameters/Calculate; '
                                                                    f'{n} write-mode opens, none on the report path')


def run(ctx) -> None:
    ctx.rule('N4', 'embedded runs start from the same defaults and the same effective input as the command line: no list-valued '
                   'parameter default is shared between Model instances; the Monte-Carlo iteration input is a verbatim copy of the base '
                   'input with the sampled values appended')
    ctx.rule('N5', 'no function reachable from Model.__init__/read_parameters/Calculate opens the report path for writing: a failing '
                   'simulation leaves no report')
    ctx.rule('N1', 'one pipeline: only GEOPHIRESv3.main runs Model -> read_parameters -> Calculate -> PrintOutputs -> JSON, '
                   'unconditionally and in that order; CLI, client and Monte-Carlo reach it')
    ctx.rule('N2', 'python -m geophires_x ends with a non-zero status on every path where main() does not return normally '
                   '(status-less sys.exit()/exit() sites reachable from main must be intercepted)')
    ctx.rule('N3', 'argv[1]/argv[2] are absolute before main() changes directory; default HDR.out in the caller cwd; JSON '
                   'path derived from the report path')
    check_n1(ctx)
    check_n2(ctx)
    check_n3(ctx)
    check_n4(ctx)
    check_n5(ctx)
    ctx.rule('N7', 'every report writer class stores the output file it is constructed with (directly or by forwarding it to its parent)')
    n7 = 0
    repo = ctx.repo
    for ci in repo.classes.get('Outputs', []):
        for sub in [ci] + repo.subclasses(ci):
            init = sub.methods.get('__init__')
            if init is None:
                continue
            params = [a.arg for a in init.node.args.args + init.node.args.kwonlyargs]
            if 'output_file' not in params:
                continue
            n7 += 1
            stores = any(isinstance(st, ast.Assign) and norm(st.targets[0]) == 'self.output_file' and 'output_file' in norm(st.value)
                         for st in ast.walk(init.node))
            forwards = any(isinstance(c, ast.Call) and isinstance(c.func, ast.Attribute) and c.func.attr == '__init__' and
                           (any(norm(a) == 'output_file' for a in c.args) or any(k.arg == 'output_file' and norm(k.value) == 'output_file' for k in c.keywords))
                           for c in ast.walk(init.node))
            ctx.check(stores or forwards, 'N7', f'{sub.name}.__init__/keeps-output_file', f'{sub.module.rel}:{init.node.lineno}',
                      f'{sub.name}.__init__ takes output_file but neither stores it nor passes it to its parent: the report of this model family is '
                      f'written to the default HDR.out in the package directory instead of the requested path (the client and the command line '
                      f'then find no report)', fact='self.output_file = output_file' if stores else 'forwarded to the parent')
    ctx.floor('N7', n7, 2, 'report writer constructors')
    # ... and every writer that appends to `self.output_file` is constructed with the model's report path
    mi_ = repo.method('Model', '__init__', 'geophires_x/Model.py')
    n7b = 0
    for st in ast.walk(mi_.node):
        v = st.value if isinstance(st, (ast.Assign, ast.AnnAssign)) else None
        if not (isinstance(v, ast.Call) and (dotted_name(v.func) or '').split('.')[-1].find('Outputs') >= 0):
            continue
        cname = (dotted_name(v.func) or '').split('.')[-1]
        ci = repo.find_cls(cname, mi_.module)
        po = repo.resolve_method(ci, 'PrintOutputs') if ci is not None else None
        if po is None:
            continue
        uses_own = any(isinstance(x, ast.Attribute) and x.attr == 'output_file' and isinstance(x.value, ast.Name) and x.value.id == 'self'
                       for x in ast.walk(po.node))
        if not uses_own:
            continue
        n7b += 1
        kw = next((k for k in v.keywords if k.arg == 'output_file'), None)
        passed = kw is not None and isinstance(kw.value, ast.Name) and kw.value.id == 'output_file' or (len(v.args) >= 2 and norm(v.args[1]) == 'output_file')
        ctx.check(passed, 'N7', f'Model.__init__/{cname}-gets-the-report-path', f'{mi_.module.rel}:{st.lineno}',
                  f'{cname}.PrintOutputs writes to self.output_file, but Model.__init__ constructs it with `{norm(v)[:70]}`: it keeps the default '
                  f'HDR.out in the package directory, so with an explicit report path (CLI argument, client) its section lands in another file '
                  f'than the report', fact='output_file=output_file')
    ctx.floor('N7', n7b, 2, 'writers that append to self.output_file')
    ctx.rule('N6', 'client dictionary requests are written to the input file with str(value): the same values give the same run as a file')
    from rules.client_common import check_lossless_rendering
    n6 = check_lossless_rendering(ctx, 'N6')
    ctx.floor('N6', n6, 2, 'client parameter writers')
    ctx.rule('N8', 'embedded and command-line runs read the same files: no function of the simulator that reads a file is memoised (an embedded '
                   'second run would use the first run\'s file content while a fresh process reads the current one) (C08 P2)')
    from gxstat.runner import Renamed as _Ren
    from rules.c08 import check_p2 as _p2
    _n0 = len(ctx.obligations)
    _p2(_Ren(ctx, {'P2': 'N8'}, key_filter=lambda k: k.endswith('/memoised')))
    _keep = [o for o in ctx.obligations[_n0:] if o['status'] != 'ok' and ('I/O' in o.get('msg', '') or 'reads' in o.get('msg', ''))]
    _nmem = len(ctx.obligations) - _n0
    del ctx.obligations[_n0:]
    ctx.obligations.extend(_keep)
    if not _keep:
        ctx.ok('N8', 'simulator/no-memoised-file-reader', 'src/geophires_x/', f'{_nmem} memoised functions, none reads a file')
    ctx.undecided('byte-identical reports across entry points (depends on file-system and formatting at run time)',
                  'behaviour of the undocumented script entry `python GEOPHIRESv3.py` without argv[2]')
