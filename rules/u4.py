"""U4 (shared by C06, C15, C18): magnitude heuristics inside the accepted range.

A comparison of a parameter value with a literal threshold, followed by a rescale of that same value, is a unit
guess.  When the threshold lies inside the declared [Min, Max] two accepted inputs on either side of it are
interpreted in different units: the result then depends on the magnitude written, not on the quantity meant, and
the response to the input is non-monotone across the threshold."""
from __future__ import annotations

import ast
from typing import List, Optional, Tuple

from gxstat.atoms import AtomResolver
from gxstat.registry import Unfolded
from gxstat.srcmodel import const_value, dotted_name, enclosing_class, norm

NOT_RUNNABLE = ('AGSWellBores', 'SurfacePlantAGS', 'AGSEconomics', 'TOUGH2Reservoir')    # no witness possible offline


def heuristic_sites(repo):
    out = []
    for f in repo.all_functions():
        cls = f.cls.name if f.cls is not None else None
        res = AtomResolver(repo, cls)
        for n in ast.walk(f.node):
            if not (isinstance(n, ast.If) and isinstance(n.test, ast.Compare) and len(n.test.ops) == 1):
                continue
            op = n.test.ops[0]
            if not isinstance(op, (ast.Gt, ast.GtE, ast.Lt, ast.LtE)):
                continue
            okc, thr = const_value(n.test.comparators[0])
            if not okc or not isinstance(thr, (int, float)) or isinstance(thr, bool):
                continue
            left = n.test.left
            base = left.value if isinstance(left, ast.Subscript) else left
            key = dotted_name(base)
            if not key or not key.endswith('.value'):
                continue
            lt = norm(left)
            resc = None
            for st in n.body:
                if isinstance(st, ast.Assign) and norm(st.targets[0]) == lt and isinstance(st.value, ast.BinOp) and \
                        isinstance(st.value.op, (ast.Mult, ast.Div)):
                    l, r = st.value.left, st.value.right
                    okk, k = const_value(r)
                    if norm(l) == lt and okk and isinstance(k, (int, float)) and k not in (0, 1):
                        resc = (st, ('*' if isinstance(st.value.op, ast.Mult) else '/') + repr(k))
            if resc is None:
                continue
            d = res.decl(key)
            if d is None or not d.is_input:
                continue
            out.append((f, n, d, type(op).__name__, thr, resc, key))
    return out


def check_heuristics(ctx, rule: str, only_attrs=None, only_classes=None) -> int:
    n = 0
    for f, node, d, op, thr, (st, how), key in heuristic_sites(ctx.repo):
        attr = key.split('.')[-2]
        if only_attrs is not None and attr not in only_attrs:
            continue
        lo, hi = d.get('Min'), d.get('Max')
        if isinstance(lo, Unfolded) or isinstance(hi, Unfolded) or lo is None or hi is None:
            continue
        n += 1
        inside = (lo < thr <= hi) if op in ('Lt', 'LtE') else (lo <= thr < hi)
        sym = {'Gt': '>', 'GtE': '>=', 'Lt': '<', 'LtE': '<='}[op]
        k = f'{f.qualname}/{attr}{sym}{thr:g}->{how}'
        where = f'{f.module.rel}:{node.lineno}'
        if not inside:
            ctx.ok(rule, k, where, f'threshold {thr:g} outside the accepted range [{lo}, {hi}] of {d.name!r}')
            continue
        msg = (f'{d.name!r} accepts [{lo}, {hi}] but a value {sym} {thr:g} is silently rescaled ({how}) as if written in another unit: two '
               f'accepted inputs on either side of {thr:g} denote quantities that differ by the conversion factor, so results depend on the '
               f'magnitude written and respond non-monotonically across the threshold')
        if f.cls is not None and f.cls.name in NOT_RUNNABLE:
            ctx.info(f'{rule} {where} {k}: {msg} (module not runnable offline: informational)')
            continue
        ctx.bad(rule, k, where, msg)
    return n
