"""U4 (shared by C06, C07, C15, C17, C18): magnitude heuristics inside the accepted range.

A comparison of a parameter value with a literal threshold, followed by a rescale of that same value by a literal
factor, is a unit guess.  When a threshold lies inside the declared [Min, Max], two accepted inputs on either
side of it are interpreted in different units: the result then depends on the magnitude written, not on the
quantity meant, the value is silently altered, and the response to the input is non-monotone across the threshold."""
from __future__ import annotations

import ast
from typing import List, Optional, Tuple

from gxstat.atoms import AtomResolver
from gxstat.registry import Unfolded, get_registry
from gxstat.srcmodel import const_value, dotted_name, enclosing_class, norm, parent

NOT_RUNNABLE = ('AGSWellBores', 'SurfacePlantAGS', 'AGSEconomics', 'TOUGH2Reservoir')    # no witness possible offline


def _thresholds(test: ast.AST, target_txt: str) -> List[Tuple[str, float]]:
    """(operator as seen from the value, literal) for every comparison of target_txt with a numeric literal in test."""
    out = []
    for c in ast.walk(test):
        if not isinstance(c, ast.Compare):
            continue
        items = [c.left] + list(c.comparators)
        for i, op in enumerate(c.ops):
            l, r = items[i], items[i + 1]
            if not isinstance(op, (ast.Gt, ast.GtE, ast.Lt, ast.LtE)):
                continue
            okr, vr = const_value(r)
            okl, vl = const_value(l)
            name = {ast.Gt: '>', ast.GtE: '>=', ast.Lt: '<', ast.LtE: '<='}[type(op)]
            flip = {'>': '<', '>=': '<=', '<': '>', '<=': '>='}
            if norm(l) == target_txt and okr and isinstance(vr, (int, float)) and not isinstance(vr, bool):
                out.append((name, vr))
            elif norm(r) == target_txt and okl and isinstance(vl, (int, float)) and not isinstance(vl, bool):
                out.append((flip[name], vl))
    return out


def heuristic_sites(repo):
    reg = get_registry(repo)
    out = []
    for f in repo.all_functions():
        cls = f.cls.name if f.cls is not None else None
        res = AtomResolver(repo, cls)
        # on the canonical form: a local bound once to an attribute path (`thicknesses = model.reserv.layerthickness.value`) is that path
        from gxstat.inline import canonical_function
        fnode = canonical_function(f.node, unnest=False) if isinstance(f.node, ast.FunctionDef) else f.node
        for n in ast.walk(fnode):
            if not isinstance(n, ast.If):
                continue
            for st in n.body:
                if not (isinstance(st, ast.Assign) and isinstance(st.value, ast.BinOp) and isinstance(st.value.op, (ast.Mult, ast.Div))):
                    continue
                lt = norm(st.targets[0])
                l, r = st.value.left, st.value.right
                okk, k = const_value(r)
                if not (norm(l) == lt and okk and isinstance(k, (int, float)) and k not in (0, 1)):
                    okk, k = const_value(l)
                    if not (norm(r) == lt and okk and isinstance(k, (int, float)) and k not in (0, 1) and isinstance(st.value.op, ast.Mult)):
                        continue
                ths = _thresholds(n.test, lt)
                if not ths:
                    continue
                tgt = st.targets[0]
                base = tgt.value if isinstance(tgt, ast.Subscript) else tgt
                key = dotted_name(base)
                if not key or not key.endswith('.value'):
                    continue
                d = res.decl(key)
                if d is None and key.split('.')[0] in ('ParameterToModify', 'param', 'p'):
                    # generic reader object: identified by a Name test in the same guard
                    tests = [n.test]
                    up = parent(n)
                    prev = n
                    while up is not None and up is not fnode:
                        if isinstance(up, ast.If) and any(prev is x for x in up.body):
                            tests.append(up.test)
                        prev = up
                        up = parent(up)
                    for tst in tests:
                        for c in ast.walk(tst):
                            if d is None and isinstance(c, ast.Compare) and len(c.ops) == 1 and isinstance(c.ops[0], ast.Eq) and \
                                    norm(c.left).endswith('.Name') and isinstance(c.comparators[0], ast.Constant):
                                nm = c.comparators[0].value
                                if cls:
                                    d = next((x for x in reg.class_decls(cls) if x.name == nm), None)
                if d is None or not d.is_input:
                    continue
                how = ('*' if isinstance(st.value.op, ast.Mult) else '/') + repr(k)
                out.append((f, n, d, ths, (st, how), key))
    return out


def check_heuristics(ctx, rule: str, only_attrs=None, only_classes=None, only_functions=None) -> int:
    n = 0
    for f, node, d, ths, (st, how), key in heuristic_sites(ctx.repo):
        attr = d.attr
        if only_attrs is not None and attr not in only_attrs:
            continue
        if only_classes is not None and (f.cls is None or f.cls.name not in only_classes):
            continue
        if only_functions is not None and f.name not in only_functions:
            continue
        lo, hi = d.get('Min'), d.get('Max')
        if isinstance(lo, Unfolded) or isinstance(hi, Unfolded) or lo is None or hi is None:
            continue
        n += 1
        inside = [(op, thr) for op, thr in ths if ((lo < thr <= hi) if op in ('<', '<=') else (lo <= thr < hi))]
        cond = ' and '.join(f'{op}{thr:g}' for op, thr in ths)
        k = f'{f.qualname}/{attr}{"&".join(f"{op}{thr:g}" for op, thr in ths)}->{how}'
        where = f'{f.module.rel}:{node.lineno}'
        if not inside:
            ctx.ok(rule, k, where, f'thresholds {cond} outside the accepted range [{lo}, {hi}] of {d.name!r}')
            continue
        thr = inside[0][1]
        msg = (f'{d.name!r} accepts [{lo}, {hi}] but a value {cond} is silently rescaled ({how}) as if written in another unit: two '
               f'accepted inputs on either side of {thr:g} denote quantities that differ by the conversion factor, so results depend on the '
               f'magnitude written and respond non-monotonically across the threshold')
        if f.cls is not None and f.cls.name in NOT_RUNNABLE:
            ctx.info(f'{rule} {where} {k}: {msg} (module not runnable offline: informational)')
            continue
        ctx.bad(rule, k, where, msg)
    return n


def check_converted_then_guessed(ctx, rule: str, only_attrs=None) -> int:
    """A heuristic site guesses the unit of X from its magnitude.  If the same function also stores into X a number that was
    explicitly converted (`....to('m').magnitude`, `.quantity()`), that number is in a known unit and the guess rescales it again."""
    n = 0
    for f, node, d, ths, (st, how), key in heuristic_sites(ctx.repo):
        if only_attrs is not None and d.attr not in only_attrs:
            continue
        n += 1
        obj = key[:-len('.value')]
        conv = []
        for s_ in ast.walk(f.node):
            if isinstance(s_, ast.Assign):
                tg = s_.targets[0]
                base = tg.value if isinstance(tg, ast.Subscript) else tg
                if norm(base) == key and s_ is not st and s_.lineno < node.lineno and \
                        any(isinstance(c, ast.Call) and isinstance(c.func, ast.Attribute) and c.func.attr in ('to', 'quantity', 'ito') for c in ast.walk(s_.value)):
                    conv.append(s_)
        k = f'{f.qualname}/{d.attr}/converted-value-not-re-guessed'
        where = f'{f.module.rel}:{(conv[0] if conv else node).lineno}'
        ctx.check(not conv, rule, k, where,
                  f'`{norm(conv[0])[:90] if conv else ""}` stores an explicitly converted number into {obj}, and the magnitude heuristic at line '
                  f'{node.lineno} ({how}) later rescales whatever is below/above its threshold: a value in the known unit is converted twice',
                  fact='only unconverted input numbers reach the heuristic')
    return n
