"""C18 -- outputs respond monotonically where the model says they must.

O1 well-cost correlation table non-decreasing in depth on the validity window (exhaustive over the enum rows),
O2 percentage-drawdown reservoir temperature non-increasing in the drawdown rate, O3 levelized costs non-decreasing
in total capital cost and annual O&M in the FCR and STANDARD arms (monotonicity typing under declared-range signs),
O4 gradient / thickness magnitude heuristics (= U4), O5 well cost non-decreasing in the adjustment factor."""
from __future__ import annotations

import ast
from fractions import Fraction
from typing import Dict, List, Optional, Tuple

from gxstat.algebra import Rat, Translator, Unsupported
from gxstat.atoms import AtomResolver
from gxstat.domains import CONST, DOWN, UNKNOWN, UP, interval, monotone
from gxstat.registry import EnumRef, Unfolded, get_registry
from gxstat.srcmodel import AnalysisError, calls_in, const_value, dotted_name, norm
from gxstat.symflow import PathEnumerator
from rules.c01 import OUTS, _arm_of, _leaf_label, attr_of
from rules.u4 import check_heuristics


def check_o1(ctx) -> None:
    repo = ctx.repo
    reg = get_registry(repo)
    rows = reg.enums.enums.get('WellDrillingCostCorrelation')
    ctx.require(rows, 'WellDrillingCostCorrelation enum not found')
    ctx.floor('O1', len(rows), 17, 'well-cost correlation rows')
    # coefficient positions from __init__ and the formula from calculate_cost_MUSD
    ci = repo.cls('WellDrillingCostCorrelation')
    init = ci.methods['__init__']
    ctx.require(init.args[:6] == ['self', 'int_value', '_', 'c2', 'c1', 'c0'], f'WellDrillingCostCorrelation.__init__ signature changed: {init.args}')
    stores = {norm(s.targets[0]): norm(s.value) for s in init.node.body if isinstance(s, ast.Assign)}
    ctx.check(stores.get('self._c2') == 'c2' and stores.get('self._c1') == 'c1' and stores.get('self._c0') == 'c0', 'O1',
              'WellDrillingCostCorrelation/__init__/coefficients-stored', init.where, f'coefficients stored as {stores}')
    calc = ci.methods['calculate_cost_MUSD']
    rets = [r for r in ast.walk(calc.node) if isinstance(r, ast.Return)]
    ctx.require(len(rets) == 1, 'calculate_cost_MUSD: single return expected')
    try:
        from gxstat.inline import inline_sequential
        r = Translator().tr(inline_sequential(rets[0].value, rets[0]))          # over named intermediates
    except Unsupported as e:
        raise AnalysisError(str(e))
    m = Rat.atom('meters')
    want = (Rat.atom('self._c2') * m * m + Rat.atom('self._c1') * m + Rat.atom('self._c0')) / Rat.const(10 ** 6)
    ctx.check(r.equals(want), 'O1', 'WellDrillingCostCorrelation/calculate_cost_MUSD/quadratic', f'{calc.module.rel}:{rets[0].lineno}',
              f'well cost is `{r.show()}`; expected (c2 m^2 + c1 m + c0) x 1e-6')
    # validity window
    f = repo.function('geophires_x/Economics.py', 'calculate_cost_of_one_vertical_well')
    # validity window: the constants the depth (first the function's depth parameter) is compared with, `depth < lo` and `depth > hi`
    consts = {}
    for s in f.node.body:
        if isinstance(s, ast.Assign) and len(s.targets) == 1 and isinstance(s.targets[0], ast.Name):
            ok, v = const_value(s.value)
            if ok and isinstance(v, (int, float)) and not isinstance(v, bool):
                consts[s.targets[0].id] = v
    depth_p = next((a_.arg for a_ in f.node.args.args if 'depth' in a_.arg), None)
    win = {}
    for c in ast.walk(f.node):
        if isinstance(c, ast.Compare) and len(c.ops) == 1 and isinstance(c.left, ast.Name) and c.left.id == depth_p:
            r_ = c.comparators[0]
            okc, v = const_value(r_) if not isinstance(r_, ast.Name) else (r_.id in consts, consts.get(r_.id))
            if okc and isinstance(c.ops[0], ast.Lt):
                win.setdefault('lo', v)
            elif okc and isinstance(c.ops[0], ast.Gt):
                win.setdefault('hi', v)
    ctx.require(len(win) == 2, 'calculate_cost_of_one_vertical_well: validity window (depth < lo, depth > hi against constants) not found')
    lo, hi = win['lo'], win['hi']
    for name, row in rows.items():
        ctx.require(isinstance(row, tuple) and len(row) >= 5 and all(isinstance(x, (int, float)) for x in row[2:5]),
                    f'WellDrillingCostCorrelation.{name}: coefficients not foldable ({row!r})')
        c2, c1 = Fraction(repr(row[2])), Fraction(repr(row[3]))
        if name == 'SIMPLE':
            ctx.check(c2 == 0 and c1 >= 0, 'O1', f'WellDrillingCostCorrelation.{name}/slope', f'{ci.module.rel}:{ci.node.lineno}', 'per-metre placeholder row has a negative slope')
            continue
        d_lo, d_hi = 2 * c2 * Fraction(repr(lo)) + c1, 2 * c2 * Fraction(repr(hi)) + c1
        ctx.check(d_lo >= 0 and d_hi >= 0, 'O1', f'WellDrillingCostCorrelation.{name}/non-decreasing-on-window', f'{ci.module.rel}:{ci.node.lineno}',
                  f'correlation {name}: d(cost)/d(depth) = 2 c2 m + c1 is {float(d_lo):.4g} at {lo:g} m and {float(d_hi):.4g} at {hi:g} m: the cost of a '
                  f'well decreases with depth somewhere on the window where the correlation applies', fact=f'slope in [{float(min(d_lo, d_hi)):.4g}, {float(max(d_lo, d_hi)):.4g}] >= 0')
    # the input's allowable range is exactly the set of rows
    d = reg.find('Economics', 'wellcorrelation')
    ctx.require(d is not None, 'Economics.wellcorrelation declaration not found')
    rng = d.get('AllowableRange')
    ints = sorted(reg.enums.int_value('WellDrillingCostCorrelation', n) for n in rows)
    if isinstance(rng, list):
        ctx.check(sorted(rng) == ints, 'O1', 'Economics.wellcorrelation/AllowableRange=rows', d.where, f'allowable options {sorted(rng)} vs correlation rows {ints}')
    # O5 on every return path: the value is the adjustment factor times (correlation cost | cost per metre x depth x 1e-6)
    from gxstat.symflow import PathEnumerator
    ret_names = {x.id for r_ in ast.walk(f.node) if isinstance(r_, ast.Return) and r_.value is not None for x in ast.walk(r_.value) if isinstance(x, ast.Name)}
    paths = [p_ for p_ in PathEnumerator(f.node.body, ret_names).paths() if p_.ended == 'return' and p_.ret is not None]
    ctx.require(paths, 'calculate_cost_of_one_vertical_well: no return path found')

    def hook(T, call):
        if isinstance(call.func, ast.Attribute) and call.func.attr == 'calculate_cost_MUSD' and [norm(a_) for a_ in call.args] == ['depth_m']:
            return Rat.atom('CORRELATION_COST')
        return None
    F = Rat.atom('well_cost_adjustment_factor')
    arms = {}
    for p_ in paths:
        try:
            r = Translator(binds=p_.ret.binds, call_hook=hook).tr(p_.ret.expr)
        except Unsupported as e:
            raise AnalysisError(f'calculate_cost_of_one_vertical_well: {e}')
        where = f'{f.module.rel}:{p_.ret.line}'
        if r.equals(F * Rat.atom('CORRELATION_COST')):
            arms.setdefault('correlation', where)
        elif r.equals(F * Rat.atom('vertical_drilling_cost_per_m') * Rat.atom('depth_m') / Rat.const(10 ** 6)):
            arms.setdefault('simple', where)
        elif 'CORRELATION_COST' in r.n.atoms() | r.d.atoms() or 'vertical_drilling_cost_per_m' not in r.n.atoms():
            ctx.bad('O5', 'calculate_cost_of_one_vertical_well/adjustment-factor-multiplies', where,
                    f'the well cost is `{r.show()}`, not the correlation cost times the (non-negative) adjustment factor')
            arms.setdefault('correlation', where)
        else:
            ctx.bad('O5', 'calculate_cost_of_one_vertical_well/simple=rate*depth', where,
                    f'per-metre cost arm is `{r.show()}`, not adjustment factor x rate x depth x 1e-6')
            arms.setdefault('simple', where)
    ctx.require(set(arms) == {'correlation', 'simple'}, f'calculate_cost_of_one_vertical_well: expected a correlation arm and a per-metre arm, found {sorted(arms)}')
    if not any(o['rule'] == 'O5' and o['status'] != 'ok' and 'adjustment-factor' in o['key'] for o in ctx.obligations):
        ctx.ok('O5', 'calculate_cost_of_one_vertical_well/adjustment-factor-multiplies', arms['correlation'], 'factor x correlation cost on every correlation path')
    if not any(o['rule'] == 'O5' and o['status'] != 'ok' and 'simple=rate' in o['key'] for o in ctx.obligations):
        ctx.ok('O5', 'calculate_cost_of_one_vertical_well/simple=rate*depth', arms['simple'], 'factor x rate x depth x 1e-6')


def check_o2(ctx) -> None:
    f = ctx.repo.method('TDPReservoir', 'Calculate')
    st = [s for s in f.node.body if isinstance(s, ast.Assign) and norm(s.targets[0]) == 'model.reserv.Tresoutput.value']
    ctx.require(len(st) == 1, 'TDPReservoir.Calculate: Tresoutput definition not found')
    res = AtomResolver(ctx.repo, 'TDPReservoir')

    def iv(key):
        if key == 'model.reserv.timevector.value':
            return (0.0, float('inf'))                  # np.linspace(0, lifetime, n)
        if key in ('model.reserv.Trock.value - model.wellbores.Tinj.value',):
            return (0.0, float('inf'))
        return None
    # (1 - d t)(Trock - Tinj) + Tinj : treat (Trock - Tinj) >= 0 as the named assumption by typing the difference
    class Assume(ast.NodeTransformer):
        def visit_BinOp(self, n):
            self.generic_visit(n)
            if isinstance(n.op, ast.Sub) and norm(n.left) == 'model.reserv.Trock.value' and norm(n.right) == 'model.wellbores.Tinj.value':
                return ast.copy_location(ast.Name(id='DT_ASSUMED_NONNEG', ctx=ast.Load()), n)
            return n
    from gxstat.srcmodel import clone
    e = ast.fix_missing_locations(Assume().visit(clone(st[0].value)))
    m = monotone(e, 'model.reserv.drawdp.value', lambda k: (0.0, float('inf')) if k in ('DT_ASSUMED_NONNEG', 'model.reserv.timevector.value') else None)
    ctx.check(m in (DOWN, CONST), 'O2', 'TDPReservoir.Calculate/non-increasing-in-drawdown-rate', f'{f.module.rel}:{st[0].lineno}',
              f'monotonicity typing of `{norm(st[0].value)[:90]}` in the drawdown rate gives {m}; with t >= 0 and BHT >= Tinj it must be '
              f'non-increasing', fact='down in drawdp (assuming t >= 0, Trock >= Tinj)')
    ctx.assume('Trock >= Tinj (see C05 D5: not enforced by the code)')


def check_o3(ctx) -> None:
    repo = ctx.repo
    reg = get_registry(repo)
    f = repo.function('geophires_x/Economics.py', 'CalculateLCOELCOHLCOC')
    paths = PathEnumerator(f.node.body, set(OUTS)).paths()
    res = AtomResolver(repo, 'Economics')

    def iv(key):
        a = attr_of(key)
        if key in ('discountvector', 'inflationvector'):
            return (1e-300, float('inf'))
        if a in ('NetkWhProduced', 'HeatkWhProduced', 'cooling_kWh_Produced', 'annual_heating_demand'):
            return (1e-300, float('inf'))          # the property's premise: positive net energy output
        if a in ('PumpingkWh', 'heat_pump_electricity_kwh_used', 'annualngcost', 'averageannualngcost', 'averageannualpumpingcosts',
                 'averageannualheatpumpelectricitycost', 'CCap', 'Coam'):
            return (0.0, float('inf'))
        d = res.decl(key)
        if d is not None and d.is_input:
            lo, hi = d.get('Min'), d.get('Max')
            if isinstance(lo, (int, float)) and isinstance(hi, (int, float)):
                return (float(lo), float(hi))
        return None
    n = unknown = 0
    for p in paths:
        arm = _arm_of(p)
        for o in OUTS:
            d = p.env.get(o)
            if d is None or d.expr is None or (isinstance(d.expr, ast.Constant) and d.expr.value in (0, 0.0)):
                continue
            for var in ('self.CCap.value', 'self.Coam.value'):
                m = monotone(d.expr, var, iv, d.binds)
                leaf = f'{arm}/{_leaf_label(p)}/{o}/in-{attr_of(var)}'
                if arm == 'BICYCLE':
                    if m not in (UP, CONST):
                        unknown += 1
                        continue
                n += 1
                ctx.check(m in (UP, CONST), 'O3', leaf, f'{f.module.rel}:{d.line}',
                          f'monotonicity typing of {o} in {attr_of(var)} gives {m} under the declared-range signs: a levelized cost may decrease '
                          f'when a cost increases (a cost term enters with a negative sign or divides)', fact=f'{m} in {attr_of(var)}')
    ctx.analysed['bicycle_outputs_not_decided'] = unknown
    ctx.floor('O3', n, 28, 'monotonicity obligations (FCR + STANDARD arms)')


def _check_provided_flag(ctx) -> None:
    """Economics chooses between a user cost and a built-in estimate by `.Provided`/`.Valid`: the float reader must mark a
    value equal to the declared default as provided too."""
    from rules.c07 import _arm_for, P
    from gxstat.flowutil import guards_of
    fn = ctx.repo.function('geophires_x/Parameter.py', 'ReadParameter')
    arm = _arm_for(fn, 'floatParameter')
    ctx.require(arm is not None, 'ReadParameter float arm not found')
    dflt = [n for n in ast.walk(arm) if isinstance(n, ast.If) and norm(n.test) in (f'New_val == {P}.DefaultValue', f'{P}.DefaultValue == New_val')]
    if not dflt:
        ctx.ok('O7', 'ReadParameter/floatParameter/default-equal-input-is-provided', f'{fn.module.rel}:{arm.lineno}', 'no special case for default-equal inputs')
        return
    n = dflt[0]
    sets = any(isinstance(s, ast.Assign) and norm(s.targets[0]) == f'{P}.Provided' and norm(s.value) == 'True' for s in n.body)
    rets_before = [r for r in ast.walk(n) if isinstance(r, ast.Return)]
    first_set = min((s.lineno for s in n.body if isinstance(s, ast.Assign) and norm(s.targets[0]) == f'{P}.Provided'), default=10 ** 9)
    ok = sets and all(r.lineno > first_set for r in rets_before)
    ctx.check(ok, 'O7', 'ReadParameter/floatParameter/default-equal-input-is-provided', f'{fn.module.rel}:{n.lineno}',
              'a float input equal to the declared default is not marked Provided: Economics then replaces a cost the user set to exactly '
              'its default by the built-in estimate, so NPV / levelized cost jump non-monotonically as that cost input passes its default',
              fact='Provided = True on the default-equal path')


def run(ctx) -> None:
    ctx.rule('O6', 'depth of the maximum temperature: headroom over the interface above divided by the gradient of the segment in which '
                   'Tmax is reached (consistent segment index), plus the thicknesses of the segments above')
    ctx.rule('O7', 'a cost input supplied at exactly its declared default is stored / marked provided like any other value')
    ctx.rule('O1', 'every well-cost correlation row is non-decreasing in depth at both ends of (hence, being quadratic, throughout) the '
                   'validity window used by calculate_cost_of_one_vertical_well; formula and coefficient positions checked')
    ctx.rule('O2', 'percentage-drawdown reservoir temperature is non-increasing in the drawdown rate (monotonicity typing, t >= 0, BHT >= Tinj)')
    ctx.rule('O3', 'LCOE/LCOH/LCOC are non-decreasing in total capital cost and in annual O&M in the FCR and STANDARD arms under the '
                   'declared-range sign environment (BICYCLE: tax terms of mixed sign - reported undecided, not claimed)')
    ctx.rule('O4', 'gradient / thickness magnitude heuristics with the threshold inside the accepted range make BHT respond '
                   'non-monotonically (= U4)')
    ctx.rule('O5', 'well cost = adjustment factor x correlation cost; per-metre arm = rate x depth')
    check_o1(ctx)
    check_o2(ctx)
    check_o3(ctx)
    from rules.c05 import check_maxdepth
    check_maxdepth(ctx, ctx.repo.method('Reservoir', 'Calculate', 'geophires_x/Reservoir.py'), 'O6')
    # a cost input supplied at exactly its default must still count as user-provided (O7 = C07 V9 on the float reader)
    from rules.c07 import check_reader_arm
    before = len(ctx.obligations)
    check_reader_arm(ctx, ctx.repo.function('geophires_x/Parameter.py', 'ReadParameter'), 'floatParameter', 'float')
    kept = []
    for o in ctx.obligations[before:]:
        if o['rule'] == 'V9':
            o['rule'] = 'O7'
            kept.append(o)
    ctx.obligations[before:] = kept
    _check_provided_flag(ctx)
    n = check_heuristics(ctx, 'O4', only_attrs={'gradient', 'layerthickness', 'gradient_1', 'gradient_2', 'gradient_3', 'gradient_4'})
    ctx.floor('O4', n, 2, 'gradient/thickness heuristic sites')
    ctx.rule('O8', 'the redrilling trigger is exactly produced temperature < (1 - max drawdown) x initial (C05 D4): a floor or other term lets a '
                   'faster drawdown end with a higher reservoir temperature')
    ctx.rule('O9', 'levelized cost vs cost inputs: cogeneration terms stay with their own product (C01 R11); the thermal-storage economics uses a '
                   'supplied per-well cost exactly, zero included (C03 T9)')
    from gxstat.runner import Renamed
    from rules.c05 import check_d4
    check_d4(Renamed(ctx, {'D4': 'O8'}, key_filter=lambda k: True))
    from rules.c01 import check_product_suffix_discipline
    n9 = check_product_suffix_discipline(ctx, 'O9')
    ctx.floor('O9', n9, 10, 'per-product terms of the cogeneration arms')
    from rules.c03 import check_sutra
    check_sutra(Renamed(ctx, {'T9': 'O9'}, key_filter=lambda k: True))
    from rules.helper_contract import run_shared
    run_shared(ctx, None, 'O10', 5)
    ctx.rule('O12', 'every correlation-based surface-plant cost (Cplant and its heat / electricity parts) carries the Surface Plant Capital Cost Adjustment '
                    'Factor as a factor, in every end-use arm (sibling agreement): plant cost and the heat/electricity split respond to the factor the '
                    'same way everywhere')
    from gxstat.inline import inline_sequential as _inls
    from gxstat.flowutil import guards_of as _gof
    _n12 = 0
    for _cn, _suffix in (('Economics', 'geophires_x/Economics.py'), ('SBTEconomics', 'geophires_x/SBTEconomics.py')):
        if not ctx.repo.has_module(_suffix):
            continue
        _calc = ctx.repo.method(_cn, 'Calculate', _suffix)
        for _st in ast.walk(_calc.node):
            if not (isinstance(_st, ast.Assign) and len(_st.targets) == 1):
                continue
            _t = norm(_st.targets[0])
            if _t not in ('self.Cplant.value', 'self.CAPEX_cost_heat_plant', 'self.CAPEX_cost_electricity_plant'):
                continue
            _v = _inls(_st.value, _st)
            _txt = norm(_v)
            _facs = []

            def _flat(e):
                if isinstance(e, ast.BinOp) and isinstance(e.op, ast.Mult):
                    _flat(e.left)
                    _flat(e.right)
                else:
                    _facs.append(e)
            _flat(_v)
            _lits = [x for x in _facs if isinstance(x, ast.Constant) and isinstance(x.value, float)]
            if len(_lits) < 2 or 'ccplantfixed' in _txt or 'self.Cplant.value' in _txt or 'self.CAPEX_cost' in _txt:
                continue        # a supplied figure, a split of the total, or a sum of parts: not a correlation
            _n12 += 1
            _has = any(norm(x).endswith('ccplantadjfactor.value') for x in _facs)
            ctx.check(_has, 'O12', f'{_cn}.Calculate/{_t}@{"+".join(sorted(set(norm(g) for g, _ in _gof(_st, _calc.node)))[-1:])[:60]}/carries-adjustment-factor',
                      f'{_calc.module.rel}:{_st.lineno}',
                      f'`{_t} = {_txt[:80]}` is a cost correlation without the factor ccplantadjfactor.value that its sibling arms carry: in this arm '
                      f'the plant cost (and with it the heat/electricity cost split, LCOE and LCOH) does not follow the adjustment factor',
                      fact='... x ccplantadjfactor.value x ...')
    ctx.floor('O12', _n12, 6, 'plant cost correlation assignments')
    ctx.rule('O11', 'the gradients a run integrates are its own: no list-valued reservoir declaration argument is shared between instances - otherwise '
                    'the response of bottom-hole temperature to depth or gradient depends on which runs came before (C08 P3)')
    from gxstat.runner import Renamed as _Ren
    from rules.c08 import check_p3 as _p3
    _n0 = len(ctx.obligations)
    _p3(_Ren(ctx, {'P3': 'O11'}, key_filter=lambda k: 'Reservoir' in k.split('/')[0] and ('fresh' in k or 'shared-object' in k)))
    ctx.floor('O11', len(ctx.obligations) - _n0, 2, 'list-valued reservoir declarations')
    ctx.undecided('BHT vs depth/gradient through the layer search', 'Ramey temperature drop vs flow rate', 'NPV vs every cost input through the '
                  'correlations', 'BICYCLE arm monotonicity (mixed-sign tax terms)')
    ctx.exhaustive = True
