"""C16 -- price and incentive schedules have the documented shape.

B1 BuildPricingModel (start -> escalate -> cap -> add PTC, per-year formula on every path, range [0, L)),
B2 BuildPTCModel (credited years exactly [0, duration), inflation recurrence), B3 product wiring of the price
models and construction-year zero padding after the revenue calls, B4 ITC / grants / fees arithmetic (= C03 T1/T2)."""
from __future__ import annotations

import ast
from typing import Dict, List, Optional

from gxstat.algebra import Rat, Translator, Unsupported
from gxstat.flowutil import guards_of
from gxstat.srcmodel import AnalysisError, FuncInfo, calls_in, clone, dotted_name, norm, parent
from gxstat.symflow import PathEnumerator, cond_text, expand

ONE = Rat.const(1)


class _Elem(ast.NodeTransformer):
    """Rewrite K[<index text>] into a scalar name so that the loop body becomes straight-line scalar code."""

    def __init__(self, base: str, var: str):
        self.base, self.var = base, var
        self.other: List[str] = []

    def visit_Subscript(self, node):
        self.generic_visit(node)
        if norm(node.value) == self.base:
            idx = norm(node.slice).replace(' ', '')
            if idx == self.var:
                return ast.copy_location(ast.Name(id='ELEM', ctx=node.ctx), node)
            if idx == f'{self.var}-1':
                return ast.copy_location(ast.Name(id='PREV', ctx=node.ctx), node)
            self.other.append(norm(node))
        return node


def _scalar_paths(ctx, loop: ast.For, base: str):
    body = [clone(s) for s in loop.body]
    tr = _Elem(base, norm(loop.target))
    body = [ast.fix_missing_locations(tr.visit(s)) for s in body]
    if tr.other:
        raise AnalysisError(f'element of {base} accessed at unexpected index: {tr.other[:2]}')
    pe = PathEnumerator(body, {'ELEM'}, fork_all=True, prune=False)
    return pe.paths()


def check_b1(ctx) -> None:
    f = ctx.repo.function('geophires_x/Economics.py', 'BuildPricingModel')
    rel = f.module.rel
    ctx.require(f.args == ['plantlifetime', 'StartPrice', 'EndPrice', 'EscalationStartYear', 'EscalationRate', 'PTCAddition'],
                f'BuildPricingModel signature changed: {f.args}')
    loops = [s for s in f.node.body if isinstance(s, ast.For)]
    ctx.require(len(loops) == 1, 'BuildPricingModel: expected one loop')
    lp = loops[0]
    a = [norm(x) for x in lp.iter.args] if isinstance(lp.iter, ast.Call) and dotted_name(lp.iter.func) == 'range' else []
    ok = a in (['0', 'plantlifetime', '1'], ['0', 'plantlifetime'], ['plantlifetime'])
    ctx.check(ok, 'B1', 'BuildPricingModel/year-range', f'{rel}:{lp.lineno}', f'price years run over range({", ".join(a)}); expected [0, lifetime)',
              fact='[0, L)')
    ctx.local_anchor(f, 'Price')
    init = [s for s in f.node.body if isinstance(s, ast.Assign) and norm(s.targets[0]) == 'Price']
    ctx.check(len(init) == 1 and norm(init[0].value) in ('[0.0] * plantlifetime', 'plantlifetime * [0.0]'), 'B1', 'BuildPricingModel/length',
              f'{rel}:{init[0].lineno if init else lp.lineno}', 'price series is not lifetime long')
    i = norm(lp.target)
    paths = _scalar_paths(ctx, lp, 'Price')
    ctx.floor('B1', len(paths), 1, 'paths through the per-year price computation')

    def atom_of(n):
        if isinstance(n, ast.Subscript) and norm(n.value) == 'PTCAddition':
            return f'PTC[{norm(n.slice)}]'
        return None
    S, Eend, Y, Rt = Rat.atom('StartPrice'), Rat.atom('EndPrice'), Rat.atom('EscalationStartYear'), Rat.atom('EscalationRate')
    I = Rat.atom(i)
    for p in paths:
        d = p.env.get('ELEM')
        ctx.require(d is not None and d.expr is not None, 'BuildPricingModel: a path leaves the year\'s price undefined')
        try:
            val = Translator(atom_of=atom_of).tr_def(d)
        except Unsupported as e:
            raise AnalysisError(f'BuildPricingModel: {e}')
        esc = cap = None
        esc_strict = False
        for test, pol, binds in p.conds:
            t = norm(test)
            if t in (f'{i} >= EscalationStartYear', f'{i} > EscalationStartYear', f'EscalationStartYear <= {i}', f'EscalationStartYear < {i}'):
                esc = pol
            elif 'EndPrice' in t:
                cap = (test, pol, binds)
            else:
                ctx.bad('B1', f'BuildPricingModel/unexpected-guard:{t[:40]}', f'{rel}:{test.lineno}',
                        f'the yearly price additionally depends on `{t}`')
        if cap is None and esc is not None:
            # accepted idiom: Price[i] = min(<escalated price>, EndPrice) instead of an if-test
            from gxstat.symflow import expand_def
            full = expand_def(d)
            mins = [c for c in ast.walk(full) if isinstance(c, ast.Call) and dotted_name(c.func) in ('min', 'np.minimum') and len(c.args) == 2]
            unc = S + ((I - Y) * Rt if esc else Rat.const(0))
            okmin = False
            if len(mins) == 1:
                try:
                    a0, a1 = (Translator(atom_of=atom_of).tr(x) for x in mins[0].args)
                    okmin = (a0.equals(unc) and a1.equals(Eend)) or (a1.equals(unc) and a0.equals(Eend))
                    if okmin:
                        matom = Translator(atom_of=atom_of).tr(mins[0])
                        okmin = val.equals(matom + Rat.atom(f'PTC[{i}]'))
                except Unsupported:
                    okmin = False
            if okmin:
                ctx.ok('B1', f'BuildPricingModel/{"escalating" if esc else "before-escalation"}/min-form/price', f'{rel}:{d.line}',
                       'min(start + escalation, EndPrice) + PTC')
                continue
        if cap is None:
            ctx.bad('B1', f'BuildPricingModel/{"escalating" if esc else "before-escalation" if esc is not None else "any-year"}/cap-not-applied',
                    f'{rel}:{d.line}', f'on the path {cond_text(p.conds)[:80]} the price `{val.show()}` is never compared with the ending price: '
                    f'a year\'s price can exceed the ending price (e.g. when the starting price is already above it)')
            continue
        if esc is None:
            ctx.bad('B1', 'BuildPricingModel/escalation-guard-missing', f'{rel}:{d.line}',
                    'the escalation increment is not guarded by the escalation start year on this path')
            continue
        uncapped = S + ((I - Y) * Rt if esc else Rat.const(0))
        # the cap test compares the escalated, pre-PTC price with the ending price
        test, pol, binds = cap
        tx = expand(test, binds)
        okcap = isinstance(tx, ast.Compare) and len(tx.ops) == 1
        if okcap:
            try:
                lhs, rhs = Translator(atom_of=atom_of).tr(tx.left), Translator(atom_of=atom_of).tr(tx.comparators[0])
                op = tx.ops[0]
                okcap = (isinstance(op, (ast.Gt, ast.GtE)) and lhs.equals(uncapped) and rhs.equals(Eend)) or \
                        (isinstance(op, (ast.Lt, ast.LtE)) and rhs.equals(uncapped) and lhs.equals(Eend))
            except Unsupported:
                okcap = False
        leaf = f'{"escalating" if esc else "before-escalation"}/{"capped" if pol else "below-cap"}'
        ctx.check(okcap, 'B1', f'BuildPricingModel/{leaf}/cap-test', f'{rel}:{test.lineno}',
                  f'the ending-price test `{norm(tx)[:90]}` does not compare the escalated price (before the tax credit) with the ending price',
                  fact='(start + escalation) > EndPrice')
        want = (Eend if pol else uncapped) + Rat.atom(f'PTC[{i}]')
        ctx.check(val.equals(want), 'B1', f'BuildPricingModel/{leaf}/price', f'{rel}:{d.line}',
                  f'price of year {i} on this path is `{val.show()}`; documented shape is `{want.show()}` (start price, linear escalation from '
                  f'the escalation start year, capped at the ending price, production tax credit added on top)', fact=want.show())
    rets = [x for x in ast.walk(f.node) if isinstance(x, ast.Return)]
    ctx.check(len(rets) == 1 and norm(rets[0].value) == 'Price', 'B1', 'BuildPricingModel/returns-series', f.where, 'does not return the price series')


def check_b2(ctx) -> None:
    f = ctx.repo.function('geophires_x/Economics.py', 'BuildPTCModel')
    rel = f.module.rel
    ctx.require(f.args == ['plantlifetime', 'duration', 'ptc_price', 'ptc_inflation_adjusted', 'inflation_rate'],
                f'BuildPTCModel signature changed: {f.args}')
    loops = [s for s in f.node.body if isinstance(s, ast.For)]
    ctx.require(len(loops) == 1, 'BuildPTCModel: expected one loop')
    lp = loops[0]
    y = norm(lp.target)
    a = [norm(x) for x in lp.iter.args] if isinstance(lp.iter, ast.Call) and dotted_name(lp.iter.func) == 'range' else []
    if a in (['0', 'duration', '1'], ['0', 'duration'], ['duration']):
        ctx.ok('B2', 'BuildPTCModel/credited-years', f'{rel}:{lp.lineno}', 'credited years [0, duration)')
        guard_form = False
    elif a in (['0', 'plantlifetime', '1'], ['0', 'plantlifetime'], ['plantlifetime']):
        guard_form = True      # accepted idiom: loop over all years with `if year < duration`
    else:
        ctx.bad('B2', 'BuildPTCModel/credited-years', f'{rel}:{lp.lineno}',
                f'the tax credit is applied for years range({", ".join(a)}); its stated duration covers exactly years [0, duration)')
        guard_form = False
    init = [s for s in f.node.body if isinstance(s, ast.Assign) and norm(s.targets[0]) == 'Price']
    ctx.check(len(init) == 1 and norm(init[0].value) in ('[0.0] * plantlifetime', 'plantlifetime * [0.0]'), 'B2', 'BuildPTCModel/zero-outside-duration',
              f'{rel}:{init[0].lineno if init else lp.lineno}', 'the credit series is not zero-initialised over the lifetime')
    paths = _scalar_paths(ctx, lp, 'Price')
    P, R = Rat.atom('ptc_price'), Rat.atom('inflation_rate')
    n = 0
    # decide the guards by their meaning, not their spelling: every path is evaluated over the finite domain
    # (inflation adjusted?) x (year = 0, 1, 2) [x (year < duration?) in the all-years form]; a path applies where all its tests hold
    from rules.c07 import eval_pred, _Unknown
    DUR = 2
    covered = set()
    for p in paths:
        d = p.env.get('ELEM')
        val = None
        if d is not None:
            try:
                val = Translator().tr_def(d)
            except Unsupported as e:
                raise AnalysisError(f'BuildPTCModel: {e}')
        applies = []
        for adj in (False, True):
            for yr in ((0, 1, 2, 3) if guard_form else (0, 1)):
                env = {'ptc_inflation_adjusted': adj, y: yr, 'duration': DUR, '0': 0}
                try:
                    ok_all = all(eval_pred(t, env) == pol for t, pol, _ in p.conds)
                except _Unknown as u:
                    raise AnalysisError(f'BuildPTCModel: guard `{u.key[:60]}` is outside the decidable form (cannot decide)')
                if ok_all:
                    applies.append((adj, yr))
        for adj, yr in applies:
            covered.add((adj, yr))
            in_dur = (yr < DUR) if guard_form else True
            n += 1
            key = f'BuildPTCModel/credit@adjusted={adj},year={"0" if yr == 0 else ">0" if in_dur else ">=duration"}'
            where = f'{rel}:{d.line if d is not None else lp.lineno}'
            if not in_dur:
                ctx.check(d is None, 'B2', key, where, 'a year at or after the duration receives a credit', fact='zero outside the duration')
                continue
            want = Rat.atom('PREV') * (ONE + R) if (adj and yr > 0) else P
            ctx.check(val is not None and val.equals(want), 'B2', key, where,
                      f'credit of {"the first year" if yr == 0 else "a later year"} with inflation adjustment {"on" if adj else "off"} is '
                      f'`{val.show() if val is not None else "not set"}`; documented `{want.show()}` (flat credit; previous year x (1 + inflation) '
                      f'only when requested and from the second credited year)', fact=want.show())
    need = {(a_, y_) for a_ in (False, True) for y_ in ((0, 1, 2, 3) if guard_form else (0, 1))}
    ctx.check(covered == need, 'B2', 'BuildPTCModel/every-case-has-a-path', f'{rel}:{lp.lineno}',
              f'no path of the loop body applies for {sorted(need - covered)[:3]} (adjusted?, year)', fact='all cases covered')
    ctx.floor('B2', n, 2, 'credit paths')


PRODUCTS = ('Elec', 'Heat', 'Cooling', 'Carbon')


def check_b3(ctx, fn: FuncInfo, tag: str) -> None:
    # read on the canonical form: a local bound once to an attribute path is that path, and a loop over a literal table of
    # (price model, start, end, ...) rows is its rows written out
    import dataclasses
    from gxstat.inline import canonical_function, unroll_literal_loops
    fn = dataclasses.replace(fn, node=unroll_literal_loops(canonical_function(fn.node, unnest=False)))
    rel = fn.module.rel
    L = 'model.surfaceplant.plant_lifetime.value'
    n = 0
    for st in ast.walk(fn.node):
        if isinstance(st, ast.Assign) and isinstance(st.value, ast.Call) and dotted_name(st.value.func) == 'BuildPricingModel':
            n += 1
            tgt = norm(st.targets[0])
            prod = next((p for p in PRODUCTS if tgt == f'self.{p}Price.value'), None)
            args = [norm(a) for a in st.value.args]
            key = f'{tag}/BuildPricingModel->{tgt}'
            if prod is None:
                ctx.bad('B3', key, f'{rel}:{st.lineno}', 'price model assigned to an unexpected attribute')
                continue
            want = [L, f'self.{prod}StartPrice.value', f'self.{prod}EndPrice.value', f'self.{prod}EscalationStart.value',
                    f'self.{prod}EscalationRate.value', f'self.PTC{prod}Price']
            ctx.check(args == want, 'B3', key, f'{rel}:{st.lineno}',
                      f'{prod} price model is built from {args}; expected that product\'s own start/end/escalation/PTC inputs {want}',
                      fact=f'{prod}: start, end, escalation start, escalation rate, PTC{prod}Price')
        if isinstance(st, ast.Assign) and isinstance(st.value, ast.Call) and dotted_name(st.value.func) == 'BuildPTCModel':
            n += 1
            tgt = norm(st.targets[0])
            prod = next((p for p in PRODUCTS if tgt == f'self.PTC{p}Price'), None)
            args = [norm(a) for a in st.value.args]
            key = f'{tag}/BuildPTCModel->{tgt}'
            want = [L, 'self.PTCDuration.value', f'self.PTC{prod}.value', 'self.PTCInflationAdjusted.value', 'self.RINFL.value']
            g = [norm(t) for t, pol in guards_of(st, fn.node) if pol]
            ctx.check(prod is not None and args == want and g == [f'self.PTC{prod}.Provided'], 'B3', key, f'{rel}:{st.lineno}',
                      f'{prod} tax-credit model is built from {args} under {g}; expected {want} when that credit is provided')
    ctx.floor('B3', n, 7, f'{tag}: price/PTC model call sites')
    # zero-initialised PTC series when no credit is provided
    if n < 7:
        # the call sites were rewritten (table loop, helper): the initialisation below is looked for in the same, old shape - not decidable
        raise AnalysisError(f'{tag}: only {n} price/PTC model call sites found in the expected shape (rewritten): cannot decide')
    for p in PRODUCTS:
        z = [s for s in fn.node.body if isinstance(s, ast.Assign) and norm(s.targets[0]) == f'self.PTC{p}Price']
        ctx.check(len(z) == 1 and norm(z[0].value) == f'[0.0] * {L}', 'B3', f'{tag}/PTC{p}Price/default-zero', f'{rel}:{z[0].lineno if z else fn.node.lineno}',
                  f'PTC{p}Price is not initialised to zeros over the lifetime')
    # construction-year zero padding: one loop over range(0, C) inserting 0.0 at the front of the four price series,
    # placed after every statement that uses the unpadded series with energy series
    pads = [x for x in fn.node.body if isinstance(x, ast.For) and any(
        isinstance(c.func, ast.Attribute) and c.func.attr == 'insert' and 'Price.value' in norm(c.func.value) for c in calls_in(x))]
    CY = 'model.surfaceplant.construction_years.value'
    if not pads:
        # slice form: `<series>[:0] = [0.0] * C` (directly, or for each of a literal tuple of price models) prepends the same C zeros
        from gxstat.inline import inline_sequential
        slices = []
        for top_st in fn.node.body:
            for x in ast.walk(top_st):
                if isinstance(x, ast.Assign) and len(x.targets) == 1 and isinstance(x.targets[0], ast.Subscript) and isinstance(x.targets[0].slice, ast.Slice) \
                        and x.targets[0].slice.lower is None and isinstance(x.targets[0].slice.upper, ast.Constant) and x.targets[0].slice.upper.value == 0 \
                        and x.targets[0].slice.step is None:
                    slices.append((top_st, x))
        ctx.require(slices and (len({id(t) for t, _ in slices}) == 1 or all(t is x for t, x in slices)),
                    f'{tag}: construction-year padding loop not found at top level')
        pad = slices[-1][0]          # (ordering checks below are relative to the last padding statement)
        series = []
        vals = set()
        for top_st, x in slices:
            base = x.targets[0].value
            vals.add(norm(inline_sequential(x.value, x, cross_loops=True)))
            if isinstance(top_st, ast.For) and isinstance(top_st.iter, (ast.Tuple, ast.List)) and isinstance(top_st.target, ast.Name) and \
                    isinstance(base, ast.Attribute) and isinstance(base.value, ast.Name) and base.value.id == top_st.target.id:
                series += [f'{norm(e)}.{base.attr}' for e in top_st.iter.elts]
            else:
                series.append(norm(base))
        ctx.check(vals <= {f'[0.0] * {CY}', f'{CY} * [0.0]'}, 'B3', f'{tag}/padding/count', f'{rel}:{pad.lineno}',
                  f'padding prepends {sorted(vals)}; one zero per construction year is required')
        ctx.check(sorted(series) == sorted(f'self.{p}Price.value' for p in PRODUCTS), 'B3', f'{tag}/padding/series-and-value', f'{rel}:{pad.lineno}',
                  f'padding prepends to {sorted(series)}; each of the four price series gets the zeros')
    else:
        ctx.require(len(pads) == 1, f'{tag}: construction-year padding loop not found at top level')
        pad = pads[0]
        a = [norm(x) for x in pad.iter.args]
        ctx.check(a in (['0', CY, '1'], ['0', CY], [CY]), 'B3', f'{tag}/padding/count', f'{rel}:{pad.lineno}',
                  f'padding loop runs range({", ".join(a)}); one zero per construction year is required')
        ins = [c for c in calls_in(pad) if isinstance(c.func, ast.Attribute) and c.func.attr == 'insert']
        series = sorted(norm(c.func.value) for c in ins)
        ctx.check(series == sorted(f'self.{p}Price.value' for p in PRODUCTS) and all([norm(x) for x in c.args] == ['0', '0.0'] for c in ins), 'B3',
                  f'{tag}/padding/series-and-value', f'{rel}:{pad.lineno}',
                  f'padding inserts {[(norm(c.func.value), [norm(x) for x in c.args]) for c in ins][:4]}; each of the four price series gets 0.0 at index 0')
    top = list(fn.node.body)
    pidx = top.index(pad)
    late = []
    for s in top[pidx + 1:]:
        for c in calls_in(s):
            d = dotted_name(c.func) or ''
            if d in ('CalculateRevenue', 'CalculateCarbonRevenue', 'BuildPricingModel') or d.endswith('addeconomics.Calculate') or \
                    d.endswith('sdacgteconomics.Calculate'):
                late.append((c.lineno, d))
    ctx.check(not late, 'B3', f'{tag}/padding/after-revenue', f'{rel}:{pad.lineno}',
              f'{late[0][1] if late else ""} (line {late[0][0] if late else 0}) runs after the price series were padded with construction-year '
              f'zeros: it indexes prices by operating year and would be shifted by the padding')
    early = [c for s in top[:pidx] for c in calls_in(s) if dotted_name(c.func) in ('CalculateRevenue',)]
    ctx.check(len(early) >= 5, 'B3', f'{tag}/padding/revenue-before', f'{rel}:{pad.lineno}', 'revenue calls not found before the padding')


def run(ctx) -> None:
    ctx.rule('B1', 'BuildPricingModel: for every year in [0, L) and on every path the price is (start + (year - escalation start) x rate '
                   'from the escalation start year), capped at the ending price, plus that year\'s tax credit; the cap test sees the '
                   'pre-credit price')
    ctx.rule('B2', 'BuildPTCModel: credited years are exactly [0, duration); flat credit, or previous year x (1 + inflation) only when '
                   'requested and from the second year; zero elsewhere')
    ctx.rule('B3', 'each product\'s price/PTC model is built from that product\'s own inputs; construction-year zeros are inserted once '
                   'per construction year at the front of the four price series, after all operating-year consumers')
    ctx.rule('B4', 'ITC lowers capital cost by rate x cost; grants, incentives, fees, tax relief change totals by exactly their amounts '
                   '(identities T1/T2 of C03, re-evaluated here)')
    ctx.rule('B5', 'a supplied credit / price figure equal to its default still counts as provided (reader sets .Provided; C07 V9)')
    ctx.rule('B6', 'the inputs handed to BuildPricingModel / BuildPTCModel are assigned by the reader only')
    check_b1(ctx)
    check_b2(ctx)
    repo = ctx.repo
    econ = repo.method('Economics', 'Calculate', 'geophires_x/Economics.py')
    sbt = repo.method('SBTEconomics', 'Calculate', 'geophires_x/SBTEconomics.py')
    check_b3(ctx, econ, 'Economics')
    check_b3(ctx, sbt, 'SBTEconomics')
    # B4 = T1/T2 of C03
    from rules.c03 import check_totals
    before = len(ctx.obligations)
    check_totals(ctx, econ, 'Economics')
    check_totals(ctx, sbt, 'SBTEconomics')
    keep = []
    for o in ctx.obligations[before:]:
        if o['rule'] in ('T1', 'T2'):
            o['rule'] = 'B4'
            keep.append(o)
    ctx.obligations[before:] = keep
    # B5: the credit / price models are built only when the corresponding input is .Provided: the reader must set that flag for every
    # supplied figure, including one equal to the default (shared with C07 V9)
    from gxstat.runner import Renamed
    from rules.c07 import check_reader_arm
    rp = repo.module('geophires_x/Parameter.py').functions.get('ReadParameter')
    ctx.require(rp is not None, 'Parameter.ReadParameter not found')
    gated = [n for n in ast.walk(econ.node) if isinstance(n, ast.If) and '.Provided' in norm(n.test) and
             any('BuildPTCModel' in norm(c.func) for c in calls_in(n))]
    ctx.floor('B5', len(gated), 1, 'PTC models gated on .Provided')
    n0 = len(ctx.obligations)
    check_reader_arm(Renamed(ctx, {'V9': 'B5'}), rp, 'floatParameter', 'float')
    ctx.floor('B5', len(ctx.obligations) - n0, 2, 'reader obligations behind the .Provided gate')
    # B6: the inputs of the schedule (start / end price, escalation start and rate, credit price, duration ...) are what the user stated:
    # apart from the reader nothing assigns them
    args = set()
    for f_ in (econ, sbt):
        for c in calls_in(f_.node):
            if (dotted_name(c.func) or '').split('.')[-1] in ('BuildPricingModel', 'BuildPTCModel'):
                for a in list(c.args) + [k.value for k in c.keywords]:
                    for x in ast.walk(a):
                        if isinstance(x, ast.Attribute) and x.attr == 'value' and norm(x).startswith('self.'):
                            args.add(norm(x))
    ctx.floor('B6', len(args), 12, 'schedule inputs passed to the price / credit model builders')
    ctx.analysed['schedule_inputs'] = sorted(args)
    for cn in ('Economics', 'SBTEconomics', 'SUTRAEconomics', 'AGSEconomics', 'EconomicsAddOns'):
        for ci in repo.classes.get(cn, []):
            for m in ci.methods.values():
                from gxstat.inline import unroll_literal_loops
                # a store through the variable of a loop over a literal table of parameter objects is a store to each of them
                for st in ast.walk(unroll_literal_loops(m.node)):
                    if isinstance(st, (ast.Assign, ast.AugAssign)):
                        for t in (st.targets if isinstance(st, ast.Assign) else [st.target]):
                            if norm(t) in args:
                                ctx.bad('B6', f'{m.qualname}/overwrites:{norm(t)}', f'{m.module.rel}:{st.lineno}',
                                        f'`{norm(st)[:100]}` replaces a schedule input after it was read: the price / credit series is then built '
                                        f'from a figure the user did not state (e.g. the stated ending price no longer caps the price)')
    ctx.ok('B6', 'schedule-inputs/only-the-reader-assigns-them', econ.where, f'{len(args)} inputs; every other store is reported individually')
    ctx.undecided('float rounding', 'PTC duration longer than the lifetime is outside the quantifier (IndexError at run time)')
