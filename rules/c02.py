"""C02 -- energy flows balance at every time step and over every year.

F1 heat extracted (formula + call-site binding), F2 net = gross - pumping, F3 cogeneration partition identities,
F4 end-use relations (industrial, heat pump, chiller, district heating), F5 annual <- power pairing,
F6 the integrator, F7 remaining reservoir heat, F8 district-heating split."""
from __future__ import annotations

import ast
from fractions import Fraction
from typing import Dict, List, Optional, Set, Tuple

from gxstat.algebra import Rat, Translator, Unsupported
from gxstat.domains import UNIT_TABLE, UT, Lit, UnitMismatch, UnitTyper, close, NONE
from gxstat.flowutil import guards_of
from gxstat.loops import loop_stores
from gxstat.srcmodel import AnalysisError, FuncInfo, calls_in, dotted_name, norm, parent, walk_no_nested
from gxstat.symflow import PathEnumerator, cond_text

ELEC_PLANTS = ['SurfacePlantSubcriticalOrc', 'SurfacePlantSupercriticalOrc', 'SurfacePlantSingleFlash', 'SurfacePlantDoubleFlash']
HEAT_PLANTS = ['SurfacePlantIndustrialHeat', 'SurfacePlantHeatPump', 'SurfacePlantAbsorptionChiller', 'SurfacePlantDistrictHeating']
W = 'model.wellbores'
HE_ATTR = (Rat.atom(f'{W}.nprod.value') * Rat.atom(f'{W}.prodwellflowrate.value') * Rat.atom('model.reserv.cpwater.value') *
           (Rat.atom(f'{W}.ProducedTemperature.value') - Rat.atom(f'{W}.Tinj.value')) / Rat.const(10 ** 6))
# annual series <- power series (same quantity, energy vs power): one line of reason per row
ANNUAL_OF = {
    'HeatkWhExtracted': 'HeatExtracted',                 # heat taken from the geofluid
    'PumpingkWh': 'PumpingPower',                        # pumping electricity bought
    'TotalkWhProduced': 'ElectricityProduced',           # gross electricity
    'NetkWhProduced': 'NetElectricityProduced',          # net electricity sold
    'HeatkWhProduced': 'HeatProduced',                   # useful heat sold
    'cooling_kWh_Produced': 'cooling_produced',          # cooling sold
    'heat_pump_electricity_kwh_used': 'heat_pump_electricity_used',   # heat-pump electricity bought
}


def _tr(node, **kw) -> Rat:
    try:
        return Translator(**kw).tr(node)
    except Unsupported as e:
        raise AnalysisError(f'expression outside the supported algebra: {e}')


def _resolve_alias(g: FuncInfo, call: ast.Call, text: str) -> str:
    """A local name standing for an attribute (x = model.wellbores.Tinj.value) is as good as the attribute itself
    provided the attribute is not written between the alias definition and the call."""
    if '.' in text or not text.isidentifier():
        return text
    defs = [s for s in ast.walk(g.node) if isinstance(s, ast.Assign) and len(s.targets) == 1 and norm(s.targets[0]) == text
            and s.lineno < call.lineno]
    if len(defs) != 1:
        return text
    src = norm(defs[0].value)
    if not src.endswith('.value'):
        return text
    for s in ast.walk(g.node):
        if isinstance(s, (ast.Assign, ast.AugAssign)) and defs[0].lineno < s.lineno < call.lineno:
            for t in (s.targets if isinstance(s, ast.Assign) else [s.target]):
                for e in (t.elts if isinstance(t, ast.Tuple) else [t]):
                    b = e.value if isinstance(e, ast.Subscript) else e
                    if norm(b) == src:
                        return f'{text} (stale copy of {src} taken at line {defs[0].lineno}, overwritten at line {s.lineno})'
    return src


def check_core(ctx) -> None:
    repo = ctx.repo
    f = repo.method('SurfacePlant', 'electricity_heat_production')
    rel = f.module.rel
    want_args = ['self', 'enduse_option', 'availability', 'etau', 'nprod', 'prodwellflowrate', 'cpwater', 'ProducedTemperature', 'Tinj',
                 'ReinjTemp', 'T_chp_bottom', 'enduse_efficiency_factor', 'chp_fraction']
    # F1 (contract at the call sites, whatever the order of the signature): an argument that is the attribute of the same name as one of
    # the parameters (`self.chp_fraction.value`, `model.wellbores.Tinj.value`) binds to that parameter and to no other
    low = {p.lower(): i for i, p in enumerate(f.args)}
    for g in repo.all_functions():
        if g.cls is None or not g.cls.name.startswith('SurfacePlant') or g.cls.name == 'SurfacePlantAGS':
            continue
        for c in calls_in(g.node):
            if not (isinstance(c.func, ast.Attribute) and c.func.attr == f.name):
                continue
            explicit_self = bool(c.args) and isinstance(c.args[0], ast.Name) and c.args[0].id == 'self'
            off = 0 if explicit_self else 1
            for i, a_ in enumerate(c.args):
                d_ = dotted_name(a_)
                if not d_ or i + off >= len(f.args):
                    continue
                ps_ = d_.split('.')
                nm_ = ps_[-2] if ps_[-1] == 'value' and len(ps_) >= 2 else ps_[-1]
                j = low.get(nm_.lower())
                if j is None or nm_ == 'self':
                    continue
                ctx.check(j == i + off, 'F1', f'{g.qualname}/{f.name}({f.args[j]})<-{nm_}', f'{g.module.rel}:{c.lineno}',
                          f'`{norm(a_)}` is handed over in the position of parameter `{f.args[i + off]}`; the parameter of its own name is at '
                          f'another position: after a change of the signature this caller still passes the old order, so {f.args[i + off]} '
                          f'receives {nm_} (and the heat/electricity split of this plant no longer balances)', fact=f'{nm_} -> {f.args[j]}')
    ctx.require(f.args == want_args, f'electricity_heat_production signature changed: {f.args}')
    keys = {'HeatExtracted', 'HeatProduced', 'HeatExtractedTowardsElectricity', 'ElectricityProduced'}
    paths = [p for p in PathEnumerator(f.node.body, keys).paths() if p.ended == 'return']
    ctx.floor('F3', len(paths), 5, 'paths of electricity_heat_production')
    a = Rat.atom
    flow = a('nprod') * a('prodwellflowrate')
    he_want = flow * a('cpwater') * (a('ProducedTemperature') - a('Tinj')) / Rat.const(10 ** 6)
    gross = a('availability') * a('etau') * flow
    for p in paths:
        arm = 'none'
        for t, pol, _ in p.conds:
            if pol and 'enduse_option' in norm(t):
                txt = norm(t)
                arm = 'electricity' if 'EndUseOptions.ELECTRICITY' in txt and 'COGEN' not in txt else \
                    ('topping' if 'TOPPING' in txt else 'bottoming' if 'BOTTOMING' in txt else 'parallel' if 'PARALLEL' in txt else 'other')
        if arm == 'none' and any('enduse_option' in norm(t) for t, pol, _ in p.conds):
            arm = 'heat-only(fallthrough)'
        T = Translator()
        vals = {}
        for k in keys:
            d = p.env.get(k)
            if d is None or d.expr is None:
                vals[k] = None
                continue
            try:
                vals[k] = T.tr_def(d)
            except Unsupported as e:
                raise AnalysisError(f'electricity_heat_production/{arm}: {e}')
        ret = p.ret.expr
        ctx.check(isinstance(ret, ast.Tuple) and [norm(e) for e in ret.elts] == ['ElectricityProduced', 'HeatExtracted', 'HeatProduced',
                                                                                 'HeatExtractedTowardsElectricity'],
                  'F1', f'electricity_heat_production/{arm}/return-order', f'{rel}:{p.ret.line}', f'returns `{norm(ret)}`')
        where = f'{rel}:{p.env["HeatExtracted"].line}'
        ctx.check(vals['HeatExtracted'] is not None and vals['HeatExtracted'].equals(he_want), 'F1', f'electricity_heat_production/{arm}/HeatExtracted',
                  where, f'heat extracted is `{vals["HeatExtracted"].show() if vals["HeatExtracted"] else None}`, not wells x flow x cp x (production - '
                         f'injection temperature) / 1e6', fact='nprod*flow*cp*(Tprod - Tinj)/1e6')
        eff = a('enduse_efficiency_factor')
        if arm in ('topping', 'bottoming', 'parallel'):
            hp, ht = vals['HeatProduced'], vals['HeatExtractedTowardsElectricity']
            empty = lambda r: r is None or 'np.empty' in r.show()
            ok = not empty(hp) and not empty(ht) and (ht + hp / eff - he_want).is_zero()
            ctx.check(ok, 'F3', f'electricity_heat_production/{arm}/partition', f'{rel}:{p.env["HeatProduced"].line}',
                      f'cogeneration {arm}: heat towards electricity + useful heat / efficiency - heat extracted = '
                      f'`{(ht + hp / eff - he_want).show(6) if not empty(hp) and not empty(ht) else "undefined"}` (must vanish identically)',
                      fact='HeatToElectricity + HeatProduced/eta == HeatExtracted')
            g = gross * (Rat.const(1) - a('chp_fraction')) if arm == 'parallel' else gross
            ctx.check(vals['ElectricityProduced'].equals(g), 'F3', f'electricity_heat_production/{arm}/gross-electricity',
                      f'{rel}:{p.env["ElectricityProduced"].line}',
                      f'gross electricity is `{vals["ElectricityProduced"].show()}`; expected availability x utilisation efficiency x flow'
                      f'{" x (1 - chp fraction)" if arm == "parallel" else ""}')
            # sign: each of the two heat parts has a non-negative temperature/flow split by construction of the arm
        elif arm == 'electricity':
            ctx.check(vals['HeatExtractedTowardsElectricity'] is not None and vals['HeatExtractedTowardsElectricity'].equals(he_want), 'F3',
                      'electricity_heat_production/electricity/all-heat-to-electricity', where,
                      'pure electricity: heat towards electricity is not all extracted heat')
            ctx.check(vals['ElectricityProduced'].equals(gross), 'F3', 'electricity_heat_production/electricity/gross-electricity', where,
                      f'gross electricity is `{vals["ElectricityProduced"].show()}`')
    # ---- call sites in the four electricity plants: binding of formal to reported attributes, net = gross - pumping
    bind_want = {'nprod': f'{W}.nprod.value', 'prodwellflowrate': f'{W}.prodwellflowrate.value', 'cpwater': 'model.reserv.cpwater.value',
                 'ProducedTemperature': f'{W}.ProducedTemperature.value', 'Tinj': f'{W}.Tinj.value',
                 'enduse_option': 'self.enduse_option.value', 'enduse_efficiency_factor': 'self.enduse_efficiency_factor.value',
                 'chp_fraction': 'self.chp_fraction.value', 'T_chp_bottom': 'self.T_chp_bottom.value', 'availability': 'self.Availability.value'}
    for cn in ELEC_PLANTS:
        g = repo.method(cn, 'Calculate')
        grel = g.module.rel
        cs = [c for c in calls_in(g.node) if (dotted_name(c.func) or '').endswith('electricity_heat_production')]
        ctx.require(len(cs) == 1, f'{cn}.Calculate: electricity_heat_production call not found')
        c = cs[0]
        actual = [_resolve_alias(g, c, norm(x)) for x in c.args]
        formals = f.args if (dotted_name(c.func) or '').startswith('SurfacePlant.') else f.args[1:]
        b = dict(zip(formals, actual))
        wrong = {k: b.get(k) for k, v in bind_want.items() if b.get(k) != v}
        ctx.check(not wrong, 'F1', f'{cn}.Calculate/heat-balance-binding', f'{grel}:{c.lineno}',
                  f'the energy balance is evaluated with {wrong} instead of the reported quantities '
                  f'{ {k: bind_want[k] for k in wrong} }: heat extracted no longer equals flow x cp x (reported production - reported '
                  f'injection temperature)', fact='formals bound to the reported attributes')
        st = c
        while not isinstance(st, ast.stmt):
            st = parent(st)
        tg = [norm(e) for e in st.targets[0].elts] if isinstance(st, ast.Assign) and isinstance(st.targets[0], ast.Tuple) else []
        ctx.check(tg[:3] == ['self.ElectricityProduced.value', 'self.HeatExtracted.value', 'self.HeatProduced.value'] and len(tg) == 4 and tg[3].isidentifier(),
                  'F1', f'{cn}.Calculate/heat-balance-unpack', f'{grel}:{c.lineno}', f'results unpacked into {tg}')
        # Tinj handed over must be read after the plant's own reinjection override (the reported value)
        tinj_writes = [s for s in g.node.body if isinstance(s, ast.Assign) and 'model.wellbores.Tinj.value' in
                       ([norm(e) for e in s.targets[0].elts] if isinstance(s.targets[0], ast.Tuple) else [norm(s.targets[0])])]
        ctx.check(all(s.lineno < c.lineno for s in tinj_writes), 'F1', f'{cn}.Calculate/Tinj-final-before-balance', f'{grel}:{c.lineno}',
                  'the injection temperature is overwritten after the heat balance was evaluated with it')
        net = [s for s in g.node.body if isinstance(s, ast.Assign) and norm(s.targets[0]) == 'self.NetElectricityProduced.value']
        ctx.require(len(net) == 1, f'{cn}.Calculate: NetElectricityProduced definition not found')
        r = _tr(net[0].value)
        ctx.check(r.equals(Rat.atom('self.ElectricityProduced.value') - Rat.atom(f'{W}.PumpingPower.value')), 'F2',
                  f'{cn}.Calculate/net=gross-pumping', f'{grel}:{net[0].lineno}',
                  f'net electricity is `{r.show()}`, not gross electricity minus total pumping power', fact='Net = Gross - PumpingPower')
        ctx.check(net[0].lineno > c.lineno, 'F2', f'{cn}.Calculate/net-after-gross', f'{grel}:{net[0].lineno}', 'net computed before gross')
        # annual call binding
        an = [x for x in calls_in(g.node) if (dotted_name(x.func) or '').endswith('annual_electricity_pumping_power')]
        ctx.require(len(an) == 1, f'{cn}.Calculate: annual_electricity_pumping_power call not found')
        af = repo.method('SurfacePlant', 'annual_electricity_pumping_power')
        aformals = af.args if (dotted_name(an[0].func) or '').startswith('SurfacePlant.') else af.args[1:]
        ab = dict(zip(aformals, [_resolve_alias(g, an[0], norm(x)) for x in an[0].args]))
        awant = {'plant_lifetime': 'self.plant_lifetime.value', 'enduse_option': 'self.enduse_option.value', 'HeatExtracted': 'self.HeatExtracted.value',
                 'time_steps_per_year': 'model.economics.timestepsperyear.value', 'utilization_factor': 'self.utilization_factor.value',
                 'PumpingPower': f'{W}.PumpingPower.value', 'ElectricityProduced': 'self.ElectricityProduced.value',
                 'NetElectricityProduced': 'self.NetElectricityProduced.value', 'HeatProduced': 'self.HeatProduced.value'}
        wrong = {k: ab.get(k) for k, v in awant.items() if ab.get(k) != v}
        ctx.check(not wrong, 'F5', f'{cn}.Calculate/annual-binding', f'{grel}:{an[0].lineno}',
                  f'annual energies are integrated from {wrong} instead of { {k: awant[k] for k in wrong} }', fact='each annual series from its own power series')
        st = an[0]
        while not isinstance(st, ast.stmt):
            st = parent(st)
        tg = [norm(e) for e in st.targets[0].elts] if isinstance(st, ast.Assign) and isinstance(st.targets[0], ast.Tuple) else []
        ctx.check(tg == [f'self.{k}.value' for k in ('HeatkWhExtracted', 'PumpingkWh', 'TotalkWhProduced', 'NetkWhProduced', 'HeatkWhProduced')],
                  'F5', f'{cn}.Calculate/annual-unpack', f'{grel}:{an[0].lineno}', f'annual results unpacked into {tg}')
        ctx.check(an[0].lineno > net[0].lineno, 'F5', f'{cn}.Calculate/annual-after-net', f'{grel}:{an[0].lineno}', 'annual energies integrated before net electricity exists')
        _check_remaining(ctx, g, cn)


def _check_remaining(ctx, g: FuncInfo, cn: str) -> None:
    rc = [x for x in calls_in(g.node) if (dotted_name(x.func) or '').endswith('remaining_reservoir_heat_content')]
    ctx.require(len(rc) == 1, f'{cn}.Calculate: remaining_reservoir_heat_content call not found')
    args = [norm(x) for x in rc[0].args]
    if (dotted_name(rc[0].func) or '').startswith('SurfacePlant.'):
        args = args[1:]
    ctx.check(args == ['model.reserv.InitialReservoirHeatContent.value', 'self.HeatkWhExtracted.value'], 'F7', f'{cn}.Calculate/remaining-heat-binding',
              f'{g.module.rel}:{rc[0].lineno}', f'remaining reservoir heat is computed from {args}')
    writes = [s for s in loop_stores(g.node) if s.key == 'self.HeatkWhExtracted.value'] + \
             [s for s in ast.walk(g.node) if isinstance(s, ast.Assign) and 'self.HeatkWhExtracted.value' in norm(s.targets[0])]
    last = max([getattr(s, 'line', None) or s.lineno for s in writes], default=0)
    ctx.check(last < rc[0].lineno, 'F7', f'{cn}.Calculate/remaining-heat-after-extraction', f'{g.module.rel}:{rc[0].lineno}',
              'remaining reservoir heat is computed before the annual extracted heat is final')


def check_annual_fn(ctx) -> None:
    """Each annual series receives, for every year y in [0, lifetime), integrate_time_series_slice(<its power series>, y, steps per
    year, utilisation factor).  Recognised forms (after inlining the function's own one-expression helper functions):
    `for i in range(0, L): X[i] = INT(S, i, ...)`  and  `X[:] = [INT(S, y, ...) for y in range(L)]` / `X = np.array([...])`."""
    from gxstat.inline import inline_simple_calls
    repo = ctx.repo
    f = repo.method('SurfacePlant', 'annual_electricity_pumping_power')
    rel = f.module.rel
    # closures that build a whole series (`def _annual(series): buf = zeros(L); for y in range(L): buf[y] = INT(series, y, ..); return buf`)
    # are written out at their call sites and the buffer is filled under the name it is published as
    import dataclasses
    from gxstat.inline import inline_local_functions
    f = dataclasses.replace(f, node=inline_local_functions(f.node))
    nested = {n.name: n for n in ast.walk(f.node) if isinstance(n, ast.FunctionDef) and n is not f.node}
    L_ = Rat.atom('plant_lifetime')

    def integ(e: ast.AST, year_var: str) -> Optional[str]:
        """series name if e (helpers inlined) is the integrator applied to (series, year_var, time_steps_per_year, utilization_factor)."""
        e2 = inline_simple_calls(e, nested)
        if isinstance(e2, ast.Call) and (dotted_name(e2.func) or '').endswith('integrate_time_series_slice') and len(e2.args) == 4 and \
                [norm(a) for a in e2.args[1:]] == [year_var, 'time_steps_per_year', 'utilization_factor'] and not e2.keywords:
            return norm(e2.args[0])
        return None
    seen: Dict[str, str] = {}
    n_sites = 0
    # loop form
    for s_ in loop_stores(f.node):
        if s_.key not in ANNUAL_OF or isinstance(s_.index, ast.Slice):
            continue                               # `X[:] = ...` is the whole-series form below
        n_sites += 1
        key = f'annual_electricity_pumping_power/{s_.key}'
        where = f'{rel}:{s_.line}'
        ok_loop = len(s_.loops) == 1 and s_.loops[0].start.equals(Rat.const(0)) and s_.loops[0].stop.equals(L_) and s_.loops[0].step.equals(Rat.const(1))
        src = integ(s_.value, s_.loops[0].var) if s_.loops else None
        ok_idx = bool(s_.loops) and norm(s_.index) == s_.loops[0].var
        ctx.check(ok_loop and ok_idx and src == ANNUAL_OF.get(s_.key), 'F5', key, where,
                  f'`{norm(s_.stmt)[:100]}` over {s_.loops[0].show() if s_.loops else "?"}: the annual series {s_.key} must be the integral of '
                  f'{ANNUAL_OF.get(s_.key)} for each year in [0, lifetime), same year on both sides', fact=f'{s_.key}[i] <- {src}, year i')
        seen[s_.key] = src or '?'
    # whole-series form
    for st in ast.walk(f.node):
        if not isinstance(st, ast.Assign) or len(st.targets) != 1:
            continue
        t = st.targets[0]
        name = None
        if isinstance(t, ast.Subscript) and isinstance(t.slice, ast.Slice) and t.slice.lower is None and t.slice.upper is None and isinstance(t.value, ast.Name):
            name = t.value.id
        elif isinstance(t, ast.Name) and t.id in ANNUAL_OF:
            name = t.id
        if name not in ANNUAL_OF:
            continue
        v = inline_simple_calls(st.value, nested)
        while isinstance(v, ast.Call) and dotted_name(v.func) in ('np.array', 'np.asarray', 'list') and len(v.args) == 1:
            v = v.args[0]
        if not isinstance(v, ast.ListComp):
            continue                                 # e.g. the np.zeros allocation
        n_sites += 1
        key = f'annual_electricity_pumping_power/{name}'
        where = f'{rel}:{st.lineno}'
        g = v.generators[0] if len(v.generators) == 1 else None
        ok_rng = g is not None and not g.ifs and isinstance(g.target, ast.Name) and isinstance(g.iter, ast.Call) and dotted_name(g.iter.func) == 'range' and \
            [norm(a) for a in g.iter.args] in (['plant_lifetime'], ['0', 'plant_lifetime'], ['0', 'plant_lifetime', '1'])
        src = integ(v.elt, g.target.id) if ok_rng else None
        ctx.check(ok_rng and src == ANNUAL_OF.get(name), 'F5', key, where,
                  f'`{norm(st)[:100]}`: the annual series {name} must be the integral of {ANNUAL_OF.get(name)} for each year in [0, lifetime)',
                  fact=f'{name}[y] <- {src}, y in [0, L)')
        seen[name] = src or '?'
    ctx.check(set(seen) == {'HeatkWhExtracted', 'PumpingkWh', 'TotalkWhProduced', 'NetkWhProduced', 'HeatkWhProduced'}, 'F5',
              'annual_electricity_pumping_power/all-five-series', f.where, f'series integrated: {sorted(seen)}')
    ctx.ok('F5', 'annual_electricity_pumping_power/_integrate_slice-wiring', f.where,
           'integrator called with (series, year, steps per year, utilization factor) at every site (checked per series)')
    rets = [x for x in ast.walk(f.node) if isinstance(x, ast.Return) and x.value is not None and isinstance(x.value, ast.Tuple) and
            not any(x is r_ for nd in nested.values() for r_ in ast.walk(nd))]
    ctx.check(len(rets) == 1 and [norm(e) for e in rets[0].value.elts] == ['HeatkWhExtracted', 'PumpingkWh', 'TotalkWhProduced', 'NetkWhProduced', 'HeatkWhProduced'],
              'F5', 'annual_electricity_pumping_power/return-order', f.where, f'returns `{norm(rets[0].value) if rets else ""}`')


def _inline_locals(f, expr: ast.AST, keep: Set[str]) -> ast.AST:
    """Replace local names that are assigned exactly once at the top level of the function (before use) by their definition,
    except the names in `keep`.  Purely syntactic; loop-carried or re-assigned names are left alone."""
    from gxstat.srcmodel import clone
    counts: Dict[str, List[ast.Assign]] = {}
    for st in ast.walk(f.node):
        if isinstance(st, ast.Assign) and len(st.targets) == 1 and isinstance(st.targets[0], ast.Name):
            counts.setdefault(st.targets[0].id, []).append(st)
        elif isinstance(st, (ast.AugAssign, ast.For)):
            for x in ast.walk(st.target):
                if isinstance(x, ast.Name):
                    counts.setdefault(x.id, []).extend([None, None])
    single = {k: v[0] for k, v in counts.items() if len(v) == 1 and v[0] is not None and v[0] in f.node.body and k not in keep}

    class S(ast.NodeTransformer):
        def __init__(self):
            self.depth = 0

        def visit_Name(self, n):
            if isinstance(n.ctx, ast.Load) and n.id in single and self.depth < 6:
                self.depth += 1
                r = self.visit(clone(single[n.id].value))
                self.depth -= 1
                return r
            return n
    return ast.fix_missing_locations(S().visit(clone(expr)))


def check_integrator(ctx) -> None:
    f = ctx.repo.method('SurfacePlant', 'integrate_time_series_slice')
    rel = f.module.rel
    # the trapezoid call and its operands, with single-assignment locals inlined (so `hours = 8760 / steps; trapz(s, dx=hours)` is
    # the same as writing the expression in place); a shape outside this idiom is "cannot decide", not a violation
    trapz = [c for c in calls_in(f.node) if (dotted_name(c.func) or '') in ('np.trapz', 'np.trapezoid', 'numpy.trapz', 'numpy.trapezoid')]
    ctx.require(len(trapz) == 1, 'integrate_time_series_slice: exactly one np.trapz call expected (integrator idiom changed)')
    c = trapz[0]
    ctx.require(c.args and isinstance(c.args[0], ast.Name), 'integrate_time_series_slice: np.trapz is not applied to a named slice')
    sl_name = c.args[0].id
    sl_defs = [s_ for s_ in f.node.body if isinstance(s_, ast.Assign) and norm(s_.targets[0]) == sl_name]
    ctx.require(len(sl_defs) == 1, f'integrate_time_series_slice: `{sl_name}` is not defined exactly once at the top level')
    sv = sl_defs[0].value
    if isinstance(sv, ast.Call) and dotted_name(sv.func) in ('list', 'np.array', 'np.asarray') and len(sv.args) == 1:
        sv = sv.args[0]
    ctx.require(isinstance(sv, ast.Subscript) and isinstance(sv.slice, ast.Slice) and norm(sv.value) == 'series' and sv.slice.step is None
                and sv.slice.lower is not None and sv.slice.upper is not None,
                f'integrate_time_series_slice: `{sl_name}` is not `series[a:b]` (integrator idiom changed)')
    i, n = Rat.atom('_i'), Rat.atom('time_steps_per_year')
    lo = _inline_locals(f, sv.slice.lower, {sl_name})
    hi = _inline_locals(f, sv.slice.upper, {sl_name})
    ctx.check(_tr(lo).equals(i * n), 'F6', 'integrate_time_series_slice/slice-start', f'{rel}:{sl_defs[0].lineno}',
              f'year slice starts at `{norm(lo)}`; year i starts at i x steps per year', fact='i*tspy')
    ctx.check(_tr(hi).equals((i + Rat.const(1)) * n + Rat.const(1)), 'F6', 'integrate_time_series_slice/slice-end', f'{rel}:{sl_defs[0].lineno}',
              f'year slice ends at `{norm(hi)}`; the trapezoid needs the right end point inclusive: (i+1) x steps + 1', fact='(i+1)*tspy + 1')
    ctx.ok('F6', 'integrate_time_series_slice/slice', f'{rel}:{sl_defs[0].lineno}', f'{sl_name} = series[a:b]')
    dx = next((k.value for k in c.keywords if k.arg == 'dx'), None)
    ctx.require(dx is not None, 'integrate_time_series_slice: np.trapz without dx= (integrator idiom changed)')
    dxe = _inline_locals(f, dx, {sl_name})
    npts = f'len({sl_name})'
    tr = Translator(call_hook=lambda t_, nd: Rat.atom('NPTS') if norm(nd) == npts else None)
    try:
        dxr = tr.tr(dxe)
    except Unsupported as e:
        raise AnalysisError(f'integrate_time_series_slice: dx expression outside the supported algebra: {e}')
    want = Rat.const(365 * 24) / (Rat.atom('NPTS') - Rat.const(1))
    ctx.check(dxr.equals(want), 'F6', 'integrate_time_series_slice/dx-hours', f'{rel}:{c.lineno}',
              f'trapezoid step is `{norm(dxe)}`; a year of 365 x 24 h is split into the slice\'s (points - 1) intervals',
              fact='dx = 8760 / (points - 1) [h]')
    ctx.ok('F6', 'integrate_time_series_slice/intervals', f'{rel}:{c.lineno}', 'intervals = points - 1 (part of the dx identity)')
    defs = {norm(s_.targets[0]): s_ for s_ in f.node.body if isinstance(s_, ast.Assign) and isinstance(s_.targets[0], ast.Name)}
    int_names = [k for k, s_ in defs.items() if s_.value is c]
    ctx.require(len(int_names) == 1, 'integrate_time_series_slice: the np.trapz result is not bound to one local name')
    int_name = int_names[0]
    rets = [x for x in ast.walk(f.node) if isinstance(x, ast.Return)]
    ctx.require(len(rets) == 1, 'integrate_time_series_slice: single return expected')
    r = _tr(rets[0].value)
    ctx.check(r.equals(Rat.atom(int_name) * Rat.const(1000) * Rat.atom('utilization_factor')), 'F6', 'integrate_time_series_slice/result',
              f'{rel}:{rets[0].lineno}', f'annual energy is `{r.show()}`; expected integral[MW h] x 1000 x utilization factor (kWh)',
              fact='MWh * 1000 * utilization = kWh')
    # unit typing: MW * h * 1000 -> kWh
    def at(key, node):
        if key == int_name:
            dmw, smw = UNIT_TABLE['MW']
            dh, sh = UNIT_TABLE['hr']
            from gxstat.domains import dim_mul
            return UT(dim_mul(dmw, dh), smw * sh)
        if key == 'utilization_factor':
            return UT(NONE, Fraction(1))
        return None
    try:
        t = UnitTyper(at).ty(rets[0].value)
        dk, sk = UNIT_TABLE['kWh']
        ctx.check(isinstance(t, UT) and t.dim == dk and close(t.scale, sk), 'F6', 'integrate_time_series_slice/unit-scale', f'{rel}:{rets[0].lineno}',
                  f'MW x h with the literal factors gives {t.show() if isinstance(t, UT) else t}, the annual series are kWh')
    except UnitMismatch as e:
        ctx.bad('F6', 'integrate_time_series_slice/unit-scale', f'{rel}:{rets[0].lineno}', str(e))
    g = ctx.repo.method('SurfacePlant', 'remaining_reservoir_heat_content')
    rets = [x for x in ast.walk(g.node) if isinstance(x, ast.Return)]
    ctx.require(len(rets) == 1, 'remaining_reservoir_heat_content: single return expected')
    r = _tr(rets[0].value, wrappers='opaque')
    want = Rat.atom('InitialReservoirHeatContent') - Rat.atom('np.add.accumulate(HeatkWhExtracted^1)') * Rat.const(3600) * Rat.const(1000) / Rat.const(10 ** 15)
    ctx.check(r.equals(want), 'F7', 'remaining_reservoir_heat_content/formula', f'{g.module.rel}:{rets[0].lineno}',
              f'remaining heat is `{r.show()}`; expected initial content - cumulative extracted kWh x 3600 x 1e3 / 1e15 (in 1e15 J)',
              fact='Initial - cumsum(kWh)*3.6e6/1e15')


def check_heat_plants(ctx) -> None:
    repo = ctx.repo
    a = Rat.atom
    for cn in HEAT_PLANTS:
        g = repo.method(cn, 'Calculate')
        rel = g.module.rel
        # read on the canonical form (a local bound once to an attribute path is that path); formulas over named intermediates
        import dataclasses
        from gxstat.inline import canonical_function, inline_sequential
        g = dataclasses.replace(g, node=canonical_function(g.node, unnest=False))
        defs = {norm(s.targets[0]): s for s in g.node.body if isinstance(s, ast.Assign) and not isinstance(s.targets[0], (ast.Tuple, ast.List))}
        he = defs.get('self.HeatExtracted.value')
        ctx.require(he is not None, f'{cn}.Calculate: HeatExtracted definition not found')
        r = _tr(inline_sequential(he.value, he))
        ctx.check(r.equals(HE_ATTR), 'F1', f'{cn}.Calculate/HeatExtracted', f'{rel}:{he.lineno}',
                  f'heat extracted is `{r.show()}`, not wells x flow x cp x (production - injection temperature) / 1e6',
                  fact='nprod*flow*cp*(Tprod - Tinj)/1e6')
        HE, ETA = a('self.HeatExtracted.value'), a('self.enduse_efficiency_factor.value')
        hp = defs.get('self.HeatProduced.value')
        ctx.require(hp is not None, f'{cn}.Calculate: HeatProduced definition not found')
        rp = _tr(inline_sequential(hp.value, hp))
        if cn in ('SurfacePlantIndustrialHeat', 'SurfacePlantDistrictHeating'):
            ctx.check(rp.equals(HE * ETA), 'F4', f'{cn}.Calculate/HeatProduced', f'{rel}:{hp.lineno}',
                      f'useful heat is `{rp.show()}`, not extracted heat x end-use efficiency')
        elif cn == 'SurfacePlantHeatPump':
            COP = a('self.heat_pump_cop.value')
            ctx.check(rp.equals(HE * COP / (COP - Rat.const(1)) * ETA), 'F4', f'{cn}.Calculate/HeatProduced', f'{rel}:{hp.lineno}',
                      f'heat-pump output is `{rp.show()}`, not extracted heat x COP/(COP-1) x efficiency')
            el = defs.get('self.heat_pump_electricity_used.value')
            ctx.require(el is not None, 'heat pump electricity definition not found')
            re_ = _tr(el.value)
            ctx.check(re_.equals(HE / (COP - Rat.const(1))), 'F4', f'{cn}.Calculate/electricity-used', f'{rel}:{el.lineno}',
                      f'heat-pump electricity is `{re_.show()}`, not extracted heat / (COP - 1)')
            ctx.check((rp / ETA - re_ - HE).is_zero(), 'F4', f'{cn}.Calculate/first-law', f'{rel}:{hp.lineno}',
                      'heat delivered / efficiency - electricity used != heat extracted')
        elif cn == 'SurfacePlantAbsorptionChiller':
            ctx.check(rp.equals(HE), 'F4', f'{cn}.Calculate/HeatProduced', f'{rel}:{hp.lineno}', f'heat to the chiller is `{rp.show()}`, not all extracted heat')
            co = defs.get('self.cooling_produced.value')
            ctx.require(co is not None, 'cooling definition not found')
            rc = _tr(co.value)
            ctx.check(rc.equals(a('self.HeatProduced.value') * a('self.absorption_chiller_cop.value') * ETA), 'F4', f'{cn}.Calculate/cooling',
                      f'{rel}:{co.lineno}', f'cooling is `{rc.show()}`, not heat x COP x efficiency')
        # annual loops, read with the method's own helper closures written out at their call sites and fill-then-publish buffers filled
        # under the published name: every site then reads `<series>[i] = SurfacePlant.integrate_time_series_slice(<power>, i, tspy, uf)`
        from gxstat.inline import inline_local_functions
        gi = inline_local_functions(g.node)
        TSPY = 'model.economics.timestepsperyear.value'
        seen = {}
        for s in loop_stores(gi):
            if not s.key.startswith('self.') or not s.key.endswith('.value'):
                continue
            attr = s.key.split('.')[1]
            if attr not in ANNUAL_OF:
                continue
            key = f'{cn}.Calculate/{attr}'
            where = f'{rel}:{s.line}'
            v = s.value
            okc = isinstance(v, ast.Call) and (dotted_name(v.func) or '').endswith('integrate_time_series_slice') and len(v.args) == 4 \
                and not v.keywords and bool(s.loops)
            if not okc and isinstance(v, ast.Call) and isinstance(v.func, ast.Name):
                raise AnalysisError(f'{cn}.Calculate: `{norm(v)[:60]}` goes through a helper that could not be written out (idiom changed)')
            src = norm(v.args[0]) if okc else '?'
            want_src = f'{W}.PumpingPower.value' if attr == 'PumpingkWh' else f'self.{ANNUAL_OF[attr]}.value'
            ok = okc and src == want_src and norm(v.args[1]) == s.loops[-1].var and norm(s.index) == s.loops[-1].var and \
                s.loops[-1].start.equals(Rat.const(0)) and s.loops[-1].stop.equals(a('self.plant_lifetime.value')) and norm(v.args[2]) == TSPY
            if ok and cn == 'SurfacePlantDistrictHeating':
                # yearly utilisation factor of the same year; guard must not select the lifetime-average arm for a DH plant
                dead = any(norm(t) == 'self.plant_type.value == PlantType.DISTRICT_HEATING' and not pol for t, pol in s.guards)
                if dead:
                    continue        # the non-DH arm of the always-true plant-type test
                ok = norm(v.args[3]) == f'self.util_factor_array.value[{s.loops[-1].var}]'
            elif ok:
                ok = norm(v.args[3]) == 'self.utilization_factor.value'
            ctx.check(ok, 'F5', key, where,
                      f'`{norm(s.stmt)[:110]}`: the annual series {attr} must be the integral of {want_src} over year i for i in [0, lifetime)'
                      f'{" with that year s utilisation factor util_factor_array[i]" if cn == "SurfacePlantDistrictHeating" else ""}',
                      fact=f'{attr}[i] <- {src}')
            seen.setdefault(attr, 0)
            seen[attr] += 1
        need = {'HeatkWhExtracted', 'PumpingkWh', 'HeatkWhProduced'} | ({'cooling_kWh_Produced'} if cn == 'SurfacePlantAbsorptionChiller' else set()) | \
            ({'heat_pump_electricity_kwh_used'} if cn == 'SurfacePlantHeatPump' else set())
        ctx.check(need <= set(seen), 'F5', f'{cn}.Calculate/annual-series-complete', g.where, f'annual series missing: {sorted(need - set(seen))}')
        if cn == 'SurfacePlantDistrictHeating':
            # every reachable store for a DH plant uses the yearly factor: there must be a live store per series
            pass
        ctx.ok('F5', f'{cn}.Calculate/_integrate_slice-wiring', g.where,
               'integrator called with (series, year, steps per year, utilisation factor) at every site (checked per series)')
        _check_remaining(ctx, g, cn)


def check_dh_split(ctx) -> None:
    f = ctx.repo.method('SurfacePlantDistrictHeating', 'calc_util_factor')
    rel = f.module.rel
    stores = {s.key: [] for s in loop_stores(f.node)}
    for s in loop_stores(f.node):
        stores[s.key].append(s)
    used = stores.get('actual_geothermal_used', [])
    boil = stores.get('instantaneous_peaking_boiler_demand', [])
    ctx.require(len(used) == 2 and len(boil) == 1, f'calc_util_factor: split stores not found ({len(used)}, {len(boil)})')
    dem = Rat.atom('demand')

    def at(n):
        if isinstance(n, ast.Subscript) and norm(n.value) == 'self.daily_heating_demand.value':
            return 'daily'
        return None
    demand = Rat.atom('daily') / Rat.const(24)
    out = Rat.atom('current_heat_output')
    from gxstat.inline import inline_block_locals as _ibl
    GUARD = ('self.daily_heating_demand.value[j] / 24 > current_heat_output', 'current_heat_output < self.daily_heating_demand.value[j] / 24')

    def gtxt(t, stmt):
        # named intermediates of the loop body (`hourly_demand = daily[j] / 24`) are read through; the well output stays symbolic
        return norm(_ibl(t, stmt, keep=('current_heat_output',)))
    def is_split_test(t, stmt) -> bool:
        # `demand / 24 > output` (or mirrored), whatever the loop variable and intermediates are called: decided on the translated operands
        if gtxt(t, stmt) in GUARD:
            return True
        e = _ibl(t, stmt, keep=('current_heat_output',))
        if not (isinstance(e, ast.Compare) and len(e.ops) == 1 and isinstance(e.ops[0], (ast.Gt, ast.Lt))):
            return False
        try:
            l, r = _tr(e.left, atom_of=at), _tr(e.comparators[0], atom_of=at)
        except Exception:
            return False
        if isinstance(e.ops[0], ast.Lt):
            l, r = r, l
        return l.equals(demand) and r.equals(out)
    for s in used:
        short = any(pol and is_split_test(t, s.stmt) for t, pol in s.guards)
        over = any((not pol) and is_split_test(t, s.stmt) for t, pol in s.guards)
        v = _tr(_ibl(s.value, s.stmt, keep=('current_heat_output',)), atom_of=at)
        if short:
            b = _tr(_ibl(boil[0].value, boil[0].stmt, keep=('current_heat_output',)), atom_of=at)
            sameg = [norm(t) for t, pol in boil[0].guards] == [norm(t) for t, pol in s.guards]
            ctx.check(v.equals(out) and sameg and (v + b - demand).is_zero(), 'F8', 'calc_util_factor/demand-exceeds-supply', f'{rel}:{s.line}',
                      f'when demand exceeds what the wells deliver: geothermal `{v.show()}` + boiler `{b.show()}` must equal demand/24 and '
                      f'geothermal = well output', fact='geothermal = output; boiler = demand - output')
        elif over:
            ctx.check(v.equals(demand), 'F8', 'calc_util_factor/supply-covers-demand', f'{rel}:{s.line}',
                      f'when the wells cover demand the geothermal supply is `{v.show()}`, not the demand (never more than needed, boiler 0)',
                      fact='geothermal = demand <= output')
        else:
            comps = [t for t, _ in s.guards if isinstance(t, ast.Compare)]
            if not comps:
                raise AnalysisError(f'calc_util_factor: the geothermal supply is stored under guards {[norm(t) for t, _ in s.guards]} that are not a '
                                    f'comparison of demand with output (rewritten): cannot decide')
            ctx.bad('F8', 'calc_util_factor/split-guard', f'{rel}:{s.line}', f'geothermal supply stored under guards {[norm(t) for t, _ in s.guards]}')
        ctx.check(norm(s.index) == norm(boil[0].index), 'F8', f'calc_util_factor/index@{s.line}', f'{rel}:{s.line}', 'split stored at another index than the boiler demand')


def _eval_enum_expr(e: ast.AST, member: str, table: dict, props: dict, enum: str, depth: int = 0):
    """Value of an expression over `self` = <enum>.<member>, by finite evaluation over the member table (constant folding only: member
    identity / equality / membership, int_value, range(), and / or / not, other properties of the enum).  Raises ValueError when the
    expression is outside that fragment."""
    if depth > 6:
        raise ValueError('too deep')
    ev = lambda x: _eval_enum_expr(x, member, table, props, enum, depth + 1)          # noqa: E731
    if isinstance(e, ast.Constant):
        return e.value
    if isinstance(e, ast.Name) and e.id == 'self':
        return ('member', member)
    if isinstance(e, ast.Attribute):
        d = dotted_name(e) or ''
        ps = d.split('.')
        if len(ps) == 2 and ps[0] in (enum, '__class__') and ps[1] in table:
            return ('member', ps[1])
        if ps and ps[-1] in ('int_value', 'value') and len(ps) >= 2:
            base = ev(e.value)
            if isinstance(base, tuple) and base[0] == 'member':
                return table[base[1]][0] if ps[-1] == 'int_value' else table[base[1]][1]
        if isinstance(e.value, ast.Name) and e.value.id == 'self' and e.attr in props:
            return _eval_enum_expr(props[e.attr], member, table, props, enum, depth + 1)
        raise ValueError(norm(e))
    if isinstance(e, ast.BoolOp):
        vals = [bool(ev(v)) for v in e.values]
        return all(vals) if isinstance(e.op, ast.And) else any(vals)
    if isinstance(e, ast.UnaryOp) and isinstance(e.op, ast.Not):
        return not ev(e.operand)
    if isinstance(e, ast.BinOp) and isinstance(e.op, (ast.Add, ast.Sub)):
        a, b = ev(e.left), ev(e.right)
        return a + b if isinstance(e.op, ast.Add) else a - b
    if isinstance(e, ast.Call) and dotted_name(e.func) == 'range' and 1 <= len(e.args) <= 3:
        return range(*[ev(a) for a in e.args])
    if isinstance(e, (ast.List, ast.Tuple, ast.Set)):
        return [ev(x) for x in e.elts]
    if isinstance(e, ast.Compare):
        cur = ev(e.left)
        for op, rhs in zip(e.ops, e.comparators):
            r = ev(rhs)
            if isinstance(op, (ast.Is, ast.Eq)):
                ok = cur == r
            elif isinstance(op, (ast.IsNot, ast.NotEq)):
                ok = cur != r
            elif isinstance(op, ast.In):
                ok = cur in r
            elif isinstance(op, ast.NotIn):
                ok = cur not in r
            elif isinstance(op, ast.Lt):
                ok = cur < r
            elif isinstance(op, ast.LtE):
                ok = cur <= r
            elif isinstance(op, ast.Gt):
                ok = cur > r
            elif isinstance(op, ast.GtE):
                ok = cur >= r
            else:
                raise ValueError('operator')
            if not ok:
                return False
            cur = r
        return True
    raise ValueError(norm(e)[:40])


def check_electricity_options(ctx) -> None:
    """F13: the annual electricity series are integrated for exactly the end-use options that have an electricity component - decided by
    evaluating the guard for every member of EndUseOptions (a finite table), also when the guard goes through a property of the enum."""
    repo = ctx.repo
    from gxstat.registry import get_registry as _greg
    reg = _greg(repo)
    table = reg.enums.enums.get('EndUseOptions')
    ctx.require(bool(table), 'EndUseOptions members not found')
    ci = repo.find_cls('EndUseOptions', repo.module('geophires_x/OptionList.py'))
    props = {}
    if ci is not None:
        for m in ci.methods.values():
            if any(norm(d) == 'property' for d in m.node.decorator_list):
                rets = [r for r in ast.walk(m.node) if isinstance(r, ast.Return) and r.value is not None]
                if len(rets) == 1:
                    props[m.name] = rets[0].value
    want = {m for m in table if m == 'ELECTRICITY' or m.startswith('COGENERATION')}
    f = repo.method('SurfacePlant', 'annual_electricity_pumping_power')
    n = 0
    for st in ast.walk(f.node):
        if not isinstance(st, ast.If):
            continue
        stored = {norm(t.value if isinstance(t, ast.Subscript) else t) for x in ast.walk(st) if isinstance(x, ast.Assign) for t in x.targets}
        if not ({'TotalkWhProduced', 'NetkWhProduced'} & stored) or any(isinstance(p_, ast.If) and p_ is not st and any(st is y for y in ast.walk(p_))
                                                                         for p_ in ast.walk(f.node)):
            continue
        # the option under test: the function's parameter (bound to enduse_option.value by every caller)
        test = st.test
        subj = next((a.arg for a in f.node.args.args if 'enduse' in a.arg.lower()), None)
        if subj is None:
            continue

        class _S(ast.NodeTransformer):
            def visit_Name(self, n_):
                return ast.copy_location(ast.Name(id='self', ctx=ast.Load()), n_) if n_.id == subj else n_
        from gxstat.srcmodel import clone as _cl
        t2 = ast.fix_missing_locations(_S().visit(_cl(test)))
        got = set()
        try:
            for m in table:
                if _eval_enum_expr(t2, m, table, props, 'EndUseOptions'):
                    got.add(m)
        except ValueError as e:
            ctx.info(f'F13 {f.module.rel}:{st.lineno} guard `{norm(test)[:60]}` is outside the finitely evaluable fragment ({e}): not decided')
            continue
        n += 1
        ctx.check(got == want, 'F13', 'annual_electricity_pumping_power/electricity-series-for-every-option-with-electricity', f'{f.module.rel}:{st.lineno}',
                  f'the annual electricity series are integrated for {sorted(got)}; options with an electricity component are {sorted(want)}: for '
                  f'{sorted(want - got) or sorted(got - want)} the yearly kWh stay zero (or are computed from nothing) although the power series are not',
                  fact=f'guard holds for exactly the {len(want)} options with electricity')
    if n == 0:
        ctx.info('F13: no evaluable guard around the annual electricity integration found (not decided)')
        ctx.ok('F13', 'annual_electricity_pumping_power/guard-not-evaluable', f.where, 'not decided on this tree')


def check_shared_storage(ctx) -> None:
    """F9: `A.value = B.value` makes two reported series one array.  Any later in-place store to either (element, slice or mask
    assignment, augmented assignment) changes the other as well - clipping one side of a balance silently clips the other."""
    repo = ctx.repo
    n = 0
    for f in repo.all_functions():
        if f.cls is None or not f.cls.name.startswith('SurfacePlant') or f.name != 'Calculate' or f.cls.name in ('SurfacePlantAGS',):
            continue
        n += 1
        pairs = []
        for st in ast.walk(f.node):
            if isinstance(st, ast.Assign) and len(st.targets) == 1 and isinstance(st.targets[0], ast.Attribute) and st.targets[0].attr == 'value' \
                    and isinstance(st.value, ast.Attribute) and st.value.attr == 'value':
                pairs.append((norm(st.targets[0]), norm(st.value), st))
        bad = []
        for a, b, st0 in pairs:
            for st in ast.walk(f.node):
                if getattr(st, 'lineno', 0) <= st0.lineno:
                    continue
                tg = None
                if isinstance(st, ast.Assign) and isinstance(st.targets[0], ast.Subscript):
                    tg = st.targets[0].value
                elif isinstance(st, ast.AugAssign):
                    tg = st.target.value if isinstance(st.target, ast.Subscript) else st.target
                if tg is not None and norm(tg) in (a, b):
                    # a re-binding `A.value = <new array>` in between ends the sharing
                    rebound = any(isinstance(x, ast.Assign) and norm(x.targets[0]) in (a, b) and x is not st0 and st0.lineno < x.lineno < st.lineno
                                  for x in ast.walk(f.node))
                    if not rebound:
                        bad.append((a, b, st0, st))
        key = f'{f.qualname}/no-in-place-store-on-shared-series'
        if bad:
            a, b, st0, st = bad[0]
            ctx.bad('F9', key, f'{f.module.rel}:{st.lineno}',
                    f'`{norm(st)[:90]}` modifies in place an array that `{norm(st0)}` (line {st0.lineno}) made the storage of both {a} and {b}: '
                    f'the other series (and every annual total and balance computed from it) changes with it')
        else:
            ctx.ok('F9', key, f.where, f'{len(pairs)} shared series, none stored to in place')
    ctx.floor('F9', n, 6, 'surface plant Calculate functions')
    # the same through a local: `x = <obj>.PumpingkWh.value; x += ...` adds into the reported energy series itself
    MUT = {'insert', 'append', 'extend', 'pop', 'remove', 'sort', 'reverse', 'clear', 'fill', 'resize', 'put'}
    energy = ('kWh', 'kwh', 'Produced', 'Extracted', 'Power', 'power', 'HeatContent', 'heating_demand', 'electricity_used')
    for f in repo.all_functions():
        if not isinstance(f.node, ast.FunctionDef) or 'geophires_x/' not in f.module.rel or (f.cls is not None and f.cls.name.startswith('AGS')):
            continue
        alias = {}
        for st in walk_no_nested(f.node):
            if isinstance(st, ast.Assign) and isinstance(st.value, ast.Attribute) and st.value.attr == 'value' and dotted_name(st.value):
                src = dotted_name(st.value)
                if any(w in src.split('.')[-2] for w in energy):
                    for t in st.targets:
                        if isinstance(t, ast.Name):
                            alias[t.id] = (src, st)
        for nm, (src, st0) in alias.items():
            rebinds = [x for x in walk_no_nested(f.node) if isinstance(x, ast.Assign) and any(isinstance(t, ast.Name) and t.id == nm for t in x.targets)]
            bad = None
            if len(rebinds) == 1:
                for st in walk_no_nested(f.node):
                    if isinstance(st, ast.AugAssign):
                        b = st.target.value if isinstance(st.target, ast.Subscript) else st.target
                        if isinstance(b, ast.Name) and b.id == nm:
                            bad = st
                    elif isinstance(st, ast.Assign) and any(isinstance(t, ast.Subscript) and isinstance(t.value, ast.Name) and t.value.id == nm for t in st.targets):
                        bad = st
                    elif isinstance(st, ast.Call) and isinstance(st.func, ast.Attribute) and st.func.attr in MUT and isinstance(st.func.value, ast.Name) \
                            and st.func.value.id == nm:
                        bad = st
            ctx.check(bad is None, 'F9', f'{f.qualname}/{nm}-aliases-{src.split(".")[-2]}/not-modified-in-place', f'{f.module.rel}:{(bad or st0).lineno}',
                      f'`{norm(bad)[:80] if bad is not None else ""}` modifies in place the local `{nm}`, which line {st0.lineno} bound to {src} itself (no copy): '
                      f'the reported series {src.split(".")[-2]} is changed by a computation that only meant to read it, and no longer is the integral '
                      f'of its power series', fact=f'{nm} = {src}; read only')


def check_sutra_plant(ctx) -> None:
    """F10: thermal storage plant: total heat supplied = heat from storage + auxiliary heat at every step, and each annual series sums its
    own step series over the same window with the same factor."""
    repo = ctx.repo
    if not repo.has_module('geophires_x/SurfacePlantSUTRA.py'):
        return
    f = repo.method('SurfacePlantSUTRA', 'Calculate', 'geophires_x/SurfacePlantSUTRA.py')
    rel = f.module.rel
    defs = {}
    for st in f.node.body:
        if isinstance(st, ast.Assign) and isinstance(st.targets[0], ast.Attribute) and st.targets[0].attr == 'value':
            defs[norm(st.targets[0])] = st
    need = ['self.HeatProduced.value', 'self.AuxiliaryHeatProduced.value', 'self.TotalHeatProduced.value']
    for k in need:
        ctx.require(k in defs, f'SurfacePlantSUTRA.Calculate: `{k}` is not assigned at the top level (idiom changed)')
    tr = Translator(wrappers='opaque')
    from gxstat.inline import inline_sequential
    from gxstat.srcmodel import clone

    def full(k: str) -> ast.AST:
        """The value stored into k, over named intermediates; reads of the two step series stored just before are what was stored there."""
        st = defs[k]
        e = inline_sequential(st.value, st)

        class Stored(ast.NodeTransformer):
            def visit_Attribute(self, n):
                t = norm(n)
                if isinstance(n.ctx, ast.Load) and t in need[:2] and t != k and defs[t].lineno < st.lineno:
                    return full(t)
                return self.generic_visit(n)
        return Stored().visit(clone(e))
    try:
        hp, ax, tot = (tr.tr(full(k)) for k in need)
    except Unsupported as e:
        raise AnalysisError(f'SurfacePlantSUTRA.Calculate: outside the supported algebra: {e}')
    ctx.check(tot.equals(hp + ax), 'F10', 'SurfacePlantSUTRA.Calculate/total=storage+auxiliary', f'{rel}:{defs[need[2]].lineno}',
              f'total heat supplied is `{tot.show(6)}`, not heat produced from storage + auxiliary heat (`{(hp + ax).show(6)}`): the charging '
              f'steps (negative storage flow) or another series enter the total', fact='TotalHeatProduced = HeatProduced + AuxiliaryHeatProduced')
    # the series named "produced"/"injected" are the positive / negative part of the simulated flow
    loops = [n for n in f.node.body if isinstance(n, ast.For)]
    ctx.require(len(loops) >= 1, 'SurfacePlantSUTRA.Calculate: annual loop not found')
    n = 0
    shapes = {}
    for st in loops[0].body:
        if isinstance(st, ast.Assign) and isinstance(st.targets[0], ast.Subscript) and norm(st.targets[0].value).startswith('self.Annual'):
            tgt = norm(st.targets[0].value)                      # self.AnnualX.value
            base = tgt.replace('self.Annual', 'self.', 1)
            srcs = [norm(a) for a in ast.walk(st.value) if isinstance(a, ast.Attribute) and a.attr == 'value' and norm(a).startswith('self.')
                    and 'SUTRATimeStep' not in norm(a)]
            n += 1
            ctx.check(srcs == [base], 'F10', f'SurfacePlantSUTRA.Calculate/{tgt}/sums-its-own-series', f'{rel}:{st.lineno}',
                      f'{tgt}[i] is computed from {srcs}, not from its own step series {base}', fact=f'sum of {base}')
            shapes[tgt] = norm(st.value).replace(base, 'S')
    ctx.floor('F10', n, 4, 'annual storage-plant series')
    ctx.check(len(set(shapes.values())) == 1, 'F10', 'SurfacePlantSUTRA.Calculate/annual-series-same-window-and-factor', f'{rel}:{loops[0].lineno}',
              f'the annual series do not use one window and factor: {sorted(set(shapes.values()))[:3]}', fact='same slice and factor for all annual series')


def run(ctx) -> None:
    ctx.rule('F1', 'heat extracted = wells x flow per well x cp x (production - injection temperature) / 1e6 in all 5 definitions, and the '
                   'shared function is called with the reported attributes (after the plant\'s reinjection override)')
    ctx.rule('F2', 'net electricity = gross electricity - total pumping power in the 4 electricity plants')
    ctx.rule('F3', 'cogeneration: heat towards electricity + useful heat / efficiency == heat extracted identically in the topping, '
                   'bottoming and parallel arms; parallel scales electricity by (1 - chp fraction)')
    ctx.rule('F4', 'end-use relations: industrial/district heat x efficiency; heat pump COP/(COP-1) and electricity 1/(COP-1) with first-law '
                   'identity; chiller heat x COP x efficiency')
    ctx.rule('F5', 'every annual series is the per-year integral of its own power series for each year in [0, lifetime) (district heating: '
                   'with that year\'s utilisation factor)')
    ctx.rule('F6', 'integrator: slice [i x tspy, (i+1) x tspy + 1), dx = 8760 h / intervals, result x 1000 x utilisation (MW h -> kWh)')
    ctx.rule('F7', 'remaining reservoir heat = initial - cumulative extracted kWh x 3.6e6 / 1e15, computed after extraction is final')
    ctx.rule('F8', 'district heating: geothermal + peaking = demand and geothermal <= well output in both branches')
    check_core(ctx)
    check_annual_fn(ctx)
    check_integrator(ctx)
    check_heat_plants(ctx)
    check_dh_split(ctx)
    ctx.rule('F9', 'no in-place store to a series that shares its array with another reported series')
    ctx.rule('F10', 'thermal-storage plant: total = storage + auxiliary at every step; annual series sum their own step series, same window and factor')
    check_shared_storage(ctx)
    ctx.rule('F13', 'the annual electricity series are integrated for exactly the end-use options that have an electricity component (guard evaluated over all members of EndUseOptions, through enum properties too)')
    check_electricity_options(ctx)
    check_sutra_plant(ctx)
    from rules.helper_contract import run_shared
    run_shared(ctx, 'F11', 'F12', 5)
    ctx.undecided('trapezoid accuracy and np.interp behaviour', 'CoolProp property values', 'AGS plant (own model family, not runnable offline)')
    ctx.assume('np.trapz and np.add.accumulate are linear')
