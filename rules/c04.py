"""C04 -- cash flow, NPV, IRR, VIR, MOIC and payback are mutually consistent.

K1 CalculateRevenue (index ranges, equal subscripts, unit scale, cumulative recurrence), K2 product pairing at the call
sites, K3 total series assembly (ranges, coefficients, coverage), K4 the reported series is the evaluated series,
K5 rate scales and VIR/MOIC formulas, K6 payback scan."""
from __future__ import annotations

import ast
from fractions import Fraction
from typing import Dict, List, Optional, Tuple

from gxstat.algebra import Rat, Translator, Unsupported
from gxstat.atoms import AtomResolver
from gxstat.domains import NONE, UNIT_TABLE, UT, Lit, UnitMismatch, UnitTyper, close
from gxstat.flowutil import guards_of
from gxstat.loops import LoopStore, loop_stores
from gxstat.srcmodel import clone, AnalysisError, FuncInfo, calls_in, dotted_name, norm, parent
from gxstat.symflow import target_key

L = Rat.atom('L')
C = Rat.atom('C')
ONE = Rat.const(1)
ZERO = Rat.const(0)


def _alias_tr(aliases: Dict[str, str], env: Dict[str, ast.AST] = None) -> Translator:
    """Translator that renames lifetime / construction-year expressions to the symbols L and C."""
    def atom_of(node):
        return aliases.get(norm(node))
    return Translator(atom_of=atom_of)


def _eq(a: Rat, b: Rat) -> bool:
    return a.equals(b)


def _rng_txt(s: LoopStore) -> str:
    return ' / '.join(r.show() for r in s.loops) or 'no loop'


# --------------------------------------------------------------------------------------------------- K1
def check_revenue_fn(ctx) -> None:
    f = ctx.repo.function('geophires_x/Economics.py', 'CalculateRevenue')
    rel = f.module.rel
    ctx.require(f.args == ['plantlifetime', 'ConstructionYears', 'Energy', 'Price'], f'CalculateRevenue signature changed: {f.args}')
    tr = _alias_tr({'plantlifetime': 'L', 'ConstructionYears': 'C'})
    stores = loop_stores(f.node, tr)
    by = {}
    for s in stores:
        by.setdefault(s.key, []).append(s)
    ctx.require(set(by) == {'CashFlow', 'CummCashFlow'}, f'CalculateRevenue: element-wise stores to {sorted(by)}')
    # series length
    for st in f.node.body:
        if isinstance(st, ast.Assign) and norm(st.targets[0]) in ('CashFlow', 'CummCashFlow'):
            from gxstat.inline import inline_block_locals
            v_ = inline_block_locals(st.value, st)
            ok = isinstance(v_, ast.BinOp) and isinstance(v_.op, ast.Mult) and norm(v_.left) == '[0.0]' and \
                _eq(tr.tr(v_.right), L + C)
            ctx.check(ok, 'K1', f'CalculateRevenue/{norm(st.targets[0])}/length', f'{rel}:{st.lineno}',
                      f'`{norm(st)}`: revenue series is not lifetime + construction years long (zero-filled)')
    for key, lst in by.items():
        ctx.check(len(lst) == 1, 'K1', f'CalculateRevenue/{key}/single-store', f'{rel}:{lst[0].line}',
                  f'{key} is written at {len(lst)} places')
    s = by['CashFlow'][0]
    where = f'{rel}:{s.line}'
    ctx.require(len(s.loops) == 1, 'CalculateRevenue: CashFlow store not in a single range loop')
    r = s.loops[0]
    i = Rat.atom(r.var)
    # index and value are read over the named intermediates of the loop body (`k = C + y; usd = Energy[y] * Price[y]; CashFlow[k] = usd / 1e6`)
    from gxstat.inline import inline_sequential as _iseq
    import dataclasses as _dc
    s = _dc.replace(s, index=_iseq(s.index, s.stmt), value=_iseq(s.value, s.stmt)) if _dc.is_dataclass(s) else s
    # compare in terms of the target index k = index(i): a loop over operating years writing CashFlow[C + y] from Energy[y] is the
    # same computation as a loop over k in [C, L + C) writing CashFlow[k] from Energy[k - C]
    idx = tr.tr(s.index)
    shift = idx - i                      # k = i + shift for a unit-stride index
    ctx.require(r.var not in shift.show(40), f'CalculateRevenue: target index `{norm(s.index)}` is not the loop variable plus an offset (cannot decide)')
    k_start, k_stop = r.start + shift, r.stop + shift
    ctx.check(_eq(k_start, C) and _eq(k_stop, L + C) and _eq(r.step, ONE) and not s.guards, 'K1', 'CalculateRevenue/CashFlow/range', where,
              f'revenue is written for target years [{k_start.show()}, {k_stop.show()}); operating years are [C, L + C)', fact='target years [C, L + C)')
    ctx.ok('K1', 'CalculateRevenue/CashFlow/target-index', where, f'target index {norm(s.index)} = loop variable + {shift.show()}')
    subs = [n for n in ast.walk(s.value) if isinstance(n, ast.Subscript)]
    reads = {norm(n.value): tr.tr(n.slice) for n in subs}
    ctx.check(set(reads) == {'Energy', 'Price'} and all(_eq(v, idx - C) for v in reads.values()), 'K1',
              'CalculateRevenue/CashFlow/operand-indices', where,
              f'energy and price of one year must both be read at (target year - C): ' + ', '.join(f'{k}[{v.show()}]' for k, v in reads.items()) +
              f' for target index {idx.show()}', fact='Energy[k - C] * Price[k - C]')
    # value = Energy * Price / 1e6, unit typed kWh * USD/kWh -> MUSD
    def atom_type(key, node):
        if key == 'Energy':
            return UT(*UNIT_TABLE['kWh'])
        if key == 'Price':
            return UT(*UNIT_TABLE['USD/kWh'])
        return None
    try:
        t = UnitTyper(atom_type).ty(s.value)
        dm, sc = UNIT_TABLE['MUSD']
        ctx.check(isinstance(t, UT) and t.dim == dm and close(t.scale, sc), 'K1', 'CalculateRevenue/CashFlow/unit-scale', where,
                  f'kWh x USD/kWh with the literal factors of `{norm(s.value)[:60]}` gives {t.show() if isinstance(t, UT) else t}; '
                  f'declared MUSD', fact='kWh * USD/kWh / 1e6 = MUSD')
    except UnitMismatch as e:
        ctx.bad('K1', 'CalculateRevenue/CashFlow/unit-scale', where, str(e))
    try:
        v = Translator(atom_of=lambda n: norm(n.value) if isinstance(n, ast.Subscript) else None).tr(s.value)
        ctx.check(v.equals(Rat.atom('Energy') * Rat.atom('Price') / Rat.const(10 ** 6)), 'K1', 'CalculateRevenue/CashFlow/formula', where,
                  f'yearly revenue is `{v.show()}`, not energy x price / 1e6')
    except Unsupported as e:
        raise AnalysisError(f'CalculateRevenue: {e}')
    s2 = by['CummCashFlow'][0]
    s2 = _dc.replace(s2, index=_iseq(s2.index, s2.stmt), value=_iseq(s2.value, s2.stmt)) if _dc.is_dataclass(s2) else s2
    where = f'{rel}:{s2.line}'
    r2 = s2.loops[0]
    j = Rat.atom(r2.var)
    # as above, in terms of the target index k = loop variable + offset (a loop over operating years writing cum[C + y] is the same loop)
    idx2 = tr.tr(s2.index)
    shift2 = idx2 - j
    ctx.require(r2.var not in shift2.show(40), f'CalculateRevenue: cumulative target index `{norm(s2.index)}` is not the loop variable plus an offset (cannot decide)')
    ctx.check(_eq(r2.start + shift2, C) and _eq(r2.stop + shift2, L + C) and _eq(r2.step, ONE), 'K1', 'CalculateRevenue/CummCashFlow/range', where,
              f'cumulative revenue is written for target years [{(r2.start + shift2).show()}, {(r2.stop + shift2).show()}); operating years are [C, L + C)')
    ok = isinstance(s2.value, ast.BinOp) and isinstance(s2.value.op, ast.Add)
    if ok:
        parts = {norm(x.value): tr.tr(x.slice) for x in (s2.value.left, s2.value.right) if isinstance(x, ast.Subscript)}
        ok = set(parts) == {'CummCashFlow', 'CashFlow'} and _eq(parts['CummCashFlow'], idx2 - ONE) and _eq(parts['CashFlow'], idx2)
    ctx.check(ok, 'K1', 'CalculateRevenue/CummCashFlow/recurrence', where,
              f'cumulative series is `{norm(s2.stmt)}`; expected cum[i] = cum[i-1] + rev[i]')
    rets = [x for x in ast.walk(f.node) if isinstance(x, ast.Return)]
    ctx.check(len(rets) == 1 and norm(rets[0].value).strip('()') == 'CashFlow, CummCashFlow', 'K1', 'CalculateRevenue/return-order', f'{rel}:{rets[0].lineno}',
              f'returns `{norm(rets[0].value)}`')


# --------------------------------------------------------------------------------------------------- K2..K6 per class
PAIRS = {'Elec': ('NetkWhProduced', 'ElecPrice'), 'Heat': ('HeatkWhProduced', 'HeatPrice'), 'Cooling': ('cooling_kWh_Produced', 'CoolingPrice')}
LIFE = 'model.surfaceplant.plant_lifetime.value'
CONS = 'model.surfaceplant.construction_years.value'


def check_calculate(ctx, fn: FuncInfo, tag: str) -> None:
    rel = fn.module.rel
    aliases = {LIFE: 'L', CONS: 'C'}
    for st in ast.walk(fn.node):
        if isinstance(st, ast.Assign) and isinstance(st.targets[0], ast.Name):
            v = norm(st.value)
            if v in (f'{LIFE} + {CONS}', f'{CONS} + {LIFE}'):
                aliases[st.targets[0].id] = None     # handled below via env
    # total_duration local
    env_tr = _alias_tr(aliases)

    class TR(Translator):
        pass
    _cnt: Dict[str, int] = {}
    _val: Dict[str, ast.AST] = {}
    for st in ast.walk(fn.node):
        if isinstance(st, ast.Assign) and len(st.targets) == 1 and isinstance(st.targets[0], ast.Name):
            _cnt[st.targets[0].id] = _cnt.get(st.targets[0].id, 0) + 1
            _val[st.targets[0].id] = st.value
    locals_def = {k: v for k, v in _val.items() if _cnt[k] == 1}

    def tr_expr(node: ast.AST) -> Rat:
        def atom_of(n):
            k = norm(n)
            if k in aliases and aliases[k]:
                return aliases[k]
            return None
        T = Translator(atom_of=atom_of)
        # expand single-assignment locals (total_duration, ProjectCAPEXPerConstructionYear)
        import copy

        class Sub(ast.NodeTransformer):
            def visit_Name(self, n):
                if isinstance(n.ctx, ast.Load) and n.id in locals_def and n.id not in ('i',):
                    return Sub().visit(clone(locals_def[n.id]))
                return n
        return T.tr(ast.fix_missing_locations(Sub().visit(clone(node))))

    # ---- K2 pairing
    n2 = 0
    for st in ast.walk(fn.node):
        if isinstance(st, ast.Assign) and isinstance(st.value, ast.Call) and dotted_name(st.value.func) == 'CalculateRevenue':
            n2 += 1
            c = st.value
            tg = [norm(e) for e in st.targets[0].elts] if isinstance(st.targets[0], ast.Tuple) else [norm(st.targets[0])]
            args = [_hoisted(fn, a) for a in c.args]
            prod = next((p for p in PAIRS if tg and tg[0] == f'self.{p}Revenue.value'), None)
            key = f'{tag}/CalculateRevenue->{tg[0] if tg else "?"}'
            where = f'{rel}:{st.lineno}'
            if prod is None or len(args) != 4:
                ctx.bad('K2', key, where, f'unrecognised revenue call `{norm(st)[:80]}`')
                continue
            e, p = PAIRS[prod]
            ok = args[0] == LIFE and args[1] == CONS and args[2] == f'model.surfaceplant.{e}.value' and args[3] == f'self.{p}.value' \
                and tg == [f'self.{prod}Revenue.value', f'self.{prod}CummRevenue.value']
            ctx.check(ok, 'K2', key, where,
                      f'{prod} revenue is computed from ({args[2]}, {args[3]}) over ({args[0]}, {args[1]}) into {tg}; expected energy '
                      f'{e} x price {p} over (lifetime, construction years)', fact=f'{e} x {p}')
    ctx.floor('K2', n2, 5, f'{tag}: CalculateRevenue call sites')
    # ---- K3 total series
    def tr_rng(node):
        return tr_expr(node)
    T = Translator(atom_of=lambda n: aliases.get(norm(n)) or None)
    stores = [s for s in loop_stores(fn.node, Translator(atom_of=lambda n: (aliases.get(norm(n)) or None)))
              if s.key in ('self.TotalRevenue.value', 'self.TotalCummRevenue.value')]
    # re-translate ranges with locals expanded
    seen_roles = set()
    for s in stores:
        where = f'{rel}:{s.line}'
        if len(s.loops) != 1:
            ctx.bad('K3', f'{tag}/{s.key}/store@{norm(s.stmt)[:40]}', where, 'store to the total series outside a single range loop')
            continue
        lp = s.loops[0].node
        a = [tr_expr(x) for x in lp.iter.args]
        start, stop = (ZERO, a[0]) if len(a) == 1 else (a[0], a[1])
        step = a[2] if len(a) == 3 else ONE
        i = Rat.atom(s.loops[0].var)
        idx = tr_expr(s.index)
        sub_at = lambda n: (norm(n.value) + '@' + tr_expr(n.slice).show()) if isinstance(n, ast.Subscript) else None
        import copy
        # value with subscripts turned into atoms keyed by base and index
        def val_rat(node):
            def atom_of(n):
                if isinstance(n, ast.Subscript):
                    return f'{norm(n.value)}[{tr_expr(n.slice).show()}]'
                k = norm(n)
                return aliases.get(k) or None
            class Sub(ast.NodeTransformer):
                def visit_Name(self, n):
                    if isinstance(n.ctx, ast.Load) and n.id in locals_def and n.id != s.loops[0].var:
                        return Sub().visit(clone(locals_def[n.id]))
                    return n
            return Translator(atom_of=atom_of).tr(ast.fix_missing_locations(Sub().visit(clone(node))))
        try:
            v = val_rat(s.value)
        except Unsupported as e:
            raise AnalysisError(f'{tag}: {e}')
        rev = 'self.TotalRevenue.value'
        cum = 'self.TotalCummRevenue.value'
        iv = i.show()
        role = None
        if s.key == rev and v.equals(Rat.const(-1) * Rat.atom('self.CCap.value') / C):
            role = 'construction-capex'
            want = (ZERO, C)
        elif s.key == cum and v.equals(Rat.const(-1) * Rat.atom('self.CCap.value') / C):
            role = 'construction-capex-cum'
            want = (ZERO, C)
        elif s.key == rev and v.equals(Rat.atom(f'{rev}[{iv}]') - Rat.atom('self.Coam.value')):
            role = 'minus-oam'
            want = (C, L + C)
        elif s.key == cum and v.equals(Rat.atom(f'{cum}[{(i - ONE).show()}]') + Rat.atom(f'{rev}[{iv}]')):
            role = 'running-sum'
            want = (ONE, L + C)
        elif s.key == rev and v.equals(Rat.atom(f'self.ElecRevenue.value[{iv}]') + Rat.atom(f'self.HeatRevenue.value[{iv}]')):
            role = 'cogeneration-sum'
            want = (ZERO, L + C)
        elif s.key == rev and v.equals(Rat.atom(f'{rev}[{iv}]') + Rat.atom(f'self.CarbonRevenue.value[{iv}]')):
            role = 'plus-carbon'
            want = (C, L + C)
        key = f'{tag}/{s.key.split(".")[1]}/{role or "unrecognised:" + norm(s.stmt)[:50]}'
        if role is None:
            ctx.bad('K3', key, where, f'`{norm(s.stmt)[:90]}` over {s.loops[0].show()} is not one of the documented cash-flow steps '
                                      f'(-CCap/C in construction years, revenue - O&M in operating years, + carbon revenue, running sum)')
            continue
        seen_roles.add(role)
        ok_rng = start.equals(want[0]) and stop.equals(want[1]) and step.equals(ONE) and idx.equals(i)
        extra_g = [norm(t) for t, pol in s.guards]
        ctx.check(ok_rng and not extra_g, 'K3', key, where,
                  f'step `{role}` runs for {s.loops[0].var} in [{start.show()}, {stop.show()}) with target index {idx.show()}'
                  f'{" under guard " + str(extra_g) if extra_g else ""}; it must cover exactly [{want[0].show()}, {want[1].show()}) '
                  f'(C construction years then L operating years)', fact=f'[{want[0].show()}, {want[1].show()})')
        # loop-level guards: carbon only under DoCarbonCalculations; others unconditional
        lg = [norm(t) for t, pol in guards_of(lp, fn.node)]
        if role in ('construction-capex', 'construction-capex-cum', 'minus-oam', 'running-sum'):
            ctx.check(not lg, 'K3', key + '/unconditional', where, f'cash-flow step `{role}` only runs when {lg}')
    need = {'construction-capex', 'construction-capex-cum', 'minus-oam', 'running-sum', 'cogeneration-sum', 'plus-carbon'}
    ctx.check(need <= seen_roles, 'K3', f'{tag}/cash-flow-steps-complete', fn.where,
              f'cash-flow assembly lacks the steps {sorted(need - seen_roles)}', fact=f'{sorted(seen_roles)}')
    # single-product arms: TotalRevenue = <product revenue>.copy()
    for st in ast.walk(fn.node):
        if isinstance(st, ast.Assign) and norm(st.targets[0]) == 'self.TotalRevenue.value' and isinstance(st.value, ast.Call):
            v = norm(st.value)
            ok = v in ('self.ElecRevenue.value.copy()', 'self.HeatRevenue.value.copy()', 'self.CoolingRevenue.value.copy()')
            ctx.check(ok, 'K3', f'{tag}/TotalRevenue=copy-of-product-revenue:{v[:40]}', f'{rel}:{st.lineno}',
                      f'`{norm(st)}`: total revenue of a single-product plant is not a copy of that product\'s revenue')
    # ---- K4 evaluated series = reported series
    calls = [c for c in calls_in(fn.node) if dotted_name(c.func) == 'CalculateFinancialPerformance']
    ctx.require(len(calls) == 1, f'{tag}: CalculateFinancialPerformance call not found')
    c = calls[0]
    args = [_hoisted(fn, a) for a in c.args]
    want = [LIFE, 'self.FixedInternalRate.value', 'self.TotalRevenue.value', 'self.TotalCummRevenue.value', 'self.CCap.value',
            'self.Coam.value', 'self.discount_initial_year_cashflow.value']
    ctx.check(args == want or args == want[:-1], 'K4', f'{tag}/financial-performance-arguments', f'{rel}:{c.lineno}',
              f'NPV/IRR/VIR/MOIC are evaluated on {args}; the reported series/costs are {want}')
    st = c
    while not isinstance(st, ast.stmt):
        st = parent(st)
    tg = [norm(e) for e in st.targets[0].elts] if isinstance(st, ast.Assign) and isinstance(st.targets[0], ast.Tuple) else []
    ctx.check(tg == ['self.ProjectNPV.value', 'self.ProjectIRR.value', 'self.ProjectVIR.value', 'self.ProjectMOIC.value'], 'K4',
              f'{tag}/financial-performance-unpack', f'{rel}:{c.lineno}', f'results unpacked into {tg}')
    top = list(fn.node.body)
    idx_call = next(i for i, s in enumerate(top) if any(x is c for x in ast.walk(s)))
    late = []
    for s in top[idx_call + 1:]:
        for x in ast.walk(s):
            if isinstance(x, (ast.Assign, ast.AugAssign)):
                for t in (x.targets if isinstance(x, ast.Assign) else [x.target]):
                    for e in (t.elts if isinstance(t, ast.Tuple) else [t]):
                        b = e.value if isinstance(e, ast.Subscript) else e
                        if target_key(b) in ('self.TotalRevenue.value', 'self.TotalCummRevenue.value'):
                            late.append(x.lineno)
            if isinstance(x, ast.Call) and isinstance(x.func, ast.Attribute) and x.func.attr in ('insert', 'append', 'pop', 'extend') and \
                    target_key(x.func.value) in ('self.TotalRevenue.value', 'self.TotalCummRevenue.value'):
                late.append(x.lineno)
    ctx.check(not late, 'K4', f'{tag}/series-not-modified-after-evaluation', f'{rel}:{c.lineno}',
              f'the cash-flow series is modified at line {late[0] if late else 0} after NPV/IRR were computed from it: the reported '
              f'series is not the evaluated one')
    # all assembly steps precede the evaluation
    for s in stores:
        ctx.check(s.line < c.lineno, 'K4', f'{tag}/assembled-before-evaluation@{s.key.split(".")[1]}', f'{rel}:{s.line}',
                  'a cash-flow assembly step runs after the financial performance was computed')
    # ---- K6 payback (on the canonical form: attribute aliases inlined, continue-guards un-nested)
    from gxstat.inline import canonical_function
    cfn = canonical_function(fn.node)
    pb = [x for x in ast.walk(cfn) if isinstance(x, ast.For) and any(
        isinstance(y, ast.Assign) and norm(y.targets[0]) == 'self.ProjectPaybackPeriod.value' for y in ast.walk(x))]
    ctx.require(len(pb) == 1, f'{tag}: payback scan loop not found')
    lp = pb[0]
    where = f'{rel}:{lp.lineno}'
    g = guards_of(lp, cfn)
    ctx.check(not g, 'K6', f'{tag}/payback/scan-unconditional', where,
              f'the payback scan only runs when `{norm(g[0][0]) if g else ""}`: a project whose cumulative cash flow turns positive '
              f'(and e.g. ends negative) is reported as never paying back')
    it = lp.iter
    a = [norm(x) for x in it.args] if isinstance(it, ast.Call) and dotted_name(it.func) == 'range' else []
    cumk = 'self.TotalCummRevenue.value'
    ok = len(a) >= 2 and a[0] == '1' and a[1] == f'len({cumk})' and (len(a) == 2 or a[2] == '1')
    ctx.check(ok, 'K6', f'{tag}/payback/scan-range', where,
              f'payback scan runs over range({", ".join(a)}); it must be range(1, len(cumulative)) so that cum[i-1] never wraps to the '
              f'last year and no crossing is skipped', fact='range(1, len(cum))')
    iv = norm(lp.target)
    tests = [x for x in lp.body if isinstance(x, ast.If)]
    ok = len(tests) == 1 and norm(tests[0].test).strip('()') in (f'{cumk}[{iv}] > 0 >= {cumk}[{iv} - 1]',
                                                                 f'{cumk}[{iv} - 1] <= 0 < {cumk}[{iv}]')
    ctx.check(ok, 'K6', f'{tag}/payback/crossing-test', where,
              f'crossing test is `{norm(tests[0].test) if tests else "?"}`; expected cum[i] > 0 >= cum[i-1]')
    if tests:
        asg = [y for y in ast.walk(tests[0]) if isinstance(y, ast.Assign) and norm(y.targets[0]) == 'self.ProjectPaybackPeriod.value']
        loc = {norm(y.targets[0]): y.value for y in ast.walk(tests[0]) if isinstance(y, ast.Assign) and isinstance(y.targets[0], ast.Name)}
        import copy

        class Sub(ast.NodeTransformer):
            def visit_Name(self, n):
                if isinstance(n.ctx, ast.Load) and n.id in loc:
                    return Sub().visit(clone(loc[n.id]))
                return n
        if len(asg) == 1:
            def atom_of(n):
                if isinstance(n, ast.Subscript):
                    return 'cur' if norm(n.slice).replace('(', '').replace(')', '') == iv else 'prev'
                return None

            def hook(T, call):
                if dotted_name(call.func) in ('math.fabs', 'abs', 'np.abs') and len(call.args) == 1:
                    inner = T.tr(call.args[0])
                    return Rat.atom(f'|{inner.show()}|')
                return None
            try:
                v = Translator(atom_of=atom_of, call_hook=hook).tr(ast.fix_missing_locations(Sub().visit(clone(asg[0].value))))
                want = Rat.atom(iv) + Rat.atom('|prev|') / (Rat.atom('cur') + Rat.atom('|prev|'))
                ctx.check(v.equals(want), 'K6', f'{tag}/payback/interpolation', f'{rel}:{asg[0].lineno}',
                          f'payback = `{v.show()}`; expected i + |cum[i-1]| / (cum[i] + |cum[i-1]|), a point inside the crossing year')
            except Unsupported as e:
                raise AnalysisError(f'{tag} payback: {e}')
        else:
            ctx.bad('K6', f'{tag}/payback/interpolation', where, 'payback assignment not found inside the crossing test')
    init = [y for y in cfn.body if isinstance(y, ast.Assign) and norm(y.targets[0]) == 'self.ProjectPaybackPeriod.value']
    ctx.check(len(init) == 1 and norm(init[0].value) == '0.0' and init[0].lineno < lp.lineno, 'K6', f'{tag}/payback/never-pays-back-is-zero',
              where, 'payback is not initialised to 0.0 (shown as N/A) before the scan')


def check_financial_fn(ctx) -> None:
    f = ctx.repo.function('geophires_x/Economics.py', 'CalculateFinancialPerformance')
    rel = f.module.rel
    want_args = ['plantlifetime', 'FixedInternalRate', 'TotalRevenue', 'TotalCummRevenue', 'CAPEX', 'OPEX', 'discount_initial_year_cashflow']
    ctx.check(f.args == want_args, 'K5', 'CalculateFinancialPerformance/signature', f.where, f'parameters {f.args}')
    res = AtomResolver(ctx.repo, 'Economics')
    # NPV: calculate_npv(FixedInternalRate / 100, TotalRevenue.copy(), flag)
    npv = [c for c in calls_in(f.node) if dotted_name(c.func) == 'calculate_npv']
    ctx.require(len(npv) == 1, 'CalculateFinancialPerformance: calculate_npv call not found')
    c = npv[0]
    fir = res.unit('self.FixedInternalRate.value')
    ctx.require(fir is not None, 'FixedInternalRate unit not resolvable')
    try:
        from gxstat.inline import enclosing_stmt, inline_block_locals
        rate_arg = inline_block_locals(c.args[0], enclosing_stmt(c))
        t = UnitTyper(lambda k, n: fir if k == 'FixedInternalRate' else None).ty(rate_arg)
        ctx.check(isinstance(t, UT) and t.dim == NONE and close(t.scale, Fraction(1)), 'K5', 'CalculateFinancialPerformance/npv-rate-scale',
                  f'{rel}:{c.lineno}', f'the discount rate handed to NPV is `{norm(c.args[0])}` = {t.show() if isinstance(t, UT) else t} of a '
                  f'fraction; Fixed Internal Rate is declared in % so it must be divided by 100', fact='FixedInternalRate[%] / 100 -> fraction')
    except UnitMismatch as e:
        ctx.bad('K5', 'CalculateFinancialPerformance/npv-rate-scale', f'{rel}:{c.lineno}', str(e))
    ctx.check(norm(c.args[1]) in ('TotalRevenue.copy()', 'TotalRevenue') and norm(c.args[2]) == 'discount_initial_year_cashflow', 'K5',
              'CalculateFinancialPerformance/npv-series', f'{rel}:{c.lineno}', f'NPV is computed on `{norm(c.args[1])}`')
    irr = [c for c in calls_in(f.node) if dotted_name(c.func) == 'npf.irr']
    ctx.check(len(irr) == 1 and norm(irr[0].args[0]) == 'TotalRevenue', 'K5', 'CalculateFinancialPerformance/irr-series', f.where,
              'IRR is not computed on the same TotalRevenue series as NPV')
    # IRR scale: fraction -> % (x100) on the non-NaN path.  Decided on the final definition(s) of IRR with named intermediates inlined:
    # every arm / path is either the constant 0 (undetermined IRR) or npf.irr(...) x 100
    from gxstat.inline import inline_block_locals as _ibl2
    from gxstat.symflow import PathEnumerator as _PE, expand_def as _xd

    def _irr_hook(T, call):
        if dotted_name(call.func) == 'npf.irr':
            return Rat.atom('IRRF')
        return None

    def _arms(e):
        if isinstance(e, ast.IfExp):
            return _arms(e.body) + _arms(e.orelse)
        return [e]
    finals = []
    for pth in _PE(f.node.body, {'IRR'}, fork_all=True).paths():
        d_ = pth.env.get('IRR')
        if d_ is None or d_.expr is None:
            continue
        e_ = _xd(d_, only=lambda k: '.' not in k)
        for arm in _arms(e_):
            try:
                finals.append(Translator(call_hook=_irr_hook).tr(arm))
            except Unsupported as e:
                raise AnalysisError(f'CalculateFinancialPerformance: IRR definition outside the supported algebra: {e}')
    ctx.require(finals, 'CalculateFinancialPerformance: no definition of IRR found (idiom changed)')
    pct = Rat.atom('IRRF') * Rat.const(100)
    ok = any(v.equals(pct) for v in finals) and all(v.equals(pct) or (v.is_const() and v.const_value() == 0) for v in finals)
    ctx.check(ok, 'K5', 'CalculateFinancialPerformance/irr-percent', f.where,
              'npf.irr returns a fraction; the IRR output is declared in % and must be multiplied by 100 (final values found: '
              + ', '.join(sorted({v.show(4) for v in finals})) + ')', fact='IRR = npf.irr(...) x 100, or 0 when undetermined')
    # VIR / MOIC formulas
    defs = {norm(s.targets[0]): s for s in f.node.body if isinstance(s, ast.Assign) and isinstance(s.targets[0], ast.Name)}
    def atom_of(n):
        if isinstance(n, ast.Subscript) and norm(n.value) == 'TotalCummRevenue' and norm(n.slice) in ('len(TotalCummRevenue) - 1', '-1'):
            return 'cum_last'
        return None
    try:
        from gxstat.inline import inline_block_locals as _ibl
        keepn = ('NPV', 'IRR', 'VIR', 'MOIC')
        vir = Translator(atom_of=atom_of).tr(_ibl(defs['VIR'].value, defs['VIR'], keep=keepn))
        ctx.check(vir.equals(ONE + Rat.atom('NPV') / Rat.atom('CAPEX')), 'K5', 'CalculateFinancialPerformance/VIR', f'{rel}:{defs["VIR"].lineno}',
                  f'VIR = `{vir.show()}`; expected 1 + NPV / CAPEX')
        moic = Translator(atom_of=atom_of).tr(_ibl(defs['MOIC'].value, defs['MOIC'], keep=keepn))
        ctx.check(moic.equals(Rat.atom('cum_last') / (Rat.atom('CAPEX') + Rat.atom('OPEX') * Rat.atom('plantlifetime'))), 'K5',
                  'CalculateFinancialPerformance/MOIC', f'{rel}:{defs["MOIC"].lineno}',
                  f'MOIC = `{moic.show()}`; expected final cumulative cash flow / (CAPEX + OPEX x lifetime)')
    except (KeyError, Unsupported) as e:
        raise AnalysisError(f'CalculateFinancialPerformance: VIR/MOIC definitions not found ({e})')
    rets = [x for x in ast.walk(f.node) if isinstance(x, ast.Return)]
    ctx.check(len(rets) == 1 and norm(rets[0].value).strip('()') == 'NPV, IRR, VIR, MOIC', 'K5', 'CalculateFinancialPerformance/return-order', f.where,
              f'returns `{norm(rets[0].value) if rets else ""}`')
    # both NPV conventions go through the single calculate_npv
    g = ctx.repo.function('geophires_x/Economics.py', 'calculate_npv')
    nc = [c for c in calls_in(g.node) if dotted_name(c.func) == 'npf.npv']
    ctx.require(nc, 'calculate_npv: no npf.npv call found')
    ctx.check(all(c.args and norm(c.args[0]) == g.args[0] for c in nc), 'K5', 'calculate_npv/rate-passed-through', g.where,          # one call per convention is fine
              'calculate_npv does not hand its rate argument unchanged to npf.npv')
    # add-on siblings: IRR stored in a %-declared output must be scaled
    addon = ctx.repo.method('EconomicsAddOns', 'Calculate')
    for s in ast.walk(addon.node):
        if isinstance(s, ast.Assign) and norm(s.targets[0]).endswith('IRR.value') and isinstance(s.value, ast.Call) and dotted_name(s.value.func) == 'npf.irr':
            key = f'EconomicsAddOns.Calculate/{norm(s.targets[0])}/irr-percent'
            attr = norm(s.targets[0]).split('.')[1]
            scaled = any(isinstance(y, (ast.AugAssign, ast.Assign)) and norm(y.target if isinstance(y, ast.AugAssign) else y.targets[0]) == norm(s.targets[0])
                         and '100' in norm(y.value) for y in ast.walk(addon.node) if y is not s)
            u = AtomResolver(ctx.repo, 'EconomicsAddOns').unit(norm(s.targets[0]))
            pct = u is not None and close(u.scale, Fraction(1, 100))
            ctx.check(scaled or not pct, 'K5', key, f'{addon.module.rel}:{s.lineno}',
                      f'`{norm(s)}` stores npf.irr (a fraction) in {attr}, which is declared in %: the report shows e.g. 0.06 % for 6 %')
        if isinstance(s, ast.Call) and (dotted_name(s.func) or '').endswith('calculate_npv'):
            ctx.check(norm(s.args[0]) in ('self.FixedInternalRate.value / 100', 'self.FixedInternalRate.value / 100.0'), 'K5',
                      'EconomicsAddOns.Calculate/npv-rate-scale', f'{addon.module.rel}:{s.lineno}',
                      f'add-on NPV rate `{norm(s.args[0])}` is not FixedInternalRate[%] / 100')


def check_revenue_after_energy_adjustments(ctx) -> None:
    """K8: revenue, cash flow, NPV, IRR and payback are computed from the yearly energy series.  Every Calculate of another model part
    that Economics.Calculate invokes and that rewrites one of those series (S-DAC-GT deducts its consumption, add-ons) must run
    before the first revenue computation, otherwise the reported revenue is not the reported energy sold times the price."""
    from gxstat.callgraph import get_callgraph
    from rules.c01 import _writes_of, attr_of
    repo = ctx.repo
    cg = get_callgraph(repo)
    for cn, suffix in (('Economics', 'geophires_x/Economics.py'), ('SBTEconomics', 'geophires_x/SBTEconomics.py')):
        g = repo.method(cn, 'Calculate', suffix)
        top = list(g.node.body)
        rev_idx = [i for i, st in enumerate(top) if any(isinstance(c, ast.Call) and (dotted_name(c.func) or '').split('.')[-1] == 'CalculateRevenue'
                                                       for c in ast.walk(st))]
        ctx.require(rev_idx, f'{cn}.Calculate: no top-level statement calls CalculateRevenue (idiom changed)')
        first = min(rev_idx)
        reads = set()
        for i in rev_idx:
            for c in ast.walk(top[i]):
                if isinstance(c, ast.Call) and (dotted_name(c.func) or '').split('.')[-1] == 'CalculateRevenue':
                    for a in c.args:
                        for x in ast.walk(a):
                            if isinstance(x, ast.Attribute) and x.attr == 'value':
                                reads.add(attr_of(norm(x)))
        ctx.floor('K8', len(reads), 4, f'{cn}: series the revenue computation reads')
        late = []
        for st in top[first:]:
            for x in ast.walk(st):
                if isinstance(x, ast.Call):
                    for t in cg.call_targets(x, g):
                        if t.name == 'Calculate' and t.cls is not None and t is not g:
                            hit = sorted(a for a in _writes_of(t) if a in reads)
                            if hit:
                                late.append((x, t, hit))
        key = f'{cn}.Calculate/revenue-after-energy-adjustments'
        if late:
            x, t, hit = late[0]
            ctx.bad('K8', key, f'{g.module.rel}:{x.lineno}',
                    f'`{norm(x)[:60]}` runs after the first revenue computation (line {top[first].lineno}) although {t.qualname} rewrites {hit[:3]}: '
                    f'revenue, cash flow, NPV, IRR and payback were computed from the series before the adjustment, the report shows the '
                    f'adjusted series')
        else:
            ctx.ok('K8', key, f'{g.module.rel}:{top[first].lineno}', f'no later Calculate call rewrites {sorted(reads)[:4]}...')


def _hoisted(fn, a: ast.AST) -> str:
    """text of an argument, read through a hoisted scalar: a local bound exactly once in the function, to a plain attribute path
    (`lifetime = model.surfaceplant.plant_lifetime.value`), is that path"""
    if isinstance(a, ast.Name):
        defs = [st for st in ast.walk(fn.node) if isinstance(st, (ast.Assign, ast.AnnAssign)) and
                any(isinstance(t, ast.Name) and t.id == a.id for t in (st.targets if isinstance(st, ast.Assign) else [st.target]))]
        others = [x for x in ast.walk(fn.node) if isinstance(x, ast.Name) and x.id == a.id and isinstance(x.ctx, ast.Store)]
        if len(defs) == 1 and len(others) == 1 and defs[0].value is not None and isinstance(defs[0].value, ast.Attribute) and dotted_name(defs[0].value):
            return norm(defs[0].value)
    return norm(a)


LIST_MUTATORS = {'insert', 'append', 'extend', 'pop', 'remove', 'sort', 'reverse', 'clear', 'fill', 'resize', 'put'}


def check_series_arguments_untouched(ctx) -> None:
    repo = ctx.repo
    mods = [m for m in ('geophires_x/Economics.py', 'geophires_x/SBTEconomics.py', 'geophires_x/EconomicsAddOns.py') if repo.has_module(m)]
    helpers = {}
    for m in mods:
        for f in repo.module(m).functions.values():
            helpers.setdefault(f.name, f)
    # parameters that receive shared model storage: bound to `<x>.value` at a call site, or to a shared parameter of the caller
    shared = {}
    callers = [f for f in repo.all_functions() if any(m in f.module.rel for m in ('Economics',))]
    changed = True
    rounds = 0
    while changed and rounds < 6:
        changed = False
        rounds += 1
        for g in callers:
            if not isinstance(g.node, (ast.FunctionDef, ast.AsyncFunctionDef)):
                continue
            for c in calls_in(g.node):
                nm = (dotted_name(c.func) or '').split('.')[-1]
                h = helpers.get(nm)
                if h is None or h is g:
                    continue
                params = [a.arg for a in h.node.args.args]
                off = 1 if params[:1] == ['self'] and not (c.args and isinstance(c.args[0], ast.Name) and c.args[0].id == 'self') else 0
                binds = [(params[i + off], a) for i, a in enumerate(c.args) if i + off < len(params)]
                binds += [(kw.arg, kw.value) for kw in c.keywords if kw.arg in params]
                for pn, a in binds:
                    is_shared = (isinstance(a, ast.Attribute) and a.attr == 'value') or \
                        (isinstance(a, ast.Name) and (g.name, a.id) in shared)
                    if is_shared and (h.name, pn) not in shared:
                        shared[(h.name, pn)] = f'{g.qualname} passes `{norm(a)}`'
                        changed = True
    n = 0
    for (hn, pn), why in sorted(shared.items()):
        h = helpers[hn]
        rebound = {t.id for st in ast.walk(h.node) if isinstance(st, ast.Assign) for t in st.targets if isinstance(t, ast.Name)}
        n += 1
        bad = None
        if pn not in rebound:
            for st in ast.walk(h.node):
                if isinstance(st, (ast.Assign, ast.AugAssign)):
                    for t in (st.targets if isinstance(st, ast.Assign) else [st.target]):
                        b = t
                        while isinstance(b, ast.Subscript):
                            b = b.value
                        if isinstance(b, ast.Name) and b.id == pn and (isinstance(t, ast.Subscript) or isinstance(st, ast.AugAssign)):
                            bad = st
                if isinstance(st, ast.Call) and isinstance(st.func, ast.Attribute) and st.func.attr in LIST_MUTATORS and \
                        isinstance(st.func.value, ast.Name) and st.func.value.id == pn:
                    bad = st
        ctx.check(bad is None, 'K9', f'{hn}({pn})/series-argument-untouched', f'{h.module.rel}:{(bad or h.node).lineno}',
                  f'{hn} changes its parameter `{pn}` in place (`{norm(bad)[:70] if bad is not None else ""}`), and {why}: the model\'s own series is '
                  f'altered by evaluating it, so the reported yearly series is no longer the one the reported figures were computed on',
                  fact=f'{why}; never modified')
    ctx.floor('K9', n, 2, 'helper parameters that receive a model series')


def run(ctx) -> None:
    ctx.rule('K1', 'CalculateRevenue: revenue[i] = Energy[i-C] x Price[i-C] / 1e6 for i in exactly [C, L+C) (equal subscripts, MUSD by '
                   'unit typing), cumulative recurrence cum[i] = cum[i-1] + rev[i]')
    ctx.rule('K2', 'each product revenue pairs that product\'s energy series with that product\'s price series')
    ctx.rule('K3', 'total series: -CCap/C over [0, C), revenue - O&M over [C, L+C), + carbon revenue over [C, L+C), cogeneration sum over '
                   '[0, L+C), running sum over [1, L+C); every store to the series is one of these steps; all steps present')
    ctx.rule('K4', 'NPV/IRR/VIR/MOIC are evaluated on the very attributes the report prints and nothing modifies them afterwards')
    ctx.rule('K5', 'rates: Fixed Internal Rate [%] / 100 into NPV; npf.irr fraction x 100 into the %-declared IRR; VIR = 1 + NPV/CAPEX; '
                   'MOIC = final cumulative / (CAPEX + OPEX x L)')
    ctx.rule('K6', 'payback: unconditional scan over range(1, len(cum)), crossing test cum[i] > 0 >= cum[i-1], value i + |cum[i-1]| / '
                   '(cum[i] + |cum[i-1]|), 0.0 (N/A) when no crossing')
    check_revenue_fn(ctx)
    check_financial_fn(ctx)
    repo = ctx.repo
    check_calculate(ctx, repo.method('Economics', 'Calculate', 'geophires_x/Economics.py'), 'Economics')
    check_calculate(ctx, repo.method('SBTEconomics', 'Calculate', 'geophires_x/SBTEconomics.py'), 'SBTEconomics')
    ctx.rule('K8', 'every invoked Calculate that rewrites a series the revenue computation reads runs before the first revenue computation')
    check_revenue_after_energy_adjustments(ctx)
    ctx.rule('K7', "the rate of NPV/VIR is the synchronised one: conversions store a number in the target's own unit, no stale copies (shared)")
    from rules.rate_sync import check_rate_sync
    _n = check_rate_sync(ctx, 'K7', only_functions={'sync_interest_rate'})
    ctx.floor('K7', _n, 4, 'conversion assignments / sync functions of the rate family')
    ctx.rule('K9', 'the finance helpers leave the series they are handed as they are: no insert/append/element store/in-place operator on a '
                   'parameter that (transitively) receives a model series such as TotalRevenue.value - the reported yearly series stays the one '
                   'NPV, IRR, VIR and MOIC were evaluated on, year for year')
    check_series_arguments_untouched(ctx)
    ctx.rule('K11', 'no economics Calculate (nor a finance helper) is memoised: a second evaluation on the same model recomputes the series and the '
                    'figures from the current inputs, so they stay consistent with one another (C08 P2)')
    from gxstat.runner import Renamed as _Ren
    from rules.c08 import check_p2 as _p2
    _n0 = len(ctx.obligations)
    _p2(_Ren(ctx, {'P2': 'K11'}, key_filter=lambda k: k.endswith('/memoised')))
    _keep = [o for o in ctx.obligations[_n0:] if 'Economics' in o['where']]
    del ctx.obligations[_n0:]
    ctx.obligations.extend(_keep)
    if not _keep:
        ctx.ok('K11', 'economics/no-memoised-function', 'src/geophires_x/Economics.py', 'no memoised function in the economics modules')
    ctx.undecided('that npf.irr finds the root (a reported non-zero IRR zeroes the NPV)', 'npf.npv numerics',
                  'N/A rendering of a zero payback in the report (C09)')
    ctx.assume('numpy_financial.irr returns a fraction and npv takes a fractional rate (library documentation)')
