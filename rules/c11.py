"""C11 -- economic results scale the way the definitions require.

H1 levelized costs and their cost inputs do not depend on sale prices (interprocedural dependency slice),
H2 degree-1 homogeneity of every levelized cost in the cost atoms (and of the totals in their components),
H3 direct-use LCOH has degree -1 in the end-use efficiency: numerator side free of efficiency-proportional atoms,
   produced heat degree 1, H4 zero elements: zero ITC/grant/fees and a zero add-on change nothing."""
from __future__ import annotations

import ast
from fractions import Fraction
from typing import Dict, List, Set

from gxstat.algebra import Poly, Rat, Translator, Unsupported
from gxstat.depgraph import def_sites, deps_of
from gxstat.domains import DEG_ANY, degree
from gxstat.loops import loop_stores
from gxstat.registry import get_registry
from gxstat.srcmodel import AnalysisError, calls_in, dotted_name, norm
from gxstat.symflow import PathEnumerator, cond_text, names_read, target_key
from rules.c01 import OUTS, _arm_of, _leaf_label, _price_attrs, attr_of

COST_ATTRS = {'CCap', 'Coam', 'electricity_cost_to_buy', 'annualngcost', 'averageannualngcost', 'averageannualpumpingcosts',
              'averageannualheatpumpelectricitycost'}
# quantities proportional to the end-use efficiency factor (direct-use): they may only appear in LCOH's denominator
EFFICIENCY_PROPORTIONAL = {'HeatProduced', 'HeatkWhProduced', 'enduse_efficiency_factor'}


def run(ctx) -> None:
    repo = ctx.repo
    reg = get_registry(repo)
    ctx.rule('H1', 'neither the levelized costs nor the totals/annual costs they are built from depend (data or control) on a sale '
                   'price, PTC, carbon price, escalation or revenue attribute')
    ctx.rule('H2', 'each levelized cost is homogeneous of degree 1 in {CCap, Coam, electricity purchase rate, peaking-fuel and average '
                   'annual cost atoms}; totals are degree 1 in their components')
    ctx.rule('H3', 'direct-use heat: produced heat is extracted heat x efficiency (degree 1), the annual series is a linear image of it, '
                   'and nothing on the cost side depends on an efficiency-proportional quantity')
    ctx.rule('H4', 'zero elements: ITC rate 0, zero grants/incentives/fees reduce the totals to the unmodified sums; EconomicsAddOns '
                   'changes base series only by adding its own totals to the same element')
    f = repo.function('geophires_x/Economics.py', 'CalculateLCOELCOHLCOC')
    rel = f.module.rel
    paths = PathEnumerator(f.node.body, set(OUTS)).paths()
    price = _price_attrs(reg)
    n = 0
    for p in paths:
        arm = _arm_of(p)
        for o in OUTS:
            d = p.env.get(o)
            if d is None or d.expr is None or (isinstance(d.expr, ast.Constant) and d.expr.value in (0, 0.0)):
                continue
            n += 1
            leaf = f'{arm}/{_leaf_label(p)}/{o}'
            deg = degree(d.expr, lambda k: attr_of(k) in COST_ATTRS, d.binds)
            ctx.check(deg == 1, 'H2', leaf, f'{rel}:{d.line}',
                      f'{o} is not homogeneous of degree 1 in the cost atoms (degree analysis gives {"mixed" if deg is None else deg}): a '
                      f'cost term is multiplied by a non-cost quantity that should be a cost (e.g. a purchase priced with another '
                      f'rate), or by another cost', fact='degree 1 in costs')
    ctx.floor('H2', n, 21, 'assigned outputs')
    # ---------------------------------------------------------------------------------------------- H1 interprocedural
    econ = repo.method('Economics', 'Calculate', 'geophires_x/Economics.py')
    reads = set()
    for node in ast.walk(f.node):
        if isinstance(node, ast.Attribute) and isinstance(node.ctx, ast.Load):
            dn = dotted_name(node)
            if dn and dn.startswith('self.') and dn.endswith('.value'):
                reads.add(dn)
    cost_keys = {k for k in reads if attr_of(k) in COST_ATTRS or attr_of(k) in ('CAPEX_heat_electricity_plant_ratio',)}
    sites = def_sites(econ.node)
    deps, why = deps_of(econ.node, cost_keys, sites=sites)
    def _obj(k: str) -> str:
        ps = k.split('.')
        return ps[-2] if len(ps) >= 2 and ps[-1] in ('value', 'Provided', 'Valid') else ps[-1]
    leak = sorted(k for k in deps if _obj(k) in price and k.endswith(('.value', '.Provided', '.Valid')))
    for k in leak:
        s = why.get(k)
        ctx.bad('H1', f'Economics.Calculate/cost-depends-on:{_obj(k)}', f'{econ.module.rel}:{s.stmt.lineno if s else econ.node.lineno}',
                f'a cost total read by the levelized-cost formula depends on {k} through `{norm(s.stmt)[:70] if s else "?"}`: changing only '
                f'sale prices would change a levelized cost')
    ctx.check(not leak, 'H1', 'Economics.Calculate/cost-side-price-free', econ.where, 'see above',
              fact=f'{len(deps)} names in the dependency slice of {sorted(attr_of(k) for k in cost_keys)}; none a price/revenue attribute')
    # ---------------------------------------------------------------------------------------------- H3
    cfg = {'enduse_option.value': ('EndUseOptions', 'HEAT'), 'plant_type.value': ('PlantType', 'INDUSTRIAL')}
    deps3, why3 = deps_of(econ.node, cost_keys, config=cfg, sites=sites)
    bad3 = sorted(k for k in deps3 if attr_of(k) in EFFICIENCY_PROPORTIONAL)
    for k in bad3:
        s = why3.get(k)
        ctx.bad('H3', f'Economics.Calculate/direct-use-cost-depends-on:{attr_of(k)}', f'{econ.module.rel}:{s.stmt.lineno if s else econ.node.lineno}',
                f'for direct-use heat a cost total depends on {k} (proportional to the end-use efficiency) through '
                f'`{norm(s.stmt)[:80] if s else "?"}` (or its guard): halving the efficiency then no longer exactly doubles LCOH')
    ctx.check(not bad3, 'H3', 'Economics.Calculate/direct-use-cost-side-efficiency-free', econ.where, 'see above',
              fact='cost side uses extracted heat only')
    ind = repo.method('SurfacePlantIndustrialHeat', 'Calculate')
    hp = [s for s in ind.node.body if isinstance(s, ast.Assign) and norm(s.targets[0]) == 'self.HeatProduced.value']
    ctx.require(len(hp) == 1, 'SurfacePlantIndustrialHeat.Calculate: HeatProduced definition not found')
    try:
        r = Translator().tr(hp[0].value)
    except Unsupported as e:
        raise AnalysisError(str(e))
    ctx.check(r.equals(Rat.atom('self.HeatExtracted.value') * Rat.atom('self.enduse_efficiency_factor.value')), 'H3',
              'SurfacePlantIndustrialHeat.Calculate/HeatProduced=HeatExtracted*efficiency', f'{ind.module.rel}:{hp[0].lineno}',
              f'produced heat is `{r.show()}`, not extracted heat x end-use efficiency')
    he = [s for s in ind.node.body if isinstance(s, ast.Assign) and norm(s.targets[0]) == 'self.HeatExtracted.value']
    ctx.check(len(he) == 1 and 'enduse_efficiency_factor' not in norm(he[0].value), 'H3',
              'SurfacePlantIndustrialHeat.Calculate/HeatExtracted-efficiency-free', f'{ind.module.rel}:{he[0].lineno if he else ind.node.lineno}',
              'extracted heat depends on the end-use efficiency')
    st = [s for s in loop_stores(ind.node) if s.key == 'self.HeatkWhProduced.value']
    ok = len(st) == 1 and isinstance(st[0].value, ast.Call) and norm(st[0].value.args[0]) == 'self.HeatProduced.value' if st else False
    ctx.check(ok, 'H3', 'SurfacePlantIndustrialHeat.Calculate/HeatkWhProduced<-HeatProduced', f'{ind.module.rel}:{st[0].line if st else ind.node.lineno}',
              'the annual heat series sold is not the integral of produced heat')
    # ---------------------------------------------------------------------------------------------- H4 zero elements
    from rules.c03 import _final, A, _holds, CAP_PARTS
    for p, r in _final(ctx, econ, 'self.CCap.value', ('self.RITCValue.value',)):
        if r is None:
            continue
        fixed = _holds(p, 'self.totalcapcost.Valid')
        base = A('totalcapcost') if fixed else sum((A(c) for c in CAP_PARTS[1:]), A(CAP_PARTS[0]))
        z = r
        for a in ('RITC', 'FlatLicenseEtc', 'OtherIncentives', 'TotalGrant'):
            z = Rat(_zero(z.n, f'self.{a}.value'), _zero(z.d, f'self.{a}.value'))
        key = f'Economics/CCap/zero-incentives/{"user-total" if fixed else "sum-of-parts"}/{"ITC" if _holds(p, "self.RITC.Provided") else "no-ITC"}'
        ctx.check(z.equals(base), 'H4', key, f'{econ.module.rel}:{p.env["self.CCap.value"].line}',
                  f'with a zero-rate tax credit and zero grants/incentives/fees the capital cost is `{z.show(6)}`, not the plain total',
                  fact='reduces to the plain total')
        dg = r.n.degree_in({f'self.{c}.value' for c in CAP_PARTS} | {'self.totalcapcost.value', 'self.FlatLicenseEtc.value',
                           'self.OtherIncentives.value', 'self.TotalGrant.value'})
        ctx.check(dg == {1}, 'H2', key.replace('zero-incentives', 'degree-1-in-cost-inputs'), f'{econ.module.rel}:{p.env["self.CCap.value"].line}',
                  f'capital cost is not homogeneous of degree 1 in its cost inputs (degrees {sorted(dg)})')
    # add-ons: stores to objects not owned by the add-on module are `X[i] = X[i] + <add-on total>`
    addon = repo.method('EconomicsAddOns', 'Calculate')
    n4 = 0
    series4 = set()
    from gxstat.inline import canonical_function
    # a local bound once to one of the module's own series (`cum = self.ProjectCummCashFlow.value`) is that series
    cfn = canonical_function(addon.node, unnest=False)
    for s in loop_stores(cfn):
        if s.key.startswith('self.'):
            continue
        if '.' not in s.key:
            # a plain local: a freshly built container (`cum = [0.0] * n`, np.zeros(...), a copy) is the module's own; anything else
            # might be a base series under another name
            dfs = [x.value for x in ast.walk(cfn) if isinstance(x, ast.Assign) and any(norm(t_) == s.key for t_ in x.targets)]       # also `a = self.b.value = [..]`
            fresh = bool(dfs) and all(isinstance(v, (ast.List, ast.ListComp, ast.Dict)) or
                                      (isinstance(v, ast.BinOp) and isinstance(v.op, ast.Mult) and any(isinstance(z, ast.List) for z in (v.left, v.right))) or
                                      (isinstance(v, ast.Call) and ((dotted_name(v.func) or '').split('.')[-1] in ('zeros', 'ones', 'empty', 'full', 'list', 'copy', 'deepcopy', 'array')))
                                      for v in dfs)
            if fresh:
                continue
            raise AnalysisError(f'EconomicsAddOns.Calculate: element stores into the local `{s.key}` whose origin is not recognised (idiom changed)')
        n4 += 1
        series4.add(s.key)
        key = f'EconomicsAddOns.Calculate/{s.key}'
        where = f'{addon.module.rel}:{s.line}'
        own = f'{s.key}[{norm(s.index)}]'

        def atom_of(nd, _own=own):
            if isinstance(nd, ast.Subscript):
                return norm(nd)
            return None
        try:
            v = Translator(atom_of=atom_of).tr(s.value)
        except Unsupported as e:
            raise AnalysisError(str(e))
        rest = v - Rat.atom(own)
        ok = rest.d.is_const() and all(a.startswith('self.AddOn') for a in rest.n.atoms()) and own not in rest.atoms() and \
            all(sum(e for _, e in m) == 1 and c == 1 for m, c in rest.n.t.items())
        ctx.check(ok, 'H4', key, where,
                  f'`{norm(s.stmt)[:100]}`: the add-on module rewrites a base series as `{v.show(4)}` instead of adding its own total to '
                  f'the same element; an add-on with zero cost and zero gains then changes the result', fact=f'{own} + add-on total')
    ctx.floor('H4', len(series4), 2, 'base series the add-on module adds to (electricity and heat produced)')
    ctx.analysed['addon_stores_to_base_series'] = n4
    for st in ast.walk(addon.node):
        if isinstance(st, (ast.Assign, ast.AugAssign)):
            for t in (st.targets if isinstance(st, ast.Assign) else [st.target]):
                for e in (t.elts if isinstance(t, ast.Tuple) else [t]):
                    k = target_key(e) or ''
                    if k.startswith('model.') and k.endswith('.value'):
                        ctx.bad('H4', f'EconomicsAddOns.Calculate/overwrites:{k}', f'{addon.module.rel}:{st.lineno}',
                                f'`{norm(st)[:80]}` overwrites a base result wholesale')
    ctx.rule('H5', 'a supplied cost equal to its default is stored and counted as provided (C07 V9): otherwise the base run falls back to a correlation while the scaled runs use the input')
    ctx.rule('H6', 'each product\'s price model is built from that product\'s own inputs, in Economics and SBTEconomics (C16 B3)')
    ctx.rule('H7', 'sync functions decide on .Provided whether the user gave a value (shared S3)')
    from gxstat.runner import Renamed
    from rules.c07 import check_reader_arm
    from rules.c16 import check_b3
    from rules.rate_sync import check_sync_guards
    rp = ctx.repo.module('geophires_x/Parameter.py').functions.get('ReadParameter')
    ctx.require(rp is not None, 'Parameter.ReadParameter not found')
    n0 = len(ctx.obligations)
    check_reader_arm(Renamed(ctx, {'V9': 'H5'}), rp, 'floatParameter', 'float')
    ctx.floor('H5', len(ctx.obligations) - n0, 2, 'reader obligations')
    n0 = len(ctx.obligations)
    check_b3(Renamed(ctx, {'B3': 'H6'}, key_filter=lambda k: True), ctx.repo.method('Economics', 'Calculate', 'geophires_x/Economics.py'), 'Economics')
    check_b3(Renamed(ctx, {'B3': 'H6'}, key_filter=lambda k: True), ctx.repo.method('SBTEconomics', 'Calculate', 'geophires_x/SBTEconomics.py'), 'SBTEconomics')
    ctx.floor('H6', len(ctx.obligations) - n0, 6, 'price/credit model construction sites')
    n7 = check_sync_guards(ctx, 'H7')
    ctx.floor('H7', n7, 2, 'sync guards')
    ctx.rule('H8', 'the zero element of add-ons: the add-on economics object discounts with the rate the user stated (the rate sync runs on every '
                   'Economics-derived object that reads the rate), so an add-on that costs and earns nothing leaves the NPV where it was (shared S4)')
    from rules.rate_sync import check_rate_sync
    check_rate_sync(Renamed(ctx, {'K7': 'H8'}, key_filter=lambda k: 'runs-on-every-economics-object' in k), 'K7', only_functions={'sync_interest_rate'})
    ctx.undecided('strict monotonicity of NPV in sale prices (the ending-price cap makes it non-strict)',
                  'homogeneity of correlation-based component costs in the adjustment factors (not homogeneous by design)',
                  'paired-run equalities as runs')


def _zero(p: Poly, atom: str) -> Poly:
    return Poly({m: c for m, c in p.t.items() if not any(a == atom for a, _ in m)})
