"""C12 -- input-file layout is irrelevant.

L1 tokeniser facts of read_input_file, L2 order-insensitive uses of the input map, L3 base lines before override
lines in the client, L4 copy-then-append needs a line break."""
from __future__ import annotations

import ast
from typing import List, Set

from gxstat.flowutil import guards_of
from gxstat.srcmodel import AnalysisError, calls_in, dotted_name, enclosing_class, enclosing_function, norm, parent, walk_no_nested

COMMENT_PREFIXES = {'#', '--', '*'}
# functions allowed to depend on file order, with the reason
ORDER_SENSITIVE_ALLOW = {
    'EconomicsAddOns.read_parameters': 'documented exception: add-on list values are appended in file order',
}


def check_l1(ctx) -> None:
    f = ctx.repo.function('geophires_x/GeoPHIRESUtils.py', 'read_input_file')
    rel = f.module.rel
    # open(): text mode, universal newlines
    opens = [c for c in calls_in(f.node) if dotted_name(c.func) == 'open']
    ctx.require(len(opens) == 1, f'read_input_file: expected one open(), found {len(opens)}')
    o = opens[0]
    kws = {k.arg: norm(k.value) for k in o.keywords}
    mode = norm(o.args[1]) if len(o.args) > 1 else kws.get('mode', "'r'")
    ctx.check('b' not in mode and 'newline' not in kws, 'L1', 'read_input_file/text-mode-universal-newlines', f'{rel}:{o.lineno}',
              f'input file opened with mode {mode} / newline={kws.get("newline")}: CR/CRLF line endings are no longer normalised')
    loops = [n for n in walk_no_nested(f.node) if isinstance(n, ast.For) and norm(n.iter) == 'content']
    ctx.require(len(loops) == 1, 'read_input_file: loop over `content` not found')
    loop = loops[0]
    ctx.check(isinstance(loop.iter, ast.Name), 'L1', 'read_input_file/file-order-iteration', f'{rel}:{loop.lineno}',
              'lines are not processed in file order')
    content_defs = [st for st in ast.walk(f.node) if isinstance(st, ast.Assign) and norm(st.targets[0]) == 'content'
                    and not isinstance(st.value, ast.List)]
    ctx.require(len(content_defs) == 1, 'read_input_file: `content` is not assigned exactly once from the file (idiom changed)')
    cv = norm(content_defs[0].value)
    ALL_LINES = ('f.readlines()', 'list(f)', 'f.read().splitlines(keepends=True)', 'f.read().splitlines(True)', '[l for l in f]',
                 'f.read().splitlines()', "f.read().split('\\n')")          # the last two drop the terminators, which the parser strips anyway
    partial = any(isinstance(n, ast.Subscript) or (isinstance(n, (ast.ListComp, ast.GeneratorExp)) and any(g.ifs for g in n.generators))
                  or (isinstance(n, ast.Call) and isinstance(n.func, ast.Attribute) and n.func.attr in ('readline', 'islice', 'head'))
                  or (isinstance(n, ast.Call) and dotted_name(n.func) in ('filter', 'itertools.islice', 'set', 'sorted', 'reversed'))
                  for n in ast.walk(content_defs[0].value))
    if cv in ALL_LINES:
        ctx.ok('L1', 'read_input_file/content=readlines', f'{rel}:{content_defs[0].lineno}', f'content = {cv}')
    elif partial:
        ctx.bad('L1', 'read_input_file/content=readlines', f'{rel}:{content_defs[0].lineno}',
                f'content is `{cv[:80]}`: not the list of all lines of the file in file order (a slice, filter, reorder or single-line read)')
    else:
        raise AnalysisError(f'read_input_file: `content = {cv[:80]}` is not one of the known whole-file idioms {ALL_LINES[:4]} (cannot decide)')
    # ---- the per-line part is read on the canonical form of the function: `if T: continue` + rest == `if not T: rest`, so a guard-clause
    # loop and its nested-if rewrite look the same
    from gxstat.inline import canonical_function
    cf = canonical_function(f.node)
    cloops = [n for n in walk_no_nested(cf) if isinstance(n, ast.For) and norm(n.iter) == 'content']
    ctx.require(len(cloops) == 1, 'read_input_file: loop over `content` not found (canonical form)')
    loop = cloops[0]
    tv = norm(loop.target)

    def defs_of(name: str) -> List[ast.Assign]:
        return [s_ for s_ in ast.walk(loop) if isinstance(s_, ast.Assign) and len(s_.targets) == 1 and norm(s_.targets[0]) == name]

    # line = raw.strip(), first thing in the loop
    line_defs = [st for st in loop.body if isinstance(st, ast.Assign) and norm(st.value) == f'{tv}.strip()' and isinstance(st.targets[0], ast.Name)]
    ctx.check(len(line_defs) == 1 and line_defs[0] is loop.body[0], 'L1', 'read_input_file/line-stripped',
              f'{rel}:{loop.lineno}', 'the raw line is not stripped of surrounding whitespace / line ending before parsing')
    LINE = line_defs[0].targets[0].id if line_defs else 'line'
    # comment skip: the rest of the body runs under `not <line starts with a comment prefix>`
    skip = None
    from gxstat.inline import module_consts, substitute
    mconsts = module_consts(f.module.tree)
    for st in ast.walk(loop):
        if isinstance(st, ast.If):
            lits = {c.value for c in ast.walk(substitute(st.test, mconsts)) if isinstance(c, ast.Constant) and isinstance(c.value, str)}
            if lits & COMMENT_PREFIXES and f'{LINE}.startswith' in norm(st.test):
                skip = (st, lits)
                break
    ctx.require(skip is not None, 'read_input_file: comment-skip test not found')
    st, lits = skip
    negated = isinstance(st.test, ast.UnaryOp) and isinstance(st.test.op, ast.Not)
    # which branch carries the parsing: the one that contains the dictionary store
    stores = [s_ for s_ in ast.walk(loop) if isinstance(s_, ast.Assign) and isinstance(s_.targets[0], ast.Subscript)
              and norm(s_.targets[0].value) == f.args[0]]
    ctx.require(len(stores) == 1, f'read_input_file: expected one store into the dictionary, found {len(stores)}')
    s = stores[0]
    in_body = any(x is s for b_ in st.body for x in ast.walk(b_))
    in_else = any(x is s for b_ in st.orelse for x in ast.walk(b_))
    skipped_branch = st.orelse if in_body else st.body
    if lits == COMMENT_PREFIXES and not (((negated and in_body) or (not negated and in_else)) and
                                         all(isinstance(x, (ast.Expr, ast.Pass, ast.Continue)) for x in skipped_branch)):
        # the right prefixes, but the skip is not the if/else (or if: continue) shape this rule reads: not a violation, not decidable here
        raise AnalysisError('read_input_file: comment lines are tested for the documented prefixes, but the skip is not in the recognised '
                            'if/continue shape (rewritten): cannot decide')
    ctx.check(lits == COMMENT_PREFIXES and ((negated and in_body) or (not negated and in_else)) and
              all(isinstance(x, (ast.Expr, ast.Pass, ast.Continue)) for x in skipped_branch),
              'L1', 'read_input_file/comment-prefixes', f'{rel}:{st.lineno}',
              f'comment lines skipped for prefixes {sorted(lits)}; documented set is {sorted(COMMENT_PREFIXES)}',
              fact=f'skip if line startswith any of {sorted(lits)}')
    # fields
    el_defs = [s_ for s_ in ast.walk(loop) if isinstance(s_, ast.Assign) and norm(s_.value) == f"{LINE}.split(',')" and isinstance(s_.targets[0], ast.Name)]
    ctx.check(len(el_defs) == 1, 'L1', 'read_input_file/elements', f'{rel}:{el_defs[0].lineno if el_defs else loop.lineno}',
              f'the line is not split into fields exactly once by `{LINE}.split(\',\')`')
    EL = el_defs[0].targets[0].id if el_defs else 'elements'
    # the stored entry: ParameterEntry(<name>, <value>, ...) keyed by <name>
    from gxstat.inline import inline_sequential
    key_e = norm(inline_sequential(s.targets[0].slice, s, keep=(EL,)))
    ent = inline_sequential(s.value, s, keep=(EL,))
    ok_ent = isinstance(ent, ast.Call) and dotted_name(ent.func) == 'ParameterEntry' and len(ent.args) >= 2
    name_e = norm(ent.args[0]) if ok_ent else '?'
    val_e = norm(ent.args[1]) if ok_ent else '?'
    if ok_ent and (name_e.isidentifier() or val_e.isidentifier()):
        raise AnalysisError(f'read_input_file: the entry fields `{name_e}`, `{val_e}` could not be read back to the split line (idiom changed)')
    ctx.check(name_e == f'{EL}[0].strip()' and key_e == name_e, 'L1', 'read_input_file/description', f'{rel}:{s.lineno}',
              f'`description` is `{name_e}` (key `{key_e}`), expected `{EL}[0].strip()` (name/value whitespace, trailing comment after 2nd comma)')
    ctx.check(val_e == f'{EL}[1].strip()', 'L1', 'read_input_file/s_val', f'{rel}:{s.lineno}',
              f'`s_val` is `{val_e}`, expected `{EL}[1].strip()` (name/value whitespace, trailing comment after 2nd comma)')
    ctx.check(ok_ent, 'L1', 'read_input_file/entry-fields', f'{rel}:{s.lineno}', 'the stored entry is not built from (description, s_val, ...)')
    # store: keyed by the name, last occurrence wins; the only conditions on the way to it are "not a comment" and "at least two fields"
    enough = (f'len({EL}) >= 2', f'len({EL}) > 1', f'2 <= len({EL})', f'not len({EL}) < 2')
    extra = []
    from gxstat.inline import enclosing_stmt

    def gtxt(t) -> str:
        # a guard may test a named intermediate (`n = len(elements); if n < 2: continue`)
        return norm(inline_sequential(t, enclosing_stmt(t), keep=(EL, LINE)))
    for t, pol in guards_of(s, loop):
        txt = gtxt(t)
        if t is st.test:
            continue
        if (pol and txt in enough) or (not pol and txt == f'len({EL}) < 2'):
            continue
        extra.append(txt if pol else f'not ({txt})')
    ctx.check(not extra, 'L1', 'read_input_file/last-occurrence-wins', f'{rel}:{s.lineno}',
              f'the dictionary store is additionally guarded by {extra}: a repeated parameter no longer takes its last occurrence / data lines are dropped')
    # nothing else in the loop can drop a data line
    for x in ast.walk(loop):
        if isinstance(x, (ast.Continue, ast.Break)):
            g = [gtxt(t) for t, pol in guards_of(x, loop) if t is not st.test]
            ok = isinstance(x, ast.Continue) and (not g or all(t in (f'len({EL}) < 2',) for t in g)) and \
                (any(y is x for b_ in skipped_branch for y in ast.walk(b_)) or bool(g))
            ctx.check(ok, 'L1', f'read_input_file/skip:{(g[-1] if g else "unconditional")[:40]}', f'{rel}:{x.lineno}',
                      f'lines are additionally skipped when `{g[-1] if g else "always"}`')


def _loop_kind(loop: ast.AST) -> str:
    """'commutative' if the loop body only does keyed stores / flag sets / membership work, else what breaks it."""
    tv = {n.id for n in ast.walk(loop.target) if isinstance(n, ast.Name)}
    for x in ast.walk(loop):
        if isinstance(x, ast.Call) and isinstance(x.func, ast.Attribute) and x.func.attr in ('append', 'extend', 'insert'):
            return f'appends in iteration order: {norm(x)[:60]}'
        if isinstance(x, ast.AugAssign):
            return f'accumulates in iteration order: {norm(x)[:60]}'
        if isinstance(x, ast.Assign):
            t = x.targets[0]
            if isinstance(t, ast.Subscript):
                idx_names = {n.id for n in ast.walk(t.slice) if isinstance(n, ast.Name)}
                if not (idx_names & tv):
                    return f'store not keyed by the loop key: {norm(x)[:60]}'
            elif isinstance(t, (ast.Name, ast.Attribute)):
                val_names = {n.id for n in ast.walk(x.value) if isinstance(n, ast.Name)}
                if isinstance(t, ast.Attribute) and (val_names & tv) and not isinstance(parent(x), ast.If):
                    return f'last-iteration-wins store: {norm(x)[:60]}'
        if isinstance(x, ast.Break):
            # break after a keyed test is order-insensitive only if at most one key can match; accept `==` tests
            pass
    return 'commutative'


def check_l2(ctx) -> None:
    repo = ctx.repo
    n = 0
    for mi in repo.modules.values():
        if '/hip_ra/' in mi.rel and not ctx.thorough:
            continue
        for loop in [x for x in ast.walk(mi.tree) if isinstance(x, (ast.For, ast.comprehension))]:
            it = norm(loop.iter)
            if 'InputParameters' not in it:
                continue
            n += 1
            fn = enclosing_function(loop) if isinstance(loop, ast.For) else enclosing_function(loop.iter)
            cls = enclosing_class(loop if isinstance(loop, ast.For) else loop.iter)
            qual = (f'{cls.name}.' if cls is not None else '') + getattr(fn, 'name', '<module>')
            key = f'{qual}/iterates-input-map:{it}'
            where = f'{mi.rel}:{loop.iter.lineno}'
            kind = _loop_kind(loop) if isinstance(loop, ast.For) else 'commutative'
            if kind == 'commutative':
                ctx.ok('L2', key, where, 'keyed stores / membership only')
            elif qual in ORDER_SENSITIVE_ALLOW:
                ctx.ok('L2', key, where, ORDER_SENSITIVE_ALLOW[qual])
            else:
                ctx.bad('L2', key, where, f'iteration over the input map in file order {kind}: the result depends on the order of lines')
    ctx.floor('L2', n, 3, 'iterations over InputParameters')
    # reader loops walk the module's own dictionary (code order), never the input map
    m = 0
    for f in repo.all_functions():
        if f.name != 'read_parameters':
            continue
        for loop in [x for x in walk_no_nested(f.node) if isinstance(x, ast.For)]:
            if any(dotted_name(c.func) == 'ReadParameter' for c in calls_in(loop)):
                m += 1
                ctx.check(norm(loop.iter).startswith('self.ParameterDict'), 'L2', f'{f.qualname}/reader-iterates-own-dict',
                          f'{f.module.rel}:{loop.lineno}',
                          f'the reader loop iterates `{norm(loop.iter)}`: special-case code inside it then runs in file order')
    ctx.floor('L2', m, 11, 'reader loops')
    # special-case code that peeks at the *current value* of another parameter inside a reader loop depends on the
    # dictionary (code) order only; code that peeks at InputParameters uses membership/keyed lookup -> fine (counted above)


def check_l3(ctx) -> None:
    cls = ctx.repo.cls('GeophiresInputParameters')
    init = cls.methods['__init__']
    rel = init.module.rel
    # on the comprehension form (a list built by loop-append reads as the comprehension it is); what each writelines() writes is read
    # through the named intermediates: the base part comes from readlines() of the given file, the override part from self._params
    import dataclasses
    from gxstat.inline import enclosing_stmt, inline_sequential, loops_to_comprehensions
    init = dataclasses.replace(init, node=loops_to_comprehensions(init.node))
    wl = [(c, norm(inline_sequential(c.args[0], enclosing_stmt(c)))) for c in calls_in(init.node)
          if isinstance(c.func, ast.Attribute) and c.func.attr == 'writelines' and c.args]
    base = [c for c, v in wl if '.readlines()' in v or '.read()' in v or 'list(' in v and '_params' not in v]
    over = [c for c, v in wl if '_params' in v]
    over_txt = {id(c): v for c, v in wl}
    ctx.require(len(base) == 1 and len(over) == 1, 'GeophiresInputParameters.__init__: base/override writelines not found')
    ctx.check(base[0].lineno < over[0].lineno, 'L3', 'GeophiresInputParameters.__init__/base-before-overrides', f'{rel}:{over[0].lineno}',
              'override lines are written before the base-file lines: the base file would govern (last occurrence wins)')
    opens = [c for c in calls_in(init.node) if dotted_name(c.func) == 'open' and len(c.args) > 1 and norm(c.args[0]) == 'self._file_path']
    for o in opens:
        ctx.check(norm(o.args[1]) == "'a'", 'L3', 'GeophiresInputParameters.__init__/append-mode', f'{rel}:{o.lineno}',
                  f'combined file opened with mode {norm(o.args[1])}: one part overwrites the other')
    # each override is one `name, value` line
    gen_txt = over_txt[id(over[0])]
    # f-string spelling: f'{name!s}, {value!s}\n' per item
    fstr_ok = False
    try:
        ge = ast.parse(gen_txt, mode='eval').body
        if isinstance(ge, (ast.ListComp, ast.GeneratorExp)) and isinstance(ge.elt, ast.JoinedStr) and '.items()' in norm(ge.generators[0].iter):
            parts = ge.elt.values
            fstr_ok = len(parts) == 4 and isinstance(parts[0], ast.FormattedValue) and isinstance(parts[2], ast.FormattedValue) and \
                isinstance(parts[1], ast.Constant) and parts[1].value == ', ' and isinstance(parts[3], ast.Constant) and parts[3].value == '\n' and \
                all(p_.format_spec is None and p_.conversion in (-1, 115) for p_ in (parts[0], parts[2]))
    except SyntaxError:
        pass
    ctx.check(fstr_ok or "', '.join" in gen_txt and "+ '\\n'" in gen_txt and '.items()' in gen_txt, 'L3',
              'GeophiresInputParameters.__init__/override-line-format', f'{rel}:{over[0].lineno}',
              f'override lines are not written as `name, value\\n` per item: `{gen_txt[:80]}`')


def check_l4(ctx) -> None:
    """copy(base) then append(lines): a line break must be guaranteed in between."""
    repo = ctx.repo
    sites = []
    cls = repo.cls('GeophiresInputParameters')
    init = cls.methods['__init__']
    sites.append((init, 'GeophiresInputParameters.__init__', 'writelines(base_file.readlines())', '_params'))
    wp = repo.function('geophires_monte_carlo/MC_GeoPHIRES3.py', 'work_package')
    sites.append((wp, 'work_package', 'shutil.copyfile(args.Input_file, tmp_input_file)', 'input_file_entries'))
    for f, name, copy_txt, app_marker in sites:
        src = ' '.join(norm(st) for st in f.node.body)
        ctx.require(copy_txt.split('(')[0].split('.')[-1] in src, f'{name}: copy step not found')
        # accepted protections: writing '\n' first, checking endswith('\n'), or re-joining lines with '\n'
        prot = False
        for x in ast.walk(f.node):
            if isinstance(x, ast.Call) and isinstance(x.func, ast.Attribute) and x.func.attr == 'endswith' and x.args and \
                    isinstance(x.args[0], ast.Constant) and x.args[0].value == '\n':
                prot = True
            if isinstance(x, ast.Call) and isinstance(x.func, ast.Attribute) and x.func.attr == 'write' and x.args:
                a = x.args[0]
                if isinstance(a, ast.Constant) and a.value == '\n':
                    prot = True
                if isinstance(a, ast.BinOp) and isinstance(a.left, ast.Constant) and isinstance(a.left.value, str) and a.left.value.startswith('\n'):
                    prot = True
            if isinstance(x, ast.Call) and isinstance(x.func, ast.Attribute) and x.func.attr in ('splitlines', 'rstrip'):
                prot = True
        ctx.check(prot, 'L4', f'{name}/append-after-copy-needs-newline', f.where,
                  f'{name} copies the base input and then appends `name, value` lines without guaranteeing a line break in between: '
                  f'a base file whose last line has no trailing newline is merged with the first appended line')


def check_l5(ctx) -> None:
    """A result cache in front of the reader must not be *more* layout-insensitive than the reader itself."""
    from rules.c08 import check_key_injective
    f = ctx.repo.method('GeophiresXClient', 'get_geophires_result')
    key_defs = [st for st in ast.walk(f.node) if isinstance(st, ast.Assign) and norm(st.targets[0]) == 'cache_key']
    if not key_defs:
        ctx.ok('L5', 'GeophiresXClient.get_geophires_result/no-cache', f.where, 'no result cache')
        return
    before = len(ctx.obligations)
    check_key_injective(ctx, f, key_defs[0], 'L5')
    if len(ctx.obligations) == before:
        ctx.ok('L5', 'GeophiresXClient.get_geophires_result/cache-key-not-text-derived', f.where,
               'cache key does not read the text (content coverage is C08 P5)')


def check_l8(ctx) -> None:
    from gxstat.inline import inline_sequential
    rp = ctx.repo.module('geophires_x/Parameter.py').functions.get('ReadParameter')
    ctx.require(rp is not None, 'Parameter.ReadParameter not found')
    n = 0
    for st in ast.walk(rp.node):
        if not (isinstance(st, ast.Assign) and len(st.targets) == 1 and isinstance(st.targets[0], ast.Attribute) and st.targets[0].attr == 'value'):
            continue
        if not any(isinstance(g, ast.If) and 'listParameter' in norm(g.test) for g in _enclosing_ifs(st)):
            continue
        v = inline_sequential(st.value, st)
        if not isinstance(v, (ast.ListComp, ast.List)) and not (isinstance(v, ast.Call) and dotted_name(v.func) in ('list', 'map')):
            continue
        n += 1
        srcs = {x.attr for x in ast.walk(v) if isinstance(x, ast.Attribute) and x.attr in ('raw_entry', 'Comment', 'sValue')}
        comma = any(isinstance(x, ast.Call) and isinstance(x.func, ast.Attribute) and x.func.attr == 'split' and x.args and
                    isinstance(x.args[0], ast.Constant) and x.args[0].value == ',' for x in ast.walk(v))
        blank_split = [x for x in ast.walk(v) if isinstance(x, ast.Call) and isinstance(x.func, ast.Attribute) and x.func.attr == 'split' and not x.args]
        if 'raw_entry' not in srcs and 'Comment' not in srcs and not comma:
            raise AnalysisError('L8: the list arm of ReadParameter builds the list from neither raw_entry nor Comment: cannot decide')
        ok = 'raw_entry' in srcs and comma and 'Comment' not in srcs and not blank_split
        ctx.check(ok, 'L8', 'ReadParameter/list-entry-split-on-commas', f'{rp.module.rel}:{st.lineno}',
                  f'the list arm builds the values from `{norm(v)[:100]}`: '
                  f'{"the Comment field is the remaining comma fields glued together without separator, " if "Comment" in srcs else ""}'
                  f'{"split on blanks, " if blank_split else ""}so `Gradients,60,40,30` and `Gradients, 60, 40, 30` are read differently: '
                  f'whitespace after the commas changes the result', fact="raw_entry.split(',') with stripped elements")
    ctx.floor('L8', n, 1, 'whole-list stores in the list arm of ReadParameter')


def _enclosing_ifs(node):
    from gxstat.srcmodel import parent as _p
    cur = _p(node)
    while cur is not None:
        if isinstance(cur, ast.If):
            yield cur
        cur = _p(cur)


def check_l7(ctx) -> None:
    """The Monte-Carlo driver looks the base value of a `#` input up in the base input file with its own line matcher.  Like the
    simulator's reader it must look at the parameter-name field at the start of the line, not anywhere in the line (comments,
    descriptions and other parameters' values may mention the name)."""
    repo = ctx.repo
    if not repo.has_module('geophires_monte_carlo/MC_GeoPHIRES3.py'):
        return
    f = repo.function('geophires_monte_carlo/MC_GeoPHIRES3.py', 'check_and_replace_mean')
    rel = f.module.rel
    # the variable's name is the first field of the settings entry (`<entry>[0]`), whatever the local that holds it is called
    p0 = f.args[0] if f.args else 'input_value'
    name_locals = {st.targets[0].id for st in ast.walk(f.node) if isinstance(st, ast.Assign) and len(st.targets) == 1 and isinstance(st.targets[0], ast.Name)
                   and norm(st.value) == f'{p0}[0]'}
    tests = [n for n in ast.walk(f.node) if isinstance(n, ast.If) and
             (any(isinstance(x, ast.Name) and x.id in name_locals for x in ast.walk(n.test)) or f'{p0}[0]' in norm(n.test))]
    if not tests:
        # the look-up may sit in a helper the name is handed to
        for c in calls_in(f.node):
            g = f.module.functions.get(dotted_name(c.func) or '')
            if g is None:
                continue
            for i_, a_ in enumerate(c.args):
                if (isinstance(a_, ast.Name) and a_.id in name_locals) or norm(a_) == f'{p0}[0]':
                    if i_ < len(g.args):
                        pn = g.args[i_]
                        tests += [n for n in ast.walk(g.node) if isinstance(n, ast.If) and any(isinstance(x, ast.Name) and x.id == pn for x in ast.walk(n.test))]
    ctx.require(len(tests) == 1, 'check_and_replace_mean: the line matcher on the variable name was not found (idiom changed)')
    t = tests[0].test
    txt = norm(t)
    anchored = (isinstance(t, ast.Call) and isinstance(t.func, ast.Attribute) and t.func.attr == 'startswith') or \
        (isinstance(t, ast.Compare) and len(t.ops) == 1 and isinstance(t.ops[0], ast.Eq) and 'split' in txt and '[0]' in txt)
    anywhere = isinstance(t, ast.Compare) and len(t.ops) == 1 and isinstance(t.ops[0], ast.In) or '.find(' in txt or 're.search' in txt
    if anchored:
        ctx.ok('L7', 'check_and_replace_mean/name-matched-at-line-start', f'{rel}:{tests[0].lineno}', txt)
    elif anywhere:
        ctx.bad('L7', 'check_and_replace_mean/name-matched-at-line-start', f'{rel}:{tests[0].lineno}',
                f'`{txt}` matches the parameter name anywhere in a line: a comment or description that mentions the name ahead of the real '
                f'entry supplies the mean of the distribution, so the Monte-Carlo result depends on comment lines of the base file')
    else:
        raise AnalysisError(f'check_and_replace_mean: matcher `{txt[:60]}` not recognised (cannot decide)')


def run(ctx) -> None:
    ctx.rule('L5', 'the client cache key distinguishes every pair of input texts the reader can distinguish (text hashed unmodified)')
    ctx.rule('L1', 'read_input_file: text mode with universal newlines, stripped lines, comment prefixes exactly {#, --, *}, '
                   'name/value stripped, value = 2nd comma field, unconditional keyed store in file order (last wins)')
    ctx.rule('L2', 'every iteration over the input map is commutative (keyed stores only) except the one documented add-on '
                   'exception; reader loops iterate the module\'s own dictionary')
    ctx.rule('L3', 'the client writes base-file lines before override lines, both appending')
    ctx.rule('L4', 'copy-then-append of input lines guarantees a line break between the two parts')
    check_l1(ctx)
    check_l2(ctx)
    check_l3(ctx)
    check_l4(ctx)
    check_l5(ctx)
    ctx.rule('L8', 'a multi-value (list) entry is parsed from the verbatim line split on commas with each element stripped: blanks after the '
                   'commas are irrelevant (the pre-split Comment field has the commas removed and cannot be re-tokenised)')
    check_l8(ctx)
    ctx.rule('L7', 'the Monte-Carlo driver matches the name of a `#` input at the start of a base-file line')
    check_l7(ctx)
    ctx.undecided('nothing numeric is involved; encodings other than UTF-8 are outside the property')
