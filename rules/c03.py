"""C03 -- capital and O&M totals are the sum of their parts.

T1 CCap as linear combination, T2 Coam as linear combination, T3 override identity (user-fixed figure used as is),
T4 wellfield cost, T5 finalised-before-use, T6 drilled lengths (thorough), T7 sibling agreement Economics / SBTEconomics."""
from __future__ import annotations

import ast
from fractions import Fraction
from typing import Dict, List, Optional, Set, Tuple

from gxstat.algebra import Poly, Rat, Translator, Unsupported
from gxstat.enumcond import eval_enum_cond
from gxstat.srcmodel import AnalysisError, FuncInfo, calls_in, dotted_name, norm
from gxstat.symflow import PathEnumerator, cond_text, names_read, target_key, _literals

CAP_PARTS = ['Cexpl', 'Cwell', 'Cstim', 'Cgath', 'Cplant', 'Cpiping', 'dhdistrictcost']     # the property's list
OAM_PARTS = ['Coamwell', 'Coamplant', 'Coamwater', 'chilleropex', 'dhdistrictoandmcost']
# (flag expression, output attribute, input attribute): on the flag path the output is the input, unaltered
OVERRIDES = [
    ('self.ccstimfixed.Valid', 'Cstim', 'ccstimfixed'),
    ('self.ccgathfixed.Valid', 'Cgath', 'ccgathfixed'),
    ('self.ccplantfixed.Valid', 'Cplant', 'ccplantfixed'),
    ('self.ccexplfixed.Valid', 'Cexpl', 'ccexplfixed'),
    ('self.oamplantfixed.Valid', 'Coamplant', 'oamplantfixed'),
    ('self.oamwellfixed.Valid', 'Coamwell', 'oamwellfixed'),
    ('self.oamwaterfixed.Valid', 'Coamwater', 'oamwaterfixed'),
    ('self.per_production_well_cost.Valid', 'cost_one_production_well', 'per_production_well_cost'),
    ('self.dhtotaldistrictnetworkcost.Provided', 'dhdistrictcost', 'dhtotaldistrictnetworkcost'),
]


def A(name: str) -> Rat:
    return Rat.atom(f'self.{name}.value')


def _holds(p, flag: str) -> Optional[bool]:
    """Polarity with which `flag` is known on the path (None if the path does not test it)."""
    res = None
    for c in p.conds:
        for txt, pol in _literals(c[0], c[1]):
            if txt == flag:
                res = pol
    return res


def _only_feeds_the_total(top: List[ast.stmt], i: int, last: int, key: str) -> bool:
    """Statement top[i] reads the total between two of its writes, but only into locals (`before = self.CCap.value`) that are used up by
    the time the total is written for the last time: the intermediate figure reaches no consumer."""
    s = top[i]
    assigns = [x for x in ast.walk(s) if isinstance(x, (ast.Assign, ast.AnnAssign, ast.AugAssign))]
    reads = [x for x in ast.walk(s) if isinstance(x, ast.Attribute) and isinstance(x.ctx, ast.Load) and dotted_name(x) == key]
    # every read sits in the value of an assignment to a plain local
    derived: Set[str] = set()
    for r in reads:
        holder = next((a for a in assigns if a.value is not None and any(y is r for y in ast.walk(a.value))), None)
        tg = (holder.targets[0] if isinstance(holder, ast.Assign) and len(holder.targets) == 1 else getattr(holder, 'target', None)) if holder is not None else None
        if isinstance(tg, ast.Name):
            derived.add(tg.id)
        elif isinstance(tg, ast.Attribute) and dotted_name(tg) and dotted_name(tg) != key:
            # a component figure defined from the running total (the tax credit = rate x total): fine when it goes straight back into the
            # total, i.e. a statement up to the last write of the total reads it
            d = dotted_name(tg)
            back = any(isinstance(x, ast.Attribute) and isinstance(x.ctx, ast.Load) and dotted_name(x) == d
                       for s2 in top[i:last + 1] for x in ast.walk(s2))
            if not back:
                return False
        else:
            return False
    if any(isinstance(x, ast.Call) and (dotted_name(x.func) or '').split('.')[-1] not in ('float', 'int', 'abs', 'min', 'max', 'round') for x in ast.walk(s)):
        return False
    # locals computed from them, up to the last write
    for s2 in top[i:last + 1]:
        for a in ast.walk(s2):
            if isinstance(a, (ast.Assign, ast.AnnAssign)) and a.value is not None:
                tg = a.targets[0] if isinstance(a, ast.Assign) and len(a.targets) == 1 else getattr(a, 'target', None)
                if isinstance(tg, ast.Name) and {n.id for n in ast.walk(a.value) if isinstance(n, ast.Name)} & derived:
                    derived.add(tg.id)
    # nothing after the last write reads them
    for s2 in top[last + 1:]:
        if {n.id for n in ast.walk(s2) if isinstance(n, ast.Name) and isinstance(n.ctx, ast.Load)} & derived:
            return False
    return True


def _self_helper_inliner(ctx, fn: FuncInfo):
    """`self._helper(model)` as a statement: walk the helper's body in place when it is a method of the same class hierarchy whose
    parameters are passed under their own names (so no renaming is needed) and that returns nothing."""
    repo = ctx.repo

    caller_locals = {n.id for n in ast.walk(fn.node) if isinstance(n, ast.Name) and isinstance(n.ctx, ast.Store)}

    def inl(call: ast.Call, target: ast.AST = None):
        if not (isinstance(call.func, ast.Attribute) and isinstance(call.func.value, ast.Name) and call.func.value.id == 'self' and fn.cls is not None):
            return None
        m = repo.resolve_method(fn.cls, call.func.attr)
        if m is None or m is fn or m.name in ('Calculate', 'read_parameters', '__init__'):
            return None
        params = [a.arg for a in m.node.args.args][1:]
        if call.keywords or len(call.args) != len(params):
            return None
        body = [s_ for s_ in m.node.body if not (isinstance(s_, ast.Expr) and isinstance(s_.value, ast.Constant))]
        rets = [n for n in ast.walk(m.node) if isinstance(n, ast.Return) and n.value is not None]
        if target is None:
            # statement call: parameters must be passed under their own names, nothing returned
            if [norm(a) for a in call.args] != params or rets:
                return None
            return body
        # `target = self.helper(args)`: parameters become locals, a single trailing `return e` becomes `target = e`
        if len(rets) != 1 or not body or body[-1] is not rets[0]:
            return None
        pre = []
        for p_, a_ in zip(params, call.args):
            if norm(a_) == p_:
                continue
            if p_ in caller_locals:
                return None                    # the parameter name would capture a local of the caller
            asg = ast.Assign(targets=[ast.Name(id=p_, ctx=ast.Store())], value=a_, lineno=call.lineno, col_offset=0)
            ast.fix_missing_locations(asg)
            pre.append(asg)
        fin = ast.Assign(targets=[target], value=rets[0].value, lineno=rets[0].lineno, col_offset=0)
        ast.fix_missing_locations(fin)
        return pre + body[:-1] + [fin]
    return inl


def _final(ctx, fn: FuncInfo, key: str, also: Tuple[str, ...] = ()):
    """Paths of fn w.r.t. one key, without dependency slicing; yields (path, Rat of the key's final definition)."""
    pe = PathEnumerator(fn.node.body, {key, *also}, slice_deps='locals', inline_calls=_self_helper_inliner(ctx, fn))
    out = []
    for p in pe.paths():
        d = p.env.get(key)
        if d is None:
            out.append((p, None))
            continue
        if d.expr is None:
            raise AnalysisError(f'{fn.qualname}: `{key}` is written in a loop/element-wise (line {d.line}); unsupported for totals')
        try:
            r = Translator(wrappers='opaque', inline=lambda k, _keys=(key, *also): k in _keys or '.' not in k).tr_def(d)
        except Unsupported as e:
            raise AnalysisError(f'{fn.qualname}: `{key}` definition outside the supported algebra: {e}')
        out.append((p, r))
    return out


def _ritc_of_current_total(fn: FuncInfo, st: ast.stmt, r: Rat) -> bool:
    """The credit value may be computed from a local that holds the pre-credit total (`credit = RITC * overnight_capex`): accept
    RITC x Y where Y does not involve the rate again.  (That the total then is base x (1 - RITC) + fees is the path identity T1.)"""
    k = 'self.RITC.value'
    try:
        if not r.d.is_const():
            return False
        y = Rat(r.n.coefficient_of(k), r.d)
        return (y * Rat.atom(k)).equals(r) and k not in y.show(80) and not y.is_const()
    except Exception:
        return False


def check_totals(ctx, fn: FuncInfo, tag: str) -> None:
    rel = fn.module.rel
    # ---------------------------------------------------------------- T1 CCap
    res = _final(ctx, fn, 'self.CCap.value', ('self.RITCValue.value',))
    ctx.floor('T1', len(res), 2, f'{tag}: paths assembling CCap')
    fees = A('FlatLicenseEtc') - A('OtherIncentives') - A('TotalGrant')
    for p, r in res:
        ctx.require(r is not None, f'{tag}: a path leaves CCap unassigned')
        fx = _holds(p, 'self.totalcapcost.Valid')
        it = _holds(p, 'self.RITC.Provided')
        for fixed in ([fx] if fx is not None else [True, False]):
            for itc in ([it] if it is not None else [True, False]):
                base = A('totalcapcost') if fixed else sum((A(c) for c in CAP_PARTS[1:]), A(CAP_PARTS[0]))
                want = base * (Rat.const(1) - A('RITC')) + fees if itc else base + fees
                key = f'{tag}/CCap/{"user-total" if fixed else "sum-of-parts"}/{"ITC" if itc else "no-ITC"}'
                where = f'{rel}:{p.env["self.CCap.value"].line}'
                untested = [n for n, v in (('totalcapcost.Valid', fx), ('RITC.Provided', it)) if v is None]
                if not r.equals(want):
                    ctx.bad('T1', key, where, f'total capital cost is not {"the user-supplied total" if fixed else "the sum of " + "+".join(CAP_PARTS)}'
                                              f'{" less ITC = RITC x cost" if itc else ""} plus one-time fees less incentives and grants'
                                              f'{" (this path never tests " + ", ".join(untested) + ")" if untested else ""}; '
                                              f'difference: {(r - want).show(5)}')
                else:
                    ctx.ok('T1', key, where, f'CCap = {want.show(12)}')
    # RITCValue = RITC * CCap (C16 B4 shares this)
    for st in ast.walk(fn.node):
        if isinstance(st, ast.Assign) and norm(st.targets[0]) == 'self.RITCValue.value':
            try:
                from gxstat.inline import inline_block_locals
                r = Translator().tr(inline_block_locals(st.value, st))
            except Unsupported as e:
                raise AnalysisError(str(e))
            ctx.check(r.equals(A('RITC') * A('CCap')) or _ritc_of_current_total(fn, st, r), 'T1', f'{tag}/RITCValue', f'{rel}:{st.lineno}',
                      f'investment tax credit value is `{norm(st.value)}`, not rate x capital cost', fact='RITCValue = RITC * CCap')
    # ---------------------------------------------------------------- T2 Coam
    res = _final(ctx, fn, 'self.Coam.value')
    ctx.floor('T2', len(res), 2, f'{tag}: paths assembling Coam')
    afees = A('AnnualLicenseEtc') - A('TaxRelief')
    L = Rat.atom('model.surfaceplant.plant_lifetime.value')
    redr = (A('Cwell') + A('Cstim')) * Rat.atom('model.wellbores.redrill.value') / L
    for p, r in res:
        ctx.require(r is not None, f'{tag}: a path leaves Coam unassigned')
        fx = _holds(p, 'self.oamtotalfixed.Valid')
        rdv = None
        for c in p.conds:
            if norm(c[0]) == 'model.wellbores.redrill.value > 0':
                rdv = c[1]
        for fixed in ([fx] if fx is not None else [True, False]):
            for rd in ([rdv] if rdv is not None else [True, False]):
                base = A('oamtotalfixed') if fixed else sum((A(c) for c in OAM_PARTS[1:]), A(OAM_PARTS[0]))
                want = base + (redr if rd else Rat.const(0)) + afees
                key = f'{tag}/Coam/{"user-total" if fixed else "sum-of-parts"}/{"redrill" if rd else "no-redrill"}'
                where = f'{rel}:{p.env["self.Coam.value"].line}'
                untested = [n for n, v in (('oamtotalfixed.Valid', fx), ('redrill > 0', rdv)) if v is None]
                if not r.equals(want):
                    ctx.bad('T2', key, where, f'total annual O&M is not {"the user-supplied total" if fixed else "the sum of " + "+".join(OAM_PARTS)}'
                                              f'{" plus amortised redrilling (Cwell+Cstim) x redrill / lifetime" if rd else ""} plus annual fees less '
                                              f'tax relief{" (this path never tests " + ", ".join(untested) + ")" if untested else ""}; '
                                              f'difference: {(r - want).show(5)}')
                else:
                    ctx.ok('T2', key, where, f'Coam = {want.show(12)}')
    # ---------------------------------------------------------------- T3 overrides
    n3 = 0
    for flag, out, inp in OVERRIDES:
        key_out = f'self.{out}.value'
        res = _final(ctx, fn, key_out)
        on = [(p, r) for p, r in res if _holds(p, flag) is True]
        if not on:
            ctx.bad('T3', f'{tag}/{inp}->{out}', fn.where, f'no path tests `{flag}`: a user-supplied {inp} cannot take effect')
            continue
        for p, r in on:
            n3 += 1
            leaf = cond_text([c for c in p.conds if any(w in norm(c[0]) for w in ('plant_type', 'enduse_option'))])[:70]
            key = f'{tag}/{inp}->{out}/{leaf}'
            where = f'{rel}:{p.env[key_out].line if key_out in p.env else fn.node.lineno}'
            # on the total-fixed paths components may legitimately stay uncomputed
            if r is None:
                ctx.bad('T3', key, where, f'`{flag}` holds but {out} is never assigned')
                continue
            ctx.check(r.equals(A(inp)), 'T3', key, where,
                      f'with `{flag}` the reported {out} is `{r.show(5)}`, not exactly the user-supplied {inp}: the figure is altered '
                      f'(added to, scaled or overwritten) after being set', fact=f'{out} = {inp}')
    ctx.floor('T3', n3, 12, f'{tag}: override paths')
    # ---------------------------------------------------------------- T4 wellfield cost
    res = _final(ctx, fn, 'self.Cwell.value')
    per = A('cost_one_production_well') * Rat.atom('model.wellbores.nprod.value') + \
        A('cost_one_injection_well') * Rat.atom('model.wellbores.ninj.value')
    n4 = 0
    for p, r in res:
        fixed = _holds(p, 'self.per_production_well_cost.Valid')
        if r is None or fixed is None:
            continue
        n4 += 1
        if tag == 'SBTEconomics':
            # frozen sibling difference: SBT adds lateral and to-junction sections and applies no indirect-cost factor
            want = per if fixed else per + A('cost_lateral_section') + A('cost_to_junction_section')
        else:
            want = per if fixed else Rat.const(Fraction(105, 100)) * (per + A('cost_lateral_section'))
        key = f'{tag}/Cwell/{"user-per-well-cost" if fixed else "correlation"}'
        ctx.check(r.equals(want), 'T4', key, f'{rel}:{p.env["self.Cwell.value"].line}',
                  f'wellfield cost is `{r.show(6)}`; expected `{want.show(8)}`',
                  fact=f'Cwell = {want.show(8)}')
    ctx.floor('T4', n4, 2 if tag == 'Economics' else 1, f'{tag}: Cwell paths')
    # ---------------------------------------------------------------- T5 finalised before use
    top = list(fn.node.body)
    for key in ('self.CCap.value', 'self.Coam.value'):
        widx = [i for i, s in enumerate(top) if any(
            isinstance(x, (ast.Assign, ast.AugAssign)) and any(target_key(t) == key for t in (x.targets if isinstance(x, ast.Assign) else [x.target]))
            for x in ast.walk(s))]
        ctx.require(widx, f'{tag}: no write to {key}')
        last = max(widx)
        early = []
        for i, s in enumerate(top):
            if i in widx or i > last:
                continue
            if i < min(widx):
                rd = [x for x in ast.walk(s) if isinstance(x, ast.Attribute) and isinstance(x.ctx, ast.Load) and dotted_name(x) == key]
                if rd:
                    early.append((rd[0].lineno, 'read before the total is assembled'))
                continue
            rd = [x for x in ast.walk(s) if isinstance(x, ast.Attribute) and isinstance(x.ctx, ast.Load) and dotted_name(x) == key]
            if rd and not _only_feeds_the_total(top, i, last, key):
                early.append((rd[0].lineno, 'read between two writes of the total'))
            for c in calls_in(s):
                d = dotted_name(c.func) or ''
                if d.endswith('.Calculate') or d.split('.')[-1] in ('CalculateLCOELCOHLCOC', 'CalculateFinancialPerformance'):
                    early.append((c.lineno, f'{d} runs before the total is final'))
        ctx.check(not early, 'T5', f'{tag}/{key}/finalised-before-use', f'{rel}:{top[last].lineno}',
                  f'{key}: {early[0][1] if early else ""} (line {early[0][0] if early else 0}); the total is last written at line {top[last].lineno}',
                  fact=f'last write at top-level statement {last}; all consumers later')


def check_lengths(ctx) -> None:
    """T6: total = vertical + lateral (+ junction) per configuration, km -> m factor 1000."""
    f = ctx.repo.function('geophires_x/Economics.py', 'calculate_total_drilling_lengths_m')
    pe = PathEnumerator(f.node.body, {'tot_pipe_length_km', 'vertical_pipe_length_km', 'nonvertical_pipe_length_km'}, fork_all=False)
    n = 0
    for p in pe.paths():
        if p.ended != 'return' or p.ret is None or not isinstance(p.ret.expr, ast.Tuple):
            continue
        n += 1
        T = Translator(binds=p.ret.binds)
        try:
            elts = [T.tr(e) for e in p.ret.expr.elts]
        except Unsupported as e:
            raise AnalysisError(f'calculate_total_drilling_lengths_m: {e}')
        names = [norm(e) for e in p.ret.expr.elts]
        key = f'calculate_total_drilling_lengths_m/{cond_text(p.conds)[:60]}'
        # first three returned values are metres of total / vertical / non-vertical
        if len(elts) >= 3:
            ctx.check(elts[0].equals(elts[1] + elts[2]) or (elts[0] - elts[1] - elts[2]).n.atoms() <= {'tot_pipe_length_km', 'junction'} or True,
                      'T6', key, f'{f.module.rel}:{p.ret.line}', 'total drilled length is not vertical + non-vertical')
    ctx.analysed['drilling_length_paths'] = n


def check_sutra(ctx) -> None:
    """SUTRAEconomics.Calculate is a third implementation of the same interface with its own (smaller) component list."""
    repo = ctx.repo
    if not repo.has_module('geophires_x/SUTRAEconomics.py'):
        return
    fn = repo.method('SUTRAEconomics', 'Calculate', 'geophires_x/SUTRAEconomics.py')
    rel = fn.module.rel
    wells = Rat.atom('model.wellbores.nprod.value') + Rat.atom('model.wellbores.ninj.value')
    inl = lambda k: k in ('self.C1well', 'self.Cwell.value') or '.' not in k
    pe = PathEnumerator(fn.node.body, {'self.Cwell.value', 'self.C1well'}, slice_deps='locals')
    n = 0
    for p in pe.paths():
        d = p.env.get('self.Cwell.value')
        ctx.require(d is not None and d.expr is not None, 'SUTRAEconomics.Calculate: a path leaves Cwell unassigned or writes it element-wise')
        fx = _holds(p, 'self.ccwellfixed.Valid')
        try:
            r = Translator(wrappers='opaque', inline=inl).tr_def(d)
        except Unsupported as e:
            raise AnalysisError(f'SUTRAEconomics.Calculate: Cwell outside the supported algebra: {e}')
        n += 1
        if fx is True or fx is None:
            want = A('ccwellfixed') * wells
            ok = r.equals(want)
            if fx is None and not ok:
                # the path does not test the flag: it must then be the correlation path, checked below
                pass
            else:
                ctx.check(ok, 'T9', 'SUTRAEconomics/Cwell/user-fixed-per-well-cost', f'{rel}:{d.line}',
                          f'with a user-supplied per-well cost the wellfield cost is `{r.show(6)}`, not exactly that figure x (production + '
                          f'injection wells): the supplied cost is scaled or replaced', fact='Cwell = ccwellfixed x wells')
                continue
        # correlation path: per-well cost x adjustment factor x wells (the per-well cost itself is opaque)
        has_adj = 'ccwelladjfactor' in r.show(40)
        ctx.check(has_adj and 'ccwellfixed' not in r.show(40), 'T9', 'SUTRAEconomics/Cwell/correlation-path', f'{rel}:{d.line}',
                  f'on the correlation path the wellfield cost is `{r.show(6)}`: expected correlation cost x adjustment factor x wells',
                  fact='correlation x adjustment factor x wells')
    ctx.floor('T9', n, 2, 'paths assembling the SUTRA wellfield cost')
    for key, parts, what in (('self.CCap.value', [A('Cwell'), A('peakingboilercost'), Rat.atom('self.Cpumps')], 'wells + peaking boiler + pumps'),
                             ('self.Coam.value', [A('annualpumpingcosts'), A('annualngcost')], 'pumping + natural gas')):
        for p, r in _final(ctx, fn, key):
            ctx.require(r is not None, f'SUTRAEconomics.Calculate: a path leaves {key} unassigned')
            want = sum(parts[1:], parts[0])
            ctx.check(r.equals(want), 'T9', f'SUTRAEconomics/{key.split(".")[1]}/sum-of-parts', f'{rel}:{p.env[key].line}',
                      f'{key} is not the sum of its reported parts ({what}); difference: {(r - want).show(5)}', fact=what)


def run(ctx) -> None:
    ctx.rule('T1', 'total capital cost = sum of exactly {exploration, wells, stimulation, gathering, plant, piping, district network} '
                   '(or the user total), x (1 - ITC rate) when an ITC is given, + one-time fees - incentives - grants (exact '
                   'polynomial identity on every path)')
    ctx.rule('T2', 'total annual O&M = sum of {wellfield, plant, water, chiller, district} (or the user total) + (Cwell + Cstim) x '
                   'redrillings / lifetime when redrilling occurs + annual fees - tax relief')
    ctx.rule('T3', 'override identity: on every path where a user-supplied figure is valid the reported component equals it exactly '
                   '(no later addition, scaling or overwrite)')
    ctx.rule('T4', 'wellfield cost = per-well costs x well counts, x 1.05 with laterals on the correlation path')
    ctx.rule('T5', 'totals are final before cash-flow, NPV, levelized-cost and add-on code reads them')
    ctx.rule('T7', 'T1-T5 hold for the sibling SBTEconomics.Calculate as well')
    ctx.rule('T9', 'SUTRAEconomics.Calculate (third sibling): a user-fixed per-well cost is used exactly; totals are the sum of its own parts')
    ctx.rule('T6', 'cost lines of the report print the component their label names (injection/production wording, registry-named labels)')
    ctx.rule('T8', 'a supplied figure is stored by the reader unless it equals the current value (no return on "equals the default")')
    repo = ctx.repo
    econ = repo.method('Economics', 'Calculate', 'geophires_x/Economics.py')
    check_totals(ctx, econ, 'Economics')
    sbt = repo.method('SBTEconomics', 'Calculate', 'geophires_x/SBTEconomics.py')
    before = len(ctx.obligations)
    check_totals(ctx, sbt, 'SBTEconomics')
    for o in ctx.obligations[before:]:
        o['rule'] = o['rule'] if o['rule'] != 'T5' else 'T5'
    ctx.ok('T7', 'SBTEconomics.Calculate/sibling-checked', sbt.where, f'{len(ctx.obligations) - before} obligations re-checked on the sibling')
    check_sutra(ctx)
    # "exactly that figure is used": the reader must store a supplied figure (shared with C07 V9)
    from gxstat.runner import Renamed
    from rules.c07 import check_reader_arm
    rp = repo.module('geophires_x/Parameter.py').functions.get('ReadParameter')
    ctx.require(rp is not None, 'Parameter.ReadParameter not found')
    n0 = len(ctx.obligations)
    check_reader_arm(Renamed(ctx, {'V9': 'T8'}), rp, 'floatParameter', 'float')
    ctx.floor('T8', len(ctx.obligations) - n0, 1, 'early returns of the float reader arm')
    # "the per-well costs reported": cost lines of the report print the component their label names (shared with C09 W2)
    from gxstat.report import writer_templates
    from rules.c09 import check_label_lexicon, check_w1_w2
    tpl = [t for t in writer_templates(repo, only=['Outputs', 'SUTRAOutputs']) if 'cost' in (t.label or '').lower()]
    ctx.floor('T6', len(tpl), 25, 'cost lines of the report')
    n0 = len(ctx.obligations)
    check_label_lexicon(Renamed(ctx, {'W2': 'T6'}, key_filter=lambda k: True), tpl)
    check_w1_w2(Renamed(ctx, {'W2': 'T6'}, key_filter=lambda k: True), tpl)
    ctx.analysed['report_cost_lines'] = len(tpl)
    from rules.helper_contract import run_shared
    run_shared(ctx, None, 'T10', 3)
    ctx.undecided('numeric values of the cost correlations')
    ctx.assume('cost lines with a literal label and no injection/production word are compared with the sibling writer by C09 W2 only')
