"""C15 -- pumping power and modelled pressures stay physical.

Z1 non-negativity of every pumping-power value handed back by the four hydraulic functions and stored by
WellBores.Calculate (sign typestate), Z2 total = injection + production pumping power, Z3 reservoir pressure
predictors (start value, slope sign/rate, floor, coverage), Z4 diameter heuristic (= U4)."""
from __future__ import annotations

import ast
from fractions import Fraction
from typing import Dict, List, Optional, Set, Tuple

from gxstat.algebra import Rat, Translator, Unsupported
from gxstat.flowutil import guards_of
from gxstat.loops import loop_stores
from gxstat.srcmodel import AnalysisError, FuncInfo, calls_in, dotted_name, norm, parent
from gxstat.symflow import Def, PathEnumerator, cond_text
from rules.u4 import check_heuristics

WB = 'geophires_x/WellBores.py'
# function -> positions of its returned tuple that are pumping powers
PUMP_POS = {
    'ProdPressureDropsAndPumpingPowerUsingImpedenceModel': [1],
    'InjPressureDropsAndPumpingPowerUsingImpedenceModel': [1],
    'ProdPressureDropAndPumpingPowerUsingIndexes': [0, 1],
    'InjPressureDropAndPumpingPowerUsingIndexes': [0],
}


def _is_zero_const(n: ast.AST) -> bool:
    return isinstance(n, ast.Constant) and isinstance(n.value, (int, float)) and n.value == 0


def nonneg(expr: ast.AST, binds: Dict[str, Def], summary: Dict[str, List[int]] = None, seen=None) -> bool:
    """Sign typestate: is the expression element-wise >= 0 by construction?"""
    seen = seen if seen is not None else set()
    summary = summary or {}
    if isinstance(expr, ast.Constant):
        return isinstance(expr.value, (int, float)) and expr.value >= 0
    if isinstance(expr, (ast.List, ast.Tuple)):
        return all(nonneg(e, binds, summary, seen) for e in expr.elts)
    if isinstance(expr, ast.BinOp):
        if isinstance(expr.op, ast.Add):
            return nonneg(expr.left, binds, summary, seen) and nonneg(expr.right, binds, summary, seen)
        if isinstance(expr.op, ast.Mult):
            # [0.0] * n
            return (isinstance(expr.left, ast.List) and nonneg(expr.left, binds, summary, seen)) or \
                   (isinstance(expr.right, ast.List) and nonneg(expr.right, binds, summary, seen))
        return False
    if isinstance(expr, ast.ListComp) and len(expr.generators) == 1 and isinstance(expr.generators[0].target, ast.Name):
        x = expr.generators[0].target.id
        e = expr.elt
        # 0 if x < 0 else x   |   x if x > 0 else 0   |  max(x, 0)
        if isinstance(e, ast.IfExp):
            t = norm(e.test)
            if _is_zero_const(e.body) and norm(e.orelse) == x and t in (f'{x} < 0.0', f'{x} < 0', f'{x} <= 0.0', f'{x} <= 0', f'0.0 > {x}', f'0 > {x}'):
                return True
            if _is_zero_const(e.orelse) and norm(e.body) == x and t in (f'{x} > 0.0', f'{x} > 0', f'{x} >= 0.0', f'{x} >= 0'):
                return True
        if isinstance(e, ast.Call) and dotted_name(e.func) == 'max' and len(e.args) == 2:
            a = [norm(y) for y in e.args]
            if x in a and any(_is_zero_const(y) for y in e.args):
                return True
        return False
    if isinstance(expr, ast.Call):
        d = dotted_name(expr.func) or ''
        if d in ('np.array', 'np.asarray', 'list', 'np.abs', 'abs') and expr.args:
            return d in ('np.abs', 'abs') or nonneg(expr.args[0], binds, summary, seen)
        if d in ('np.zeros',):
            return True
        if d in ('np.maximum', 'np.fmax') and len(expr.args) == 2:
            return any(_is_zero_const(a) or nonneg(a, binds, summary, seen) for a in expr.args)
        if d == 'np.clip' and len(expr.args) >= 2:
            return isinstance(expr.args[1], ast.Constant) and isinstance(expr.args[1].value, (int, float)) and expr.args[1].value >= 0
        return False
    if isinstance(expr, ast.Subscript) and isinstance(expr.slice, ast.Constant) and isinstance(expr.value, ast.Call):
        # tuple item of a call: summary of the callee
        fn = (dotted_name(expr.value.func) or '').split('.')[-1]
        return expr.slice.value in summary.get(fn, [])
    if isinstance(expr, (ast.Name, ast.Attribute)):
        k = norm(expr)
        d = binds.get(k)
        if d is None or d.expr is None or id(d) in seen:
            return False
        seen.add(id(d))
        return nonneg(d.expr, d.binds, summary, seen)
    return False


def check_z1(ctx) -> Dict[str, List[int]]:
    repo = ctx.repo
    summary: Dict[str, List[int]] = {}
    for fname, positions in PUMP_POS.items():
        f = repo.function(WB, fname)
        rel = f.module.rel
        rets = [r for r in ast.walk(f.node) if isinstance(r, ast.Return)]
        ctx.require(len(rets) == 1 and isinstance(rets[0].value, ast.Tuple), f'{fname}: single tuple return expected')
        names = [norm(e) for e in rets[0].value.elts]
        keys = {names[i] for i in positions}
        paths = [p for p in PathEnumerator(f.node.body, keys, slice_deps='locals').paths() if p.ended == 'return']
        ctx.floor('Z1', len(paths), 1, f'{fname}: return paths')
        good = []
        for pos in positions:
            k = names[pos]
            allok = True
            for p in paths:
                # an explicit opt-out flag path (trim_neg_to_zero False) is the caller's responsibility (checked at call sites)
                optout = any(norm(t) == 'trim_neg_to_zero' and not pol for t, pol, _ in p.conds)
                d = p.env.get(k)
                ok = d is not None and d.expr is not None and nonneg(d.expr, d.binds)
                if optout:
                    continue
                key = f'{fname}/{k}/{cond_text([c for c in p.conds if "productionwellpumping" in norm(c[0]) or "trim" in norm(c[0])])[:60]}'
                ctx.check(ok, 'Z1', key, f'{rel}:{d.line if d is not None else f.node.lineno}',
                          f'{k} returned by {fname} is `{norm(d.expr)[:70] if d is not None and d.expr is not None else "?"}` on this path: not '
                          f'clamped at zero element-wise, so a negative pumping power (artesian / thermosiphon regime) reaches the results',
                          fact='clamped at 0 / zero-initialised / sum of such')
                allok = allok and ok
            if allok:
                good.append(pos)
        summary[fname] = good
    # call sites: no explicit opt-out of the clamp
    calc = repo.method('WellBores', 'Calculate', WB)
    for c in calls_in(calc.node):
        fn = (dotted_name(c.func) or '').split('.')[-1]
        if fn in PUMP_POS:
            for kw in c.keywords:
                if kw.arg == 'trim_neg_to_zero' and not (isinstance(kw.value, ast.Constant) and kw.value.value is True):
                    ctx.bad('Z1', f'WellBores.Calculate/{fn}/trim_neg_to_zero={norm(kw.value)}', f'{calc.module.rel}:{c.lineno}',
                            'the clamp of negative pumping power is switched off at the call site')
    # final values stored by WellBores.Calculate
    keys = {'self.PumpingPower.value', 'self.PumpingPowerProd.value', 'self.PumpingPowerInj.value'}
    paths = PathEnumerator(calc.node.body, keys, slice_deps='locals').paths()
    n = 0
    for p in paths:
        imp = None
        for t, pol, _ in p.conds:
            if norm(t) == 'self.impedancemodelused.value':
                imp = pol
        if imp is None:
            continue
        for k in sorted(keys):
            d = p.env.get(k)
            if d is None:
                continue
            n += 1
            ok = d.expr is not None and nonneg(d.expr, d.binds, summary)
            leaf = f'{"impedance" if imp else "PI-II"}/{cond_text([c for c in p.conds if "productionwellpumping" in norm(c[0])])[:50]}'
            ctx.check(ok, 'Z1', f'WellBores.Calculate/{k.split(".")[1]}/{leaf}', f'{calc.module.rel}:{d.line}',
                      f'{k} ends as `{norm(d.expr)[:80] if d.expr is not None else "?"}`: not provably non-negative at every time step',
                      fact='non-negative by construction')
    ctx.floor('Z1', n, 4, 'pumping-power values stored by WellBores.Calculate')
    return summary


def check_z2(ctx) -> None:
    calc = ctx.repo.method('WellBores', 'Calculate', WB)
    rel = calc.module.rel
    tot = [s for s in ast.walk(calc.node) if isinstance(s, ast.Assign) and norm(s.targets[0]) == 'self.PumpingPower.value'
           and isinstance(s.value, (ast.BinOp, ast.Attribute))]
    found = False
    for s in tot:
        g = [(norm(t), pol) for t, pol in guards_of(s, calc.node)]
        if ('self.productionwellpumping.value', True) in g:
            found = True
            try:
                r = Translator().tr(s.value)
            except Unsupported as e:
                raise AnalysisError(str(e))
            want = Rat.atom('self.PumpingPowerInj.value') + Rat.atom('self.PumpingPowerProd.value')
            ctx.check(r.equals(want), 'Z2', 'WellBores.Calculate/total=inj+prod', f'{rel}:{s.lineno}',
                      f'with production pumps modelled the total pumping power is `{r.show()}`, not injection + production', fact='Inj + Prod')
        if ('self.productionwellpumping.value', False) in g:
            ctx.check(norm(s.value) == 'self.PumpingPowerInj.value', 'Z2', 'WellBores.Calculate/total=inj-only', f'{rel}:{s.lineno}',
                      f'without production pumps the total is `{norm(s.value)}`')
    ctx.check(found, 'Z2', 'WellBores.Calculate/total-defined', calc.where, 'no total pumping power defined under production well pumping')


def check_z3(ctx) -> None:
    repo = ctx.repo
    f = repo.function(WB, 'ReservoirPressurePredictor')
    rel = f.module.rel
    ctx.require(f.args == ['project_lifetime_yr', 'timesteps_per_year', 'initial_pressure_kPa', 'overpressure_percentage', 'depletion_rate'],
                f'ReservoirPressurePredictor signature changed: {f.args}')
    a = Rat.atom
    n_steps = a('project_lifetime_yr') * a('timesteps_per_year')
    from gxstat.inline import inline_sequential
    from gxstat.srcmodel import clone

    def series_of(fn) -> str:
        rs = {norm(r_.value) for r_ in ast.walk(fn.node) if isinstance(r_, ast.Return) and isinstance(r_.value, ast.Name)}
        ctx.require(len(rs) == 1, f'{fn.name}: the returned series is not one local name ({sorted(rs)})')
        return next(iter(rs))

    S = series_of(f)
    H = a('initial_pressure_kPa')
    init = [s for s in f.node.body if isinstance(s, ast.Assign) and norm(s.targets[0]) == S]
    ok = len(init) == 1 and norm(inline_sequential(init[0].value, init[0])) in ('[initial_pressure_kPa] * project_lifetime_yr * timesteps_per_year',)
    ctx.check(ok, 'Z3', 'ReservoirPressurePredictor/initialised-at-hydrostatic', f'{rel}:{init[0].lineno if init else f.node.lineno}',
              'the series is not initialised to the hydrostatic pressure over all time steps (elements after the floor keep this value)')
    first = [s for s in f.node.body if isinstance(s, ast.Assign) and norm(s.targets[0]) == f'{S}[0]']
    ctx.require(len(first) == 1, f'ReservoirPressurePredictor: `{S}[0]` not found')
    first_v = inline_sequential(first[0].value, first[0])

    n_calls: List[ast.Call] = []

    def hook(T, call):
        # the number of depletion steps is rounded once: int(<100 / rate x steps per year>)
        if dotted_name(call.func) in ('int', 'round', 'math.floor') and len(call.args) == 1:
            n_calls.append(call)
            return Rat.atom('N_DEPLETION_STEPS')
        return None

    def tr(x, with_first=True):
        """Translate with every local inlined; reads of S[0] are the value stored there."""
        class P0(ast.NodeTransformer):
            def visit_Subscript(self, n):
                if isinstance(n.ctx, ast.Load) and norm(n.value) == S and norm(n.slice) == '0':
                    return clone(first_v)
                return self.generic_visit(n)
        x = P0().visit(clone(x)) if with_first else x
        try:
            return Translator(call_hook=hook).tr(x)
        except Unsupported as e:
            raise AnalysisError(str(e))
    p0 = tr(first_v, with_first=False)
    P0v = H * a('overpressure_percentage') / Rat.const(100)
    ctx.check(p0.equals(P0v), 'Z3', 'ReservoirPressurePredictor/start',
              f'{rel}:{first[0].lineno}', f'initial pressure is `{p0.show()}`, not hydrostatic x overpressure % / 100', fact='p[0] = hydrostatic * pct/100')
    loops = [s for s in f.node.body if isinstance(s, ast.For)]
    ctx.require(len(loops) == 1, 'ReservoirPressurePredictor: one loop expected')
    lp = loops[0]
    t = norm(lp.target)
    args = [tr(inline_sequential(x, lp)) for x in lp.iter.args]
    ctx.check(len(args) == 2 and args[0].equals(Rat.const(1)) and args[1].equals(n_steps), 'Z3', 'ReservoirPressurePredictor/steps-covered',
              f'{rel}:{lp.lineno}', f'time steps covered: range({", ".join(norm(x) for x in lp.iter.args)}); expected [1, lifetime x steps per year)')
    st = [s for s in lp.body if isinstance(s, ast.Assign) and norm(s.targets[0]) == f'{S}[{t}]']
    ctx.require(len(st) >= 1, 'ReservoirPressurePredictor: element assignment not found')
    n_calls.clear()
    v = tr(inline_sequential(st[0].value, st[0], cross_loops=True, keep=(S,)))
    N = a('N_DEPLETION_STEPS')
    want = P0v - (P0v - H) / N * a(t)
    ctx.check(v.equals(want), 'Z3', 'ReservoirPressurePredictor/decline', f'{rel}:{st[0].lineno}',
              f'pressure at step t is `{v.show()}`; a monotone decline at the stated rate is p[0] - (p[0] - hydrostatic) / steps x t (coefficient of t must be '
              f'-overpressure/steps <= 0)', fact='p[t] = p[0] - (overpressure/steps) * t')
    ctx.require(n_calls, 'ReservoirPressurePredictor: the rounded number of depletion steps was not found in the element formula (idiom changed)')
    dt = n_calls[0]
    okd = all(Translator().tr(c_.args[0]).equals(Rat.const(100) / a('depletion_rate') * a('timesteps_per_year')) for c_ in n_calls)
    ctx.check(okd, 'Z3', 'ReservoirPressurePredictor/depletion-duration', f'{rel}:{dt.lineno}',
              f'the overpressure is spread over `{norm(dt)}` steps; at the stated rate (percent of the overpressure per year) it lasts '
              f'(100 / rate) years x steps per year, rounded once', fact='int(100/rate * tspy)')
    # floor: on every path through the loop body the element finally holds max(decline, hydrostatic) - whether it is stored first and then
    # overwritten, or tested first and stored once
    ELT = f'{S}[{t}]'
    D_TXT = norm(inline_sequential(st[0].value, st[0], cross_loops=True, keep=(S,)))

    def walk_paths(stmts, cur, conds):
        """yield (conds, final value text or None) for each path; `cur` is the text last stored into the element."""
        if not stmts:
            yield conds, cur
            return
        s0, rest = stmts[0], stmts[1:]
        if isinstance(s0, ast.Assign) and norm(s0.targets[0]) == ELT:
            yield from walk_paths(rest, norm(inline_sequential(s0.value, s0, cross_loops=True, keep=(S,))), conds)
        elif isinstance(s0, ast.If):
            tt = norm(inline_sequential(s0.test, s0, cross_loops=True, keep=(S,)))
            if cur is not None:
                tt = tt.replace(ELT, cur)
            yield from walk_paths(list(s0.body) + rest, cur, conds + [(tt, True)])
            yield from walk_paths(list(s0.orelse) + rest, cur, conds + [(tt, False)])
        elif isinstance(s0, (ast.Break, ast.Continue)):
            yield conds, cur
        else:
            yield from walk_paths(rest, cur, conds)
    paths_ = list(walk_paths(list(lp.body), None, []))
    H_TXT = 'initial_pressure_kPa'
    below = (f'{D_TXT} < {H_TXT}', f'{D_TXT} <= {H_TXT}', f'{H_TXT} > {D_TXT}', f'{H_TXT} >= {D_TXT}')
    okf = len(paths_) == 2 and all(len(c_) == 1 and c_[0][0] in below for c_, _v in paths_) and \
        {(c_[0][1], v_) for c_, v_ in paths_} == {(True, H_TXT), (False, D_TXT)}
    fl = [s for s in lp.body if isinstance(s, ast.If)]
    ctx.check(okf, 'Z3', 'ReservoirPressurePredictor/floor-at-hydrostatic', f'{rel}:{fl[0].lineno if fl else lp.lineno}',
              'after each update the pressure is not floored at the hydrostatic pressure'
              + (f' (paths: {[(c_, v_) for c_, v_ in paths_][:3]})' if not okf else ''))
    er = [s for s in f.node.body if isinstance(s, ast.If) and any(isinstance(x, ast.Return) for x in s.body)]
    ctx.check(len(er) == 1 and norm(er[0].test) in ('overpressure_percentage == 100.0', 'overpressure_percentage == 100'), 'Z3',
              'ReservoirPressurePredictor/no-overpressure-constant', f'{rel}:{er[0].lineno if er else f.node.lineno}',
              'the constant-hydrostatic shortcut is not taken exactly when the overpressure is 100 %')
    # injection predictor
    g = repo.function(WB, 'InjectionReservoirPressurePredictor')
    grel = g.module.rel
    GS = series_of(g)
    gl = [s for s in ast.walk(g.node) if isinstance(s, ast.For)]
    ctx.require(len(gl) == 1, 'InjectionReservoirPressurePredictor: one loop expected')
    tt = norm(gl[0].target)
    gs = [s for s in gl[0].body if isinstance(s, ast.Assign) and norm(s.targets[0]) == f'{GS}[{tt}]']
    ctx.require(len(gs) == 1, 'InjectionReservoirPressurePredictor: element assignment not found')
    try:
        v = Translator().tr(inline_sequential(gs[0].value, gs[0], cross_loops=True, keep=(GS,)))
    except Unsupported as e:
        raise AnalysisError(str(e))
    ctx.check(v.equals(a('initial_pressure_kPa') + a('inflation_rate') / a('timesteps_per_year') * a(tt)), 'Z3', 'InjectionReservoirPressurePredictor/rise',
              f'{grel}:{gs[0].lineno}', f'injection pressure at step t is `{v.show()}`; expected initial + (rate / steps per year) x t (rising)',
              fact='p[t] = initial + rate/tspy * t')
    ga = [Translator().tr(inline_sequential(x, gl[0])) for x in gl[0].iter.args]
    ctx.check(len(ga) == 2 and ga[0].equals(Rat.const(1)) and ga[1].equals(n_steps), 'Z3', 'InjectionReservoirPressurePredictor/steps-covered',
              f'{grel}:{gl[0].lineno}', 'not all time steps are covered')
    # the loop runs unless the rate is zero (then the series stays at its initial value, which is the same formula at rate 0)
    gg = [(norm(t_), pol) for t_, pol in guards_of(gl[0], g.node)]
    early = [s for s in g.node.body if isinstance(s, ast.If) and any(isinstance(x, ast.Return) for x in s.body) and s.lineno < gl[0].lineno]
    ok_g = all((txt in ('inflation_rate != 0', 'inflation_rate != 0.0') and pol) or (txt in ('inflation_rate == 0', 'inflation_rate == 0.0') and not pol) for txt, pol in gg) and \
        all(norm(s.test) in ('inflation_rate == 0', 'inflation_rate == 0.0') for s in early)
    ctx.check(ok_g, 'Z3', 'InjectionReservoirPressurePredictor/only-zero-rate-skips', f'{grel}:{gl[0].lineno}',
              f'the rise is skipped under {gg or [norm(s.test) for s in early]}: only a zero rate may leave the series constant')
    # wiring in Calculate
    calc = repo.method('WellBores', 'Calculate', WB)
    cs = [c for c in calls_in(calc.node) if dotted_name(c.func) == 'ReservoirPressurePredictor']
    ctx.require(len(cs) == 1, 'WellBores.Calculate: ReservoirPressurePredictor call not found')
    want = ['model.surfaceplant.plant_lifetime.value', 'model.economics.timestepsperyear.value', 'self.production_reservoir_pressure.value',
            'self.overpressure_percentage.value', 'self.overpressure_depletion_rate.value']
    ctx.check([norm(x) for x in cs[0].args] == want, 'Z3', 'WellBores.Calculate/pressure-predictor-binding', f'{calc.module.rel}:{cs[0].lineno}',
              f'production reservoir pressure is predicted from {[norm(x) for x in cs[0].args]}')


def run(ctx) -> None:
    ctx.rule('Z1', 'every pumping-power value returned by the four hydraulic functions and stored by WellBores.Calculate is non-negative '
                   'by construction on every path (element-wise clamp, zeros, or a sum of such)')
    ctx.rule('Z2', 'total pumping power = injection + production pumping power when production pumps are modelled')
    ctx.rule('Z3', 'production reservoir pressure: starts at hydrostatic x pct/100, p[t] = p[0] - (overpressure / int(100/rate x tspy)) x t, '
                   'floored at hydrostatic, all steps covered; injection reservoir pressure rises by rate/tspy per step')
    ctx.rule('Z4', 'well-diameter magnitude heuristic (threshold inside the accepted range): see U4')
    check_z1(ctx)
    check_z2(ctx)
    check_z3(ctx)
    n = check_heuristics(ctx, 'Z4', only_attrs={'injwelldiam', 'prodwelldiam', 'nonverticalwellborediameter'})
    ctx.floor('Z4', n, 4, 'diameter heuristic sites')
    ctx.rule('Z5', 'a supplied value equal to its default counts as provided (C07 V9): the split injection-reservoir model is gated on overpressure_percentage.Provided')
    ctx.rule('Z6', 'the pumping-power profile of the report prints production, injection and total at the same time index and stride (C09 W4)')
    ctx.rule('Z7', 'thermal-storage wellbores: the signed flow profile enters pressure drops and pumping power only through abs() or an even power')
    from gxstat.runner import Renamed
    from rules.c07 import check_reader_arm
    rp = ctx.repo.module('geophires_x/Parameter.py').functions.get('ReadParameter')
    ctx.require(rp is not None, 'Parameter.ReadParameter not found')
    n0 = len(ctx.obligations)
    check_reader_arm(Renamed(ctx, {'V9': 'Z5'}), rp, 'floatParameter', 'float')
    ctx.floor('Z5', len(ctx.obligations) - n0, 2, 'reader obligations')
    from gxstat.report import writer_templates
    from rules.c09 import check_profiles
    n0 = len(ctx.obligations)
    check_profiles(Renamed(ctx, {'W4': 'Z6'}, key_filter=lambda k: 'POWER REQUIRED' in k or 'PUMP' in k.upper()), writer_templates(ctx.repo, only=['Outputs']))
    ctx.floor('Z6', len(ctx.obligations) - n0, 2, 'pumping-power profile obligations')
    if ctx.repo.has_module('geophires_x/SUTRAWellBores.py'):
        sw = ctx.repo.method('SUTRAWellBores', 'Calculate', 'geophires_x/SUTRAWellBores.py')
        signed = ('prodwellflowrates', 'injwellflowrates')
        n7 = 0
        # (function, names that hold a signed profile there, whether every assignment counts): the method itself, and module helpers
        # a signed profile is handed to (there the parameter is the signed name and the whole body is pressure-drop arithmetic)
        scopes = [(sw, signed, False)]
        for c in calls_in(sw.node):
            g = sw.module.functions.get(dotted_name(c.func) or '')
            if g is None:
                continue
            pn = tuple(g.args[i] for i, a_ in enumerate(c.args) if isinstance(a_, ast.Name) and a_.id in signed and i < len(g.args))
            if pn and not any(s_[0] is g for s_ in scopes):
                scopes.append((g, pn, True))
        for fn7, signed7, every in scopes:
          for st in ast.walk(fn7.node):
            if not isinstance(st, ast.Assign):
                continue
            tgt = norm(st.targets[0])
            if not every and not (tgt.startswith(('v', 'Re', 'DP', 'self.DP', 'self.PumpingPower'))):
                continue
            for x in ast.walk(st.value):
                if isinstance(x, ast.Name) and x.id in signed7:
                    n7 += 1
                    p = parent(x)
                    ok = False
                    while p is not None and p is not st:
                        if isinstance(p, ast.Call) and (dotted_name(p.func) or '') in ('abs', 'np.abs', 'np.absolute', 'math.fabs', 'np.fabs'):
                            ok = True
                        if isinstance(p, ast.BinOp) and isinstance(p.op, ast.Pow) and isinstance(p.right, ast.Constant) and \
                                isinstance(p.right.value, int) and p.right.value % 2 == 0:
                            ok = True
                        p = parent(p)
                    ctx.check(ok, 'Z7', f'{fn7.qualname}/{tgt}/{x.id}-unsigned', f'{sw.module.rel}:{st.lineno}',
                              f'`{norm(st)[:100]}` uses the signed flow profile {x.id} without abs(): while the storage is charged the flow is '
                              f'negative, the pressure drop and with it the pumping power become negative', fact='abs() / even power')
        ctx.floor('Z7', n7, 3, 'uses of the signed flow profiles in pressure-drop and power expressions')          # (a shared helper halves the copies)
    from rules.helper_contract import run_shared
    run_shared(ctx, 'Z8', 'Z9', 10)
    ctx.rule('Z10', 'the modelled reservoir pressure series stay what the predictors returned: in WellBores.Calculate no store to the production / '
                    'injection reservoir pressure series follows the predictor call (re-tiling or rescaling it afterwards breaks the stated '
                    'depletion / inflation rate and the monotone decline)')
    wc_ = ctx.repo.method('WellBores', 'Calculate', 'geophires_x/WellBores.py')
    for pred_, frag_ in (('ReservoirPressurePredictor', 'production_reservoir_pressure'), ('InjectionReservoirPressurePredictor', 'injection_reservoir_pressure')):
        stores_ = [st for st in ast.walk(wc_.node) if isinstance(st, (ast.Assign, ast.AugAssign)) and
                   any(frag_ in norm(t) and norm(t).split('[')[0].endswith('.value') and not norm(t).split('.')[-2].startswith('average')
                       for t in (st.targets if isinstance(st, ast.Assign) else [st.target]))]
        from_pred = [st for st in stores_ if isinstance(st, ast.Assign) and isinstance(st.value, ast.Call) and (dotted_name(st.value.func) or '') == pred_]
        if not from_pred:
            raise AnalysisError(f'WellBores.Calculate: no store of {pred_}(...) into the {frag_} series found (rewritten): cannot decide')
        last_ = max(st.lineno for st in from_pred)
        def _arms(n_):
            out_ = {}
            cur_, prev_ = parent(n_), n_
            while cur_ is not None and cur_ is not wc_.node:
                if isinstance(cur_, ast.If):
                    out_[id(cur_)] = 'body' if any(prev_ is b_ for b_ in cur_.body) else 'orelse'
                prev_, cur_ = cur_, parent(cur_)
            return out_
        pa_ = _arms(max(from_pred, key=lambda st: st.lineno))
        later_ = [st for st in stores_ if st.lineno > last_ and not any(k_ in pa_ and pa_[k_] != v_ for k_, v_ in _arms(st).items())]
        ctx.check(not later_, 'Z10', f'WellBores.Calculate/{frag_}-is-the-predictor-result', f'{wc_.module.rel}:{(later_[0] if later_ else from_pred[-1]).lineno}',
                  f'`{norm(later_[0])[:90] if later_ else ""}` rewrites the {frag_.replace("_", " ")} series after {pred_} produced it: the series no longer '
                  f'follows p(t) = p0 -/+ rate x t with its floor (e.g. it jumps back to the initial overpressure at each redrilling)',
                  fact=f'last store is {pred_}(...)')
    ctx.undecided('monotonicity of the Colebrook friction loss in the diameter (numeric)', 'SBT/AGS hydraulic models',
                  'values of water properties')
    ctx.assume('overpressure percentage >= 100 and depletion rate > 0 (declared ranges) give overpressure >= 0 and a positive step count')
