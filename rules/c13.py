"""C13 -- Monte-Carlo iterations are independent draws from the requested distributions.

M1 RNG discipline in pool workers, M2 exactly one complete row per successful iteration, M3 distribution dispatch."""
from __future__ import annotations

import ast
from typing import Dict, List, Optional, Set, Tuple

from gxstat.flowutil import guards_of, enclosing_loops
from gxstat.srcmodel import AnalysisError, calls_in, dotted_name, norm, parent, walk_no_nested
from rules.mc_common import MC, is_unconditional_top, pool_workers, top_level_index

DISTS = {'normal': 2, 'uniform': 2, 'triangular': 3, 'lognormal': 2, 'binomial': 2}
NON_DRAWS = ('seed', 'default_rng', 'SeedSequence', 'RandomState', 'Generator', 'get_state', 'set_state', 'PCG64')


def _fresh_seed_call(c: ast.Call) -> Optional[bool]:
    """np.random.seed(...) : True if reseeded from fresh OS entropy, False if deterministic, None if not a seed call."""
    d = dotted_name(c.func) or ''
    if d not in ('np.random.seed', 'numpy.random.seed', 'random.seed'):
        return None
    if not c.args and not c.keywords:
        return True
    a = c.args[0] if c.args else c.keywords[0].value
    if isinstance(a, ast.Constant) and a.value is None:
        return True
    txt = norm(a)
    if 'os.urandom' in txt or 'secrets.' in txt or 'SeedSequence()' in txt:
        return True
    return False


def _dominating_seeds(f, c: ast.Call):
    """(fresh reseeds that dominate call c in function f, deterministic seedings before it)."""
    seeds = [(s, _fresh_seed_call(s)) for s in calls_in(f.node) if _fresh_seed_call(s) is not None]
    dom = [s for s, fresh in seeds if fresh and is_unconditional_top(f.node, s)
           and top_level_index(f.node, s) < top_level_index(f.node, c)]
    # a reseed inside the same loop body before the draw also dominates it
    if not dom:
        for s, fresh in seeds:
            if fresh and enclosing_loops(s, f.node) and enclosing_loops(s, f.node)[-1] in enclosing_loops(c, f.node) \
                    and not guards_of(s, enclosing_loops(s, f.node)[-1]) and s.lineno < c.lineno:
                dom.append(s)
    stale = [s for s, fresh in seeds if not fresh and s.lineno < c.lineno]
    return dom, stale


def check_m1(ctx) -> None:
    repo = ctx.repo
    workers = pool_workers(repo)
    ctx.floor('M1', len(workers), 1, 'ProcessPoolExecutor submissions')
    mi = repo.module(MC)
    for w, sub, ctor in workers:
        # functions that run inside the task: the worker and module functions it calls
        in_task = [w]
        for c in calls_in(w.node):
            d = dotted_name(c.func)
            if d in mi.functions and mi.functions[d] not in in_task:
                in_task.append(mi.functions[d])
        draws: List[Tuple[object, ast.Call]] = []
        gen_draws = 0
        # process-wide generator objects: a module global filled by an accessor (`global _rng; if _rng is None: _rng = default_rng()`)
        accessors: Dict[str, Tuple[str, bool]] = {}
        for fn_ in mi.functions.values():
            gl = {n_ for st_ in ast.walk(fn_.node) if isinstance(st_, ast.Global) for n_ in st_.names}
            made = [st_ for st_ in ast.walk(fn_.node) if isinstance(st_, ast.Assign) and isinstance(st_.targets[0], ast.Name) and
                    st_.targets[0].id in gl and isinstance(st_.value, ast.Call) and (dotted_name(st_.value.func) or '').endswith('default_rng')]
            if made and any(isinstance(r_, ast.Return) and isinstance(r_.value, ast.Name) and r_.value.id == made[0].targets[0].id
                            for r_ in ast.walk(fn_.node)):
                fresh_ = not made[0].value.args or (isinstance(made[0].value.args[0], ast.Constant) and made[0].value.args[0].value is None)
                accessors[fn_.name] = (made[0].targets[0].id, fresh_)
        at_import = {st_.targets[0].id for st_ in mi.tree.body if isinstance(st_, ast.Assign) and isinstance(st_.targets[0], ast.Name) and
                     isinstance(st_.value, ast.Call) and (dotted_name(st_.value.func) or '').endswith('default_rng')}
        # what the parent process runs before the pool exists: main and the module functions it calls (transitively), the task excluded
        parent_side, todo_ = set(), ['main']
        while todo_:
            nm_ = todo_.pop()
            if nm_ in parent_side or nm_ not in mi.functions or mi.functions[nm_] in in_task and nm_ != 'main':
                continue
            parent_side.add(nm_)
            for c_ in calls_in(mi.functions[nm_].node):
                d_ = dotted_name(c_.func)
                if d_ in mi.functions:
                    todo_.append(d_)
        # task helpers that the parent also calls create the generator in the parent all the same
        def _reaches_accessor(fname: str, seen=None) -> bool:
            seen = seen or set()
            if fname in seen or fname not in mi.functions:
                return False
            seen.add(fname)
            for c_ in calls_in(mi.functions[fname].node):
                d_ = dotted_name(c_.func)
                if d_ in accessors or (d_ in mi.functions and _reaches_accessor(d_, seen)):
                    return True
            return False
        parent_creates = [nm_ for nm_ in sorted(parent_side) for c_ in calls_in(mi.functions[nm_].node)
                          if (dotted_name(c_.func) in accessors or (dotted_name(c_.func) in mi.functions and mi.functions[dotted_name(c_.func)] in in_task
                                                                    and dotted_name(c_.func) != w.name and _reaches_accessor(dotted_name(c_.func))))]
        for f in in_task:
            proc_gens = {st_.targets[0].id: dotted_name(st_.value.func) for st_ in ast.walk(f.node) if isinstance(st_, ast.Assign) and
                         isinstance(st_.targets[0], ast.Name) and isinstance(st_.value, ast.Call) and dotted_name(st_.value.func) in accessors}
            for c in calls_in(f.node):
                d = dotted_name(c.func) or ''
                parts = d.split('.')
                if len(parts) == 2 and parts[0] in proc_gens and parts[1] not in NON_DRAWS:
                    gen_draws += 1
                    gname, fresh_ = accessors[proc_gens[parts[0]]]
                    bad_why = None
                    if gname in at_import:
                        bad_why = f'the process-wide generator `{gname}` is created at import, i.e. in the parent'
                    elif not fresh_:
                        bad_why = f'the process-wide generator `{gname}` is created from a fixed seed'
                    elif parent_creates:
                        bad_why = (f'the process-wide generator `{gname}` is created lazily, but {parent_creates[0]}() - which the parent runs before the '
                                   f'pool is started - already draws from it, so it exists before the workers are forked')
                    ctx.check(bad_why is None, 'M1', f'{f.qualname}/draw:{parts[1]}-from-process-generator', f'{f.module.rel}:{c.lineno}',
                              f'{bad_why}: every forked worker inherits the same generator state and the iterations replay identical samples',
                              fact='generator created in the worker process, from OS entropy')
        for f in in_task:
            local_gens: Set[str] = set()
            for st in ast.walk(f.node):
                if isinstance(st, ast.Assign) and isinstance(st.value, ast.Call) and \
                        (dotted_name(st.value.func) or '').endswith('default_rng') and isinstance(st.targets[0], ast.Name):
                    fresh = not st.value.args or (isinstance(st.value.args[0], ast.Constant) and st.value.args[0].value is None)
                    if fresh:
                        local_gens.add(st.targets[0].id)
                    else:
                        ctx.bad('M1', f'{f.qualname}/generator-seeded-deterministically', f'{f.module.rel}:{st.lineno}',
                                f'`{norm(st)}` creates the task generator from a fixed seed: every task draws the same samples')
            for c in calls_in(f.node):
                d = dotted_name(c.func) or ''
                parts = d.split('.')
                if len(parts) >= 3 and parts[-3:-1] == ['np', 'random'] or (len(parts) >= 3 and parts[-3:-1] == ['numpy', 'random']):
                    if parts[-1] not in NON_DRAWS:
                        draws.append((f, c))
                elif len(parts) == 2 and parts[0] == 'random' and parts[1] not in NON_DRAWS and 'random' in f.module.imports:
                    draws.append((f, c))
                elif len(parts) == 2 and parts[0] in local_gens and parts[1] not in NON_DRAWS:
                    gen_draws += 1
                    ctx.ok('M1', f'{f.qualname}/draw:{d}', f'{f.module.rel}:{c.lineno}', 'drawn from a per-task generator seeded from OS entropy')
        # the floor counts every draw site (global or per-task generator): a partial migration must not hide the remaining global draws
        ctx.floor('M1', len(draws) + gen_draws, 5, 'draw sites in pool workers')
        # pool-level reseeding
        init_ok = False
        for kw in ctor.keywords:
            if kw.arg == 'initializer' and isinstance(kw.value, ast.Name) and kw.value.id in mi.functions:
                init_fn = mi.functions[kw.value.id]
                init_ok = any(_fresh_seed_call(c) for c in calls_in(init_fn.node) if is_unconditional_top(init_fn.node, c))
        for f, c in draws:
            key = f'{f.qualname}/draw:{dotted_name(c.func)}'
            where = f'{f.module.rel}:{c.lineno}'
            if init_ok:
                ctx.ok('M1', key, where, 'pool initializer reseeds each worker from OS entropy')
                continue
            dom, stale = _dominating_seeds(f, c)
            if not dom and not stale and f is not w:
                # the draw sits in a helper of the worker: it is covered when every call of the helper in the worker is
                sites = [c2 for c2 in calls_in(w.node) if dotted_name(c2.func) == f.name]
                res = [_dominating_seeds(w, c2) for c2 in sites]
                if sites and all(d and not st_ for d, st_ in res):
                    dom = res[0][0]
                stale = [x for _, st_ in res for x in st_]
            if stale:
                ctx.bad('M1', key, where, f'the generator is seeded deterministically at line {stale[-1].lineno} '
                                          f'(`{norm(stale[-1])}`) before this draw: tasks replay identical samples')
            elif dom:
                ctx.ok('M1', key, where, f'dominated by fresh reseed at line {dom[0].lineno}')
            else:
                ctx.bad('M1', key, where,
                        f'draw from numpy\'s global generator in a pool worker is not dominated by a reseed from fresh '
                        f'entropy (no np.random.seed() on all paths before it, no per-task generator, no reseeding pool '
                        f'initializer): forked workers replay the parent\'s generator state')


SUBSTRING_ARMS: Set[int] = set()


def _dispatch_arms(w) -> Tuple[List[Tuple[str, ast.If]], Optional[str], Optional[str]]:
    """The `<selector>.startswith('<name>')` arms of the distribution dispatch; the selector is read through block-local aliases
    (`distribution = input_value[1].strip()`).  Returns (arms, selector text, name of the settings entry the selector indexes)."""
    from gxstat.inline import inline_block_locals
    arms: List[Tuple[str, ast.If]] = []
    sels: Set[str] = set()
    entry: Set[str] = set()
    for n in ast.walk(w.node):
        if not isinstance(n, ast.If):
            continue
        name = sel_e = None
        if isinstance(n.test, ast.Call) and isinstance(n.test.func, ast.Attribute) \
                and n.test.func.attr == 'startswith' and n.test.args and isinstance(n.test.args[0], ast.Constant) \
                and isinstance(n.test.args[0].value, str):
            name, sel_e = n.test.args[0].value, n.test.func.value
        elif isinstance(n.test, ast.Compare) and len(n.test.ops) == 1 and isinstance(n.test.ops[0], ast.In) and isinstance(n.test.left, ast.Constant) \
                and isinstance(n.test.left.value, str):
            name, sel_e = n.test.left.value, n.test.comparators[0]             # `'normal' in <selector>`: a substring test
            SUBSTRING_ARMS.add(id(n))
        elif isinstance(n.test, ast.Compare) and len(n.test.ops) == 1 and isinstance(n.test.ops[0], ast.Eq) and isinstance(n.test.comparators[0], ast.Constant) \
                and isinstance(n.test.comparators[0].value, str):
            name, sel_e = n.test.comparators[0].value, n.test.left
        if name is None:
            continue
        recv = inline_block_locals(sel_e, n)
        base = recv
        while isinstance(base, (ast.Call, ast.Attribute, ast.Subscript)):
            if isinstance(base, ast.Subscript) and isinstance(base.value, ast.Name) and isinstance(base.slice, ast.Constant) \
                    and base.slice.value == 1:
                arms.append((name, n))
                sels.add(norm(recv))
                entry.add(base.value.id)
                break
            base = base.func if isinstance(base, ast.Call) else base.value
    return arms, (next(iter(sels)) if len(sels) == 1 else None), (next(iter(entry)) if len(entry) == 1 else None)


def check_m3(ctx) -> None:
    repo = ctx.repo
    w = repo.function(MC, 'work_package')
    arms, sel, ev = _dispatch_arms(w)
    ctx.require(not arms or (sel is not None and ev is not None), 'work_package: the dispatch arms test different selectors (idiom changed)')
    gens = {st.targets[0].id for st in ast.walk(w.node) if isinstance(st, ast.Assign) and isinstance(st.value, ast.Call) and
            (dotted_name(st.value.func) or '').endswith('default_rng') and isinstance(st.targets[0], ast.Name)}
    names = [a for a, _ in arms]
    ctx.require(arms, 'work_package: no `<selector>.startswith(<name>)` dispatch arm found (idiom changed)')
    ctx.check(sorted(names) == sorted(DISTS), 'M3', 'work_package/dispatch-exhaustive', w.where,
              f'distribution dispatch handles {sorted(names)}, documented set is {sorted(DISTS)}',
              fact=f'arms: {names}')
    for name, node in arms:
        key = f'work_package/arm:{name}'
        where = f'{w.module.rel}:{node.lineno}'
        draws = [c for st in node.body for c in calls_in(st) if (dotted_name(c.func) or '').startswith('np.random.') or
                 (dotted_name(c.func) or '').split('.')[0] in gens]
        if len(draws) != 1:
            ctx.bad('M3', key, where, f'arm {name!r} draws {len(draws)} times')
            continue
        c = draws[0]
        fn = dotted_name(c.func).split('.')[-1]
        idx = []
        for a in c.args:
            inner = a
            while isinstance(inner, ast.Call) and dotted_name(inner.func) in ('float', 'int') and inner.args:
                inner = inner.args[0]
            if isinstance(inner, ast.Subscript) and norm(inner.value) == ev and isinstance(inner.slice, ast.Constant):
                idx.append(inner.slice.value)
            else:
                idx.append(norm(a))
        want = list(range(2, 2 + DISTS.get(name, 0)))
        ctx.check(fn == name and idx == want, 'M3', key, where,
                  f'arm {name!r} calls np.random.{fn} with settings fields {idx} (expected np.random.{name} with fields {want})',
                  fact=f'np.random.{fn}({idx})')
        # the sampled value is what is written to the input file and recorded in the row: `entries += name + ', ' + str(value) + '\n'` in
        # the arm itself, or once after the dispatch in the same loop body (then only under `value is not None`)
        tgt = [st for st in node.body if isinstance(st, ast.Assign) and st.value is c and len(st.targets) == 1 and isinstance(st.targets[0], ast.Name)]
        if len(tgt) != 1:
            ctx.bad('M3', key + '/recorded', where, f'arm {name!r}: the drawn value is not bound to a name that is then recorded')
            continue
        v = tgt[0].targets[0].id
        want_txt = f"{ev}[0] + ', ' + str({v}) + '\\n'"
        app = [st for st in node.body if isinstance(st, ast.AugAssign) and isinstance(st.op, ast.Add) and isinstance(st.target, ast.Name)]
        shared = False
        if not app:
            loops = enclosing_loops(node, w.node)
            if loops:
                lp = loops[-1]
                for st in ast.walk(lp):
                    if isinstance(st, ast.AugAssign) and isinstance(st.op, ast.Add) and isinstance(st.target, ast.Name) \
                            and st.lineno > node.lineno and norm(st.value) == want_txt \
                            and all(norm(t) == f'{v} is not None' and pol for t, pol in guards_of(st, lp)):
                        app.append(st)
                        shared = True
        okrec = len(app) == 1 and norm(app[0].value) == want_txt
        ctx.check(okrec, 'M3', key + '/recorded', where,
                  f'arm {name!r}: the drawn value is not appended verbatim as `name, value` '
                  f'({norm(app[0].value) if app else "no append"})', fact=('shared append after the dispatch' if shared else 'append in the arm'))
        # prefix collisions between arms that are not mutually exclusive
    for a, na in arms:
        for b, nb in arms:
            if a != b and b.startswith(a):
                excl = any(nb is x for x in ast.walk(na) if x is not na and isinstance(x, ast.If) and x in na.orelse) or \
                       _in_orelse_chain(na, nb)
                ctx.check(excl, 'M3', f'work_package/prefix:{a}<{b}', f'{w.module.rel}:{nb.lineno}',
                          f'dispatch name {a!r} is a prefix of {b!r} and the arms are not exclusive: two draws for one input')
            # a substring test for `a` also holds for every documented name that contains `a`: unless the longer name is tested first in
            # the same exclusive chain, its inputs are sampled from the wrong distribution (or twice)
            if a != b and a in b and id(na) in SUBSTRING_ARMS:
                b_first = _in_orelse_chain(nb, na)
                ctx.check(b_first, 'M3', f'work_package/substring:{a}<{b}', f'{w.module.rel}:{na.lineno}',
                          f'the arm for {a!r} tests `{norm(na.test)}`, which also holds for {b!r}, and is not preceded by the {b!r} arm in one '
                          f'exclusive chain: a {b!r} input is drawn from np.random.{a}')


def _in_orelse_chain(a: ast.If, b: ast.If) -> bool:
    cur = a
    while cur.orelse and len(cur.orelse) == 1 and isinstance(cur.orelse[0], ast.If):
        cur = cur.orelse[0]
        if cur is b:
            return True
    return False


def result_row_facts(ctx, w):
    """Locate the locked append of the row. Returns (with_node, write_calls)."""
    withs = [n for n in w.node.body if isinstance(n, ast.With)]
    lock_with = None
    lockers = {st.targets[0].id for st in ast.walk(w.node) if isinstance(st, ast.Assign) and isinstance(st.value, ast.Call)
               and (dotted_name(st.value.func) or '').split('.')[-1] == 'Locker' and isinstance(st.targets[0], ast.Name)}
    for n in ast.walk(w.node):
        if isinstance(n, ast.With):
            for it in n.items:
                src = norm(it.context_expr)
                if src in lockers or 'Locker(' in src:
                    lock_with = n
    return lock_with


def check_m2_parent_collects(ctx, w) -> bool:
    """The other way to get one row per successful iteration: the task *returns* its row and the parent writes it.  Decided here:
    the parent must take each iteration's result on its own.  `for row in executor.map(task, ...)` does not: the iterator re-raises the
    first task exception at its position and is then exhausted, so every later iteration's row is lost (and, caught outside the loop,
    silently).  Returns False when this design is not present (the caller then reports what it cannot find)."""
    repo = ctx.repo
    rets = [r for r in w.node.body if isinstance(r, ast.Return) and r.value is not None]
    if not rets:
        return False
    consumers = []
    for f in repo.module(MC).functions.values():
        for lp in ast.walk(f.node):
            if isinstance(lp, (ast.For, ast.comprehension)):
                it = lp.iter
                for c in ast.walk(it):
                    if isinstance(c, ast.Call) and isinstance(c.func, ast.Attribute) and c.func.attr == 'map' and c.args and \
                            norm(c.args[0]) == w.name:
                        consumers.append((f, lp, c))
    if not consumers:
        return False
    can_raise = any(isinstance(x, ast.Raise) for x in walk_no_nested(w.node)) or \
        not (len(w.node.body) >= 1 and any(isinstance(b, ast.Try) and any(h.type is None or norm(h.type) in ('Exception', 'BaseException') for h in b.handlers)
                                           for b in w.node.body))
    for f, lp, c in consumers:
        ctx.check(not can_raise, 'M2', f'{f.name}/rows-collected-per-iteration', f'{f.module.rel}:{c.lineno}',
                  f'{f.name} takes the rows from `for ... in {norm(c)[:60]}`: the map iterator re-raises the first failing iteration at its position and '
                  f'ends, so the rows of all later iterations - simulated successfully or never started - are not written: fewer than one row per '
                  f'successful iteration (take each future on its own: submit() + result() in a per-iteration try)',
                  fact='each iteration result taken on its own')
    for r in rets:
        v = r.value
        ok_nl = (isinstance(v, ast.BinOp) and isinstance(v.op, ast.Add) and norm(v.right) == "'\\n'") or norm(v).endswith("+ '\\n'")
        if not ok_nl and isinstance(v, ast.Name):
            ups = [st for st in w.node.body if isinstance(st, ast.AugAssign) and norm(st.target) == v.id and st.lineno < r.lineno]
            ok_nl = bool(ups) and norm(ups[-1].value) == "'\\n'"
        ctx.check(ok_nl, 'M2', 'work_package/row-newline-terminated', f'{w.module.rel}:{r.lineno}',
                  'the row returned to the parent is not newline-terminated')
    return True


def check_m2(ctx) -> None:
    repo = ctx.repo
    w = repo.function(MC, 'work_package')
    lock_with = result_row_facts(ctx, w)
    if lock_with is None and check_m2_parent_collects(ctx, w):
        return
    ctx.require(lock_with is not None, 'work_package: locked append (`with FL as r`) not found')
    # the file handle is the third element of what the lock's context manager yields (`with FL as r: acquired, code, fd = r`)
    asv = next((it.optional_vars for it in lock_with.items if it.optional_vars is not None), None)
    fd = None
    if isinstance(asv, ast.Name):
        for st in ast.walk(lock_with):
            if isinstance(st, ast.Assign) and isinstance(st.value, ast.Name) and st.value.id == asv.id and isinstance(st.targets[0], ast.Tuple) \
                    and len(st.targets[0].elts) == 3 and isinstance(st.targets[0].elts[2], ast.Name):
                fd = st.targets[0].elts[2].id
    elif isinstance(asv, ast.Tuple) and len(asv.elts) == 3 and isinstance(asv.elts[2], ast.Name):
        fd = asv.elts[2].id
    ctx.require(fd is not None, 'work_package: the file handle yielded by the lock was not found (idiom changed)')
    writes = [c for c in calls_in(w.node) if isinstance(c.func, ast.Attribute) and c.func.attr in ('write', 'writelines')
              and norm(c.func.value) == fd]
    where = f'{w.module.rel}:{lock_with.lineno}'
    ctx.check(len(writes) == 1, 'M2', 'work_package/one-append', where,
              f'{len(writes)} writes to the result file per iteration (exactly one row per successful iteration)',
              fact='single fd.write')
    ctx.check(any(lock_with is s for s in w.node.body), 'M2', 'work_package/append-unconditional', where,
              'the locked append is nested in a branch/loop: some successful iterations write no row (or several)')
    for c in writes:
        inside = any(x is c for x in ast.walk(lock_with))
        ctx.check(inside, 'M2', 'work_package/append-inside-lock', f'{w.module.rel}:{c.lineno}',
                  'the row is written outside the lock\'s with-block')
        g = [norm(t) for t, pol in guards_of(c, lock_with)]
        ctx.check(all(x in (f'{fd} is not None', 'acquired') for x in g), 'M2', 'work_package/append-guard', f'{w.module.rel}:{c.lineno}',
                  f'the append is additionally guarded by {g}')
        row = c.args[0].id if len(c.args) == 1 and isinstance(c.args[0], ast.Name) else None
        # the complete row is the string the output loop accumulates into (`row += value + ', '` inside a for loop)
        accum = {st.target.id for lp in ast.walk(w.node) if isinstance(lp, ast.For) for st in ast.walk(lp)
                 if isinstance(st, ast.AugAssign) and isinstance(st.op, ast.Add) and isinstance(st.target, ast.Name)
                 and not any(st is x for x in ast.walk(lock_with))}
        aug_any = {st.target.id for st in ast.walk(w.node) if isinstance(st, ast.AugAssign) and isinstance(st.op, ast.Add)
                   and isinstance(st.target, ast.Name) and not any(st is x for x in ast.walk(lock_with))}
        joined = {st.targets[0].id for st in ast.walk(w.node) if isinstance(st, ast.Assign) and isinstance(st.targets[0], ast.Name)
                  and any(isinstance(x, (ast.GeneratorExp, ast.ListComp)) for x in ast.walk(st.value))
                  and any(isinstance(x, ast.Attribute) and x.attr == 'join' for x in ast.walk(st.value))}
        if row is not None and row in aug_any and row not in accum and row not in joined:
            raise AnalysisError(f'work_package: `{row}` is appended to but neither in a loop over the outputs nor from a join over them (idiom changed)')
        ctx.check(row is not None and (row in accum or (row in joined and row in aug_any)), 'M2', 'work_package/append-whole-row',
                  f'{w.module.rel}:{c.lineno}', f'the append writes `{norm(c.args[0]) if c.args else ""}`, not the complete row '
                  f'(the accumulated row is {sorted(accum | joined)})')
    rows = {c.args[0].id for c in writes if len(c.args) == 1 and isinstance(c.args[0], ast.Name)}
    row = next(iter(rows)) if len(rows) == 1 else None
    # the row ends with a newline: last top-level update of the row before the lock
    ups = [st for st in w.node.body if isinstance(st, (ast.Assign, ast.AugAssign)) and
           norm(st.targets[0] if isinstance(st, ast.Assign) else st.target) == row and st.lineno < lock_with.lineno]
    ctx.check(bool(ups) and isinstance(ups[-1], ast.AugAssign) and norm(ups[-1].value) == "'\\n'", 'M2',
              'work_package/row-newline-terminated', f'{w.module.rel}:{ups[-1].lineno if ups else w.node.lineno}',
              'the row handed to the append is not newline-terminated by the last update before the lock')
    # a failed simulation leaves before the append: missing result file => non-zero exit / raise
    early = [n for n in w.node.body if isinstance(n, ast.Return)]
    ctx.check(not early, 'M2', 'work_package/no-silent-return', w.where, 'a top-level return can skip the append silently')
    # the simulation call sits before the append and its exceptions are not swallowed
    for n in walk_no_nested(w.node):
        if isinstance(n, ast.Try):
            for h in n.handlers:
                from gxstat.flowutil import handler_reraises
                ctx.check(handler_reraises(h), 'M2', 'work_package/failure-not-swallowed', f'{w.module.rel}:{h.lineno}',
                          'a handler in work_package swallows a simulation failure; a row would be written for a failed iteration')


def run(ctx) -> None:
    ctx.rule('M4', '"exactly one row per successfully simulated iteration": the default result file is unique to the request, so rows of other runs never land in it (C14 Q7)')
    ctx.rule('M1', 'every draw from numpy\'s global generator inside a callable handed to ProcessPoolExecutor is dominated by a '
                   'reseed from fresh entropy (or uses a per-task generator, or the pool has a reseeding initializer)')
    ctx.rule('M2', 'exactly one newline-terminated row is appended per successful iteration, unconditionally, inside the lock')
    ctx.rule('M3', 'distribution dispatch covers exactly the five documented names; each arm calls the same-named numpy '
                   'distribution with the settings fields in order and records the drawn value verbatim')
    check_m1(ctx)
    check_m2(ctx)
    check_m3(ctx)
    from rules.c14 import check_q6
    before = len(ctx.obligations)
    check_q6(ctx)
    for o in ctx.obligations[before:]:
        o['rule'] = 'M2'
    from gxstat.runner import Renamed
    from rules.c14 import check_q7
    check_q7(Renamed(ctx, {'Q7': 'M4'}))
    ctx.undecided('statistical quality of numpy generators', 'OS process scheduling',
                  'samples lie in the support (property of numpy.random)')
    ctx.assume('np.random.seed() without argument reseeds from OS entropy (numpy documentation)',
               'ProcessPoolExecutor workers are forked/spawned processes with their own copy of the generator')
