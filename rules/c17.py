"""C17 -- heat-in-place assessment adds up and scales with reservoir size.

G1 homogeneity proof (degree of every output in reservoir area / thickness on every path of HIP_RA_X.Calculate),
G2 additive structure (volumes, masses, stored heat), G3 producible = available x RecoverableHeat with
RecoverableHeat in [0, 1] by interval analysis, G4 utilisation-efficiency table shape."""
from __future__ import annotations

import ast
from fractions import Fraction
from typing import Dict, List, Optional, Tuple

from gxstat.algebra import Rat, Translator, Unsupported
from gxstat.domains import DEG_ANY, degree
from gxstat.registry import EnumRef, get_registry
from gxstat.srcmodel import AnalysisError, calls_in, const_value, dotted_name, norm
from gxstat.symflow import PathEnumerator, cond_text

AREA = 'self.reservoir_area.value'
THICK = 'self.reservoir_thickness.value'
# expected (degree in area, degree in thickness) per declared unit type of the output
EXPECT = {
    'VOLUME': (1, 1), 'MASS': (1, 1), 'HEAT': (1, 1), 'POWER': (1, 1),
    'ENTHALPY': (0, 0), 'PERCENT': (0, 0),
    'HEATPERUNITAREA': (0, 1), 'POWERPERUNITAREA': (0, 1), 'HEAT_PER_UNIT_AREA': (0, 1), 'POWER_PER_UNIT_AREA': (0, 1),
    'HEATPERUNITVOLUME': (0, 0), 'POWERPERUNITVOLUME': (0, 0), 'HEAT_PER_UNIT_VOLUME': (0, 0), 'POWER_PER_UNIT_VOLUME': (0, 0),
}


def _try_body(fn) -> List[ast.stmt]:
    for st in fn.node.body:
        if isinstance(st, ast.Try):
            return st.body
    return fn.node.body


def run(ctx) -> None:
    repo = ctx.repo
    reg = get_registry(repo)
    ctx.rule('G1', 'on every syntactic path of HIP_RA_X.Calculate each output has the homogeneity degree in reservoir area and in thickness '
                   'that its declared unit type requires (extensive 1/1, per-area 0/1, per-volume and intensive 0/0); inputs derived inside '
                   'Calculate have degree 0')
    ctx.rule('G2', 'reservoir volume = area x thickness; rock volume = V(1 - phi/100); recoverable fluid volume = V x phi/100 x factor; '
                   'stored heat = rock + fluid; reservoir mass = rock + fluid')
    ctx.rule('G3', 'producible heat = available heat x RecoverableHeat(T) and every return value of RecoverableHeat lies in [0, 1]')
    ctx.rule('G4', 'the utilisation-efficiency table is a function table: temperatures strictly increasing, efficiencies in [0, 1], equal length')
    ctx.rule('G5', '"inputs written in other listed units give the same results": HIP-RA code reads inputs whose unit label goes stale in '
                   'ConvertUnits through .value, never through .quantity() (shared with C06 U14)')
    ctx.rule('G6', 'no magnitude heuristic with its threshold inside the accepted range rewrites a HIP-RA input (shared rule U4)')
    from rules.c06 import check_u14
    from rules.u4 import check_heuristics
    check_u14(ctx, 'G5', only_classes={'HIP_RA_X', 'HIP_RA'})
    uses = [c for fn in repo.all_functions() if fn.cls is not None and fn.cls.name in ('HIP_RA_X', 'HIP_RA') for c in ast.walk(fn.node)
            if isinstance(c, ast.Attribute) and c.attr == 'value' and isinstance(c.value, ast.Attribute) and isinstance(c.value.value, ast.Name)
            and c.value.value.id == 'self']
    ctx.floor('G5', len(uses), 40, 'self.<param>.value reads in the HIP-RA classes')
    ctx.ok('G5', 'HIP_RA/inputs-read-through-.value', 'src/hip_ra_x/hip_ra_x.py', f'{len(uses)} reads of self.<param>.value; .quantity() reads of '
                                                                              f'stale-label inputs are reported individually')
    check_heuristics(ctx, 'G6', only_classes={'HIP_RA_X', 'HIP_RA'})
    ctx.ok('G6', 'HIP_RA/no-heuristic-inside-range', 'src/hip_ra_x/hip_ra_x.py', 'heuristic sites in the HIP-RA classes are reported individually')
    ctx.rule('G7', 'ConvertUnits hands the converted number back to the reader and never stores it itself (a stored value makes the reader '
                   'skip range check and Provided flag, so a provided depth/pressure in another unit is treated as not provided)')
    ctx.rule('G8', 'the HIP-RA clients neither cache by file name nor round parameter values when writing the input file')
    cu = repo.module('geophires_x/Parameter.py').functions.get('ConvertUnits')
    ctx.require(cu is not None, 'Parameter.ConvertUnits not found')
    stores = [st for st in ast.walk(cu.node) if isinstance(st, (ast.Assign, ast.AugAssign)) and
              any(norm(t) == 'ParamToModify.value' for t in (st.targets if isinstance(st, ast.Assign) else [st.target]))]
    ctx.check(not stores, 'G7', 'ConvertUnits/does-not-store-the-value', f'{cu.module.rel}:{stores[0].lineno if stores else cu.node.lineno}',
              f'`{norm(stores[0])[:80] if stores else ""}`: ConvertUnits stores the converted number into the parameter; ReadParameter then finds '
              f'"new value == current value" and returns before the range check and before Provided is set', fact='returns the text only')
    from rules.client_common import check_any_client_cache, check_lossless_rendering
    check_any_client_cache(ctx, 'G8', only_prefixes=('src/hip_ra/__init__.py', 'src/hip_ra_x/__init__.py'))
    nr = check_lossless_rendering(ctx, 'G8')
    ctx.floor('G8', nr, 2, 'client parameter writers')
    f = repo.method('HIP_RA_X', 'Calculate')
    rel = f.module.rel
    body = _try_body(f)
    outs = {d.attr: d for d in reg.class_decls('HIP_RA_X') if not d.is_input}
    ins = {d.attr: d for d in reg.class_decls('HIP_RA_X') if d.is_input}
    ctx.floor('G1', len(outs), 20, 'HIP-RA-X outputs')
    keys = {f'self.{a}.value' for a in list(outs) + list(ins)}
    pe = PathEnumerator(body, keys, fork_all=True)
    paths = [p for p in pe.paths() if p.ended != 'raise']
    ctx.floor('G1', len(paths), 8, 'paths of HIP_RA_X.Calculate')
    ctx.analysed['hip_paths'] = len(paths)
    assigned_ever = set()
    assigned_any = {k for p in paths for k in p.env}
    never = {f'self.{a}.value' for a in outs if f'self.{a}.value' not in assigned_any}
    # G1
    agg: Dict[Tuple[str, str], set] = {}
    for p in paths:
        for a, d in list(outs.items()) + list(ins.items()):
            k = f'self.{a}.value'
            df = p.env.get(k)
            if df is None:
                continue
            assigned_ever.add(a)
            if df.expr is None:
                raise AnalysisError(f'HIP_RA_X.Calculate: {k} written in a loop')
            da = degree(df.expr, lambda n: n == AREA, df.binds, zero=lambda n: n in never)
            dt = degree(df.expr, lambda n: n == THICK, df.binds, zero=lambda n: n in never)
            agg.setdefault((a, 'area'), set()).add(da)
            agg.setdefault((a, 'thickness'), set()).add(dt)
    for a, d in outs.items():
        ut = d.get('UnitType')
        utn = ut.member if isinstance(ut, EnumRef) else None
        if a not in assigned_ever:
            ctx.info(f'G1 output {a} is never assigned in Calculate (constant default; degree-polymorphic)')
            continue
        if utn not in EXPECT:
            raise AnalysisError(f'HIP-RA-X output {a} has unit type {utn}, not in the extensive/intensive table')
        ea, et = EXPECT[utn]
        for which, want in (('area', ea), ('thickness', et)):
            got = agg.get((a, which), set())
            got2 = {want if g == DEG_ANY else g for g in got}
            ctx.check(got2 == {want}, 'G1', f'HIP_RA_X.Calculate/{a}/degree-in-{which}', f'{rel}:{d.node.lineno}',
                      f'{d.name!r} ({utn}) must scale with reservoir {which} to the power {want}; over the paths of Calculate its defining '
                      f'expression has degree {sorted(str("mixed" if g is None else g) for g in got)}', fact=f'degree {want} in {which}')
    for a, d in ins.items():
        if a in ('reservoir_area', 'reservoir_thickness') or a not in assigned_ever:
            continue
        for which in ('area', 'thickness'):
            got = {0 if g == DEG_ANY else ('mixed' if g is None else g) for g in agg.get((a, which), set())}
            ctx.check(got == {0}, 'G1', f'HIP_RA_X.Calculate/derived-input:{a}/degree-in-{which}', f'{rel}:{d.node.lineno}',
                      f'input {d.name!r} is derived inside Calculate from a quantity that scales with reservoir {which} (degrees {sorted(str(g) for g in got)})')
    # G2 identities on the first definitions (straight-line part)
    defs: Dict[str, List[ast.Assign]] = {}
    for st in ast.walk(ast.Module(body=body, type_ignores=[])):
        if isinstance(st, ast.Assign) and len(st.targets) == 1:
            defs.setdefault(norm(st.targets[0]), []).append(st)
    a = Rat.atom

    def first(key):
        ctx.require(key in defs, f'HIP_RA_X.Calculate: `{key}` is never assigned')
        return defs[key][0]

    ctx.local_anchor(f, 'fluid_net_enthalpy', 'fluid_net_entropy')
    from gxstat.symflow import Def
    local_binds = {k: Def(k, v[0].value, {}, v[0].lineno) for k, v in defs.items() if '.' not in k and len(v) == 1 and k.isidentifier()
                   and k not in ('fluid_net_enthalpy', 'fluid_net_entropy')}
    for d_ in local_binds.values():
        d_.binds = local_binds

    def tr(node):
        try:
            return Translator(binds=local_binds).tr(node)
        except Unsupported as e:
            raise AnalysisError(str(e))
    V, PHI = a('self.reservoir_volume.value'), a('self.reservoir_porosity.value')
    checks = [
        ('self.reservoir_volume.value', a(AREA) * a(THICK), 'reservoir volume = area x thickness'),
        ('self.volume_rock.value', V * (Rat.const(1) - PHI / Rat.const(100)), 'rock volume = V x (1 - porosity/100)'),
        ('self.volume_recoverable_fluid.value', V * PHI / Rat.const(100) * a('self.recoverable_fluid_factor.value'),
         'recoverable fluid volume = V x porosity/100 x recoverable fluid factor'),
        ('self.mass_rock.value', a('self.volume_rock.value') * a('self.rock_density.value'), 'rock mass = rock volume x rock density'),
        ('self.reservoir_mass.value', a('self.mass_rock.value') + a('self.mass_recoverable_fluid.value'), 'reservoir mass = rock + fluid mass'),
        ('self.reservoir_stored_heat.value', a('self.stored_heat_rock.value') + a('self.stored_heat_fluid.value'), 'stored heat = rock + fluid parts'),
        ('self.stored_heat_fluid.value', a('fluid_net_enthalpy') * a('self.mass_recoverable_fluid.value'), 'fluid heat = net enthalpy x recoverable fluid mass'),
        ('self.reservoir_recovery_factor.value', a('self.reservoir_producible_heat.value') / a('self.reservoir_stored_heat.value'),
         'recovery factor = producible / stored'),
        ('self.producible_heat_per_unit_area.value', a('self.reservoir_producible_heat.value') / a(AREA), 'per-area heat = producible / area'),
        ('self.heat_per_unit_volume_reservoir.value', a('self.reservoir_producible_heat.value') / V, 'per-volume heat = producible / volume'),
        ('self.producible_electricity_per_unit_area.value', a('self.reservoir_producible_electricity.value') / a(AREA), 'per-area power = power / area'),
        ('self.electricity_per_unit_volume_reservoir.value', a('self.reservoir_producible_electricity.value') / V, 'per-volume power = power / volume'),
    ]
    for key, want, txt in checks:
        st = first(key)
        r = tr(st.value)
        ctx.check(r.equals(want), 'G2', f'HIP_RA_X.Calculate/{key.split(".")[1]}', f'{rel}:{st.lineno}', f'{txt}; found `{r.show()}`', fact=txt)
    # mass_recoverable_fluid first definition
    st = first('self.mass_recoverable_fluid.value')
    ctx.check(tr(st.value).equals(a('self.volume_recoverable_fluid.value') * a('self.fluid_density.value')), 'G2',
              'HIP_RA_X.Calculate/mass_recoverable_fluid', f'{rel}:{st.lineno}', 'fluid mass = recoverable fluid volume x fluid density')
    # G3
    p0 = paths[0]
    prod = p0.env.get('self.reservoir_producible_heat.value')
    avail = p0.env.get('self.reservoir_available_heat.value')
    ctx.require(prod is not None and avail is not None, 'HIP_RA_X.Calculate: producible/available heat definitions not found')
    stop = {'self.reservoir_available_heat.value', 'maximum_lifetime_electricity_kJ'}
    T = Translator(inline=lambda k: k not in ('maximum_lifetime_electricity_kJ',))
    rp = T.tr_def(prod)
    ra = Translator(inline=lambda k: k not in ('maximum_lifetime_electricity_kJ',)).tr_def(avail)
    eff_atoms = [x for x in rp.atoms() if x.startswith('RecoverableHeat(')]
    ok = len(eff_atoms) == 1 and rp.equals(ra * Rat.atom(eff_atoms[0])) and eff_atoms[0] == 'RecoverableHeat(self.reservoir_temperature.value)'
    ctx.check(ok, 'G3', 'HIP_RA_X.Calculate/producible=available*RecoverableHeat', f'{rel}:{prod.line}',
              f'producible heat is `{rp.show(4)}`; expected available heat `{ra.show(3)}` x RecoverableHeat(reservoir temperature)',
              fact='producible = available x conversion efficiency')
    rh = repo.function('geophires_x/GeoPHIRESUtils.py', 'RecoverableHeat')
    _interval_of_recoverable_heat(ctx, rh)
    # G4 tables
    mi = repo.module('geophires_x/GeoPHIRESUtils.py')
    tabs = {}
    for st in mi.tree.body:
        if isinstance(st, ast.Assign) and norm(st.targets[0]) in ('_T', '_UtilEff') and isinstance(st.value, ast.Call) and st.value.args:
            okc, v = const_value(st.value.args[0])
            if okc:
                tabs[norm(st.targets[0])] = (v, st.lineno)
    ctx.require('_T' in tabs and '_UtilEff' in tabs, 'utilisation-efficiency tables not found')
    Tt, Ue = tabs['_T'][0], tabs['_UtilEff'][0]
    ctx.check(len(Tt) == len(Ue), 'G4', 'GeoPHIRESUtils/_T-_UtilEff/equal-length', f'{mi.rel}:{tabs["_T"][1]}', f'{len(Tt)} temperatures vs {len(Ue)} efficiencies')
    ctx.check(all(x < y for x, y in zip(Tt, Tt[1:])), 'G4', 'GeoPHIRESUtils/_T/strictly-increasing', f'{mi.rel}:{tabs["_T"][1]}', 'temperature table is not strictly increasing')
    ctx.check(all(0 <= x <= 1 for x in Ue), 'G4', 'GeoPHIRESUtils/_UtilEff/in-unit-interval', f'{mi.rel}:{tabs["_UtilEff"][1]}',
              f'utilisation efficiencies outside [0, 1]: {[x for x in Ue if not 0 <= x <= 1][:3]}')
    from rules.helper_contract import run_shared
    run_shared(ctx, 'G9', 'G10', 3)
    ctx.undecided('available <= stored heat (needs the sign of CoolProp entropy/enthalpy differences)', 'results for inputs in other units (C06)',
                  'CoolProp property values')
    ctx.assume('water-property helpers depend only on temperature and pressure (degree 0 in area and thickness)')


def _interval_of_recoverable_heat(ctx, rh) -> None:
    """Every value returned lies in [0, 1], path by path: the guards on the path bound the temperature to an interval (comparisons with
    constants, local or module-level), the returned expression is constant or linear in the temperature and is evaluated at the ends."""
    from gxstat.inline import module_consts
    from gxstat.srcmodel import const_value as _cv
    from gxstat.symflow import PathEnumerator
    T = rh.args[0]
    consts: Dict[str, Fraction] = {}
    for k, v in module_consts(rh.module.tree).items():
        okc, val = _cv(v)
        if okc and isinstance(val, (int, float)) and not isinstance(val, bool):
            consts[k] = Fraction(repr(val))
    for st in rh.node.body:
        if isinstance(st, ast.Assign) and isinstance(st.targets[0], ast.Name) and isinstance(st.value, ast.Constant) and \
                isinstance(st.value.value, (int, float)):
            consts[st.targets[0].id] = Fraction(repr(st.value.value))
    ret_names = {x.id for r_ in ast.walk(rh.node) if isinstance(r_, ast.Return) and r_.value is not None for x in ast.walk(r_.value) if isinstance(x, ast.Name)}
    paths = [p_ for p_ in PathEnumerator(rh.node.body, ret_names, fork_all=True).paths() if p_.ended == 'return' and p_.ret is not None]
    ctx.floor('G3', len(paths), 3, 'RecoverableHeat branches')

    def num(e) -> Optional[Fraction]:
        if isinstance(e, ast.Constant) and isinstance(e.value, (int, float)) and not isinstance(e.value, bool):
            return Fraction(repr(e.value))
        if isinstance(e, ast.Name):
            return consts.get(e.id)
        return None
    for p_ in paths:
        lo: Optional[Fraction] = None
        hi: Optional[Fraction] = None
        for test, pol, _b in p_.conds:
            inner = test.operand if isinstance(test, ast.UnaryOp) and isinstance(test.op, ast.Not) else test
            if isinstance(inner, ast.Call) and dotted_name(inner.func) == 'isinstance':
                continue            # a type check does not bound the number
            ok_g = isinstance(test, ast.Compare) and len(test.ops) == 1 and isinstance(test.left, ast.Name) and test.left.id == T and \
                num(test.comparators[0]) is not None
            ctx.require(ok_g, f'RecoverableHeat: guard `{norm(test)}` is not a comparison of the temperature with a constant (idiom changed)')
            c = num(test.comparators[0])
            op = type(test.ops[0])
            upper = (op in (ast.LtE, ast.Lt)) == pol          # T <= c holds, or T >= c fails  -> upper bound
            ctx.require(op in (ast.LtE, ast.Lt, ast.GtE, ast.Gt), f'RecoverableHeat: guard `{norm(test)}` not an ordering comparison')
            if upper:
                hi = c if hi is None else min(hi, c)
            else:
                lo = c if lo is None else max(lo, c)
        try:
            r = Translator(binds=p_.ret.binds).tr(p_.ret.expr)
        except Unsupported as e:
            raise AnalysisError(str(e))
        rng = f'[{float(lo) if lo is not None else "-inf"}, {float(hi) if hi is not None else "inf"}]'
        key = f'RecoverableHeat/branch:T in {rng}'
        where = f'{rh.module.rel}:{p_.ret.line}'
        ctx.require(r.d.is_const() and r.n.atoms() <= {T} and r.n.degree_in({T}) <= {0, 1}, f'RecoverableHeat: `{norm(p_.ret.expr)}` is not linear in the temperature')
        dconst = r.d.const_value()
        slope = (r.n.coefficient_of(T).const_value() / dconst) if T in r.n.atoms() else Fraction(0)
        icpt = r.n.t.get((), Fraction(0)) / dconst
        if slope == 0:
            ctx.check(0 <= icpt <= 1, 'G3', key, where, f'plateau value {float(icpt)} is outside [0, 1]: producible heat could exceed available heat',
                      fact=f'{float(icpt)} in [0, 1]')
            continue
        if lo is None or hi is None:
            ctx.bad('G3', key, where, f'the linear ramp `{r.show()}` is returned for temperatures in {rng}, an unbounded interval: it leaves [0, 1]')
            continue
        ends = [slope * lo + icpt, slope * hi + icpt]
        ctx.check(all(0 <= e <= 1 for e in ends), 'G3', key, where,
                  f'linear ramp takes values {[float(e) for e in ends]} at the ends of its interval {rng}: outside [0, 1]',
                  fact=f'[{float(min(ends)):.3f}, {float(max(ends)):.3f}] subset of [0, 1]')
