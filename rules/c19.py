"""C19 -- the published parameter schema matches what the simulator accepts.

Y1 union (none missing / none extra), Y2 type/default/units/bounds/required equal the declarations the reader enforces,
Y3 source list vs instantiable classes (root cause grouping for Y1), Y4 result schema fields = client table."""
from __future__ import annotations

import ast
import json
import os
from typing import Any, Dict, List, Optional, Tuple

from gxstat.callgraph import get_callgraph
from gxstat.clienttable import result_fields
from gxstat.registry import Decl, EnumRef, Unfolded, get_registry
from gxstat.srcmodel import AnalysisError, dotted_name, norm

TYPE_OF = {'floatParameter': 'number', 'intParameter': 'integer', 'boolParameter': 'boolean', 'strParameter': 'string',
           'listParameter': 'array'}


def _load(ctx, name: str) -> dict:
    p = os.path.join(ctx.repo.root, 'src', 'geophires_x_schema_generator', name)
    if not os.path.exists(p):
        raise AnalysisError(f'schema file missing: {p}')
    with open(p) as f:
        return json.load(f)


def _source_elements(fn: ast.AST, ret: ast.AST) -> Optional[List[ast.AST]]:
    """The (source, category) tuples the function returns: a list literal, or the flattening comprehension
    `[(source, category) for category, sources in TABLE for source in sources]` over literal tables held in locals bound once."""
    once: Dict[str, ast.AST] = {}
    cnt: Dict[str, int] = {}
    for n in ast.walk(fn):
        if isinstance(n, ast.Name) and isinstance(n.ctx, ast.Store):
            cnt[n.id] = cnt.get(n.id, 0) + 1
    for n in ast.walk(fn):
        if isinstance(n, ast.Assign) and len(n.targets) == 1 and isinstance(n.targets[0], ast.Name) and cnt.get(n.targets[0].id) == 1:
            once[n.targets[0].id] = n.value

    def lit(e):
        if isinstance(e, ast.Name) and e.id in once:
            e = once[e.id]
        return e if isinstance(e, (ast.List, ast.Tuple)) else None
    if isinstance(ret, ast.Name) and ret.id in once:
        ret = once[ret.id]
    if isinstance(ret, ast.List):
        return list(ret.elts)
    if isinstance(ret, ast.ListComp) and len(ret.generators) == 2 and isinstance(ret.elt, ast.Tuple) and len(ret.elt.elts) == 2 \
            and not ret.generators[0].ifs and not ret.generators[1].ifs:
        g1, g2 = ret.generators
        table = lit(g1.iter)
        if table is None or not (isinstance(g1.target, ast.Tuple) and len(g1.target.elts) == 2 and all(isinstance(x, ast.Name) for x in g1.target.elts)) \
                or not isinstance(g2.target, ast.Name) or not isinstance(g2.iter, ast.Name):
            return None
        a, b = g1.target.elts[0].id, g1.target.elts[1].id
        if g2.iter.id not in (a, b):
            return None
        cat_name = a if g2.iter.id == b else b
        out = []
        for row in table.elts:
            if not (isinstance(row, ast.Tuple) and len(row.elts) == 2):
                return None
            cat_e, srcs_e = (row.elts[0], row.elts[1]) if cat_name == a else (row.elts[1], row.elts[0])
            srcs = lit(srcs_e)
            if srcs is None:
                return None
            for s_ in srcs.elts:
                pair = []
                for x in ret.elt.elts:
                    if isinstance(x, ast.Name) and x.id == g2.target.id:
                        pair.append(s_)
                    elif isinstance(x, ast.Name) and x.id == cat_name:
                        pair.append(cat_e)
                    else:
                        return None
                out.append(ast.Tuple(elts=pair, ctx=ast.Load()))
        return out
    return None


def _sources(ctx) -> List[Tuple[str, str]]:
    """(class name, category) in the order of GeophiresXSchemaGenerator.get_parameter_sources."""
    repo = ctx.repo
    f = repo.method('GeophiresXSchemaGenerator', 'get_parameter_sources')
    rets = [r.value for r in ast.walk(f.node) if isinstance(r, ast.Return)]
    ctx.require(len(rets) == 1, 'get_parameter_sources: single return not found')
    elts = _source_elements(f.node, rets[0])
    ctx.require(elts is not None, 'get_parameter_sources: list literal not found')
    cg = get_callgraph(repo)
    # default role classes: first assignment of each role in Model.__init__
    defaults = {r: (cs[0].name if cs else None) for r, cs in cg.roles.items()}
    out = []
    for e in elts:
        if not (isinstance(e, ast.Tuple) and len(e.elts) == 2):
            raise AnalysisError(f'get_parameter_sources: unsupported element {norm(e)}')
        src, cat = e.elts
        catv = cat.value if isinstance(cat, ast.Constant) else None
        if isinstance(src, ast.Call):
            out.append((dotted_name(src.func).split('.')[-1], catv))
        else:
            d = dotted_name(src) or ''
            role = d.split('.')[-1]
            if role not in defaults or defaults[role] is None:
                raise AnalysisError(f'get_parameter_sources: cannot resolve {d}')
            out.append((defaults[role], catv))
    return out


def _val(reg, v):
    if isinstance(v, EnumRef):
        sv = reg.enums.str_value(v.enum, v.member)
        iv = reg.enums.int_value(v.enum, v.member)
        return sv if sv is not None else iv
    return v


def _num_eq(a, b) -> bool:
    try:
        a, b = float(a), float(b)
    except (TypeError, ValueError):
        return a == b
    if a == b:
        return True
    return abs(a - b) <= 1e-5 * max(abs(a), abs(b))


def _decl_facts(reg, d: Decl) -> Dict[str, Any]:
    facts: Dict[str, Any] = {'type': TYPE_OF[d.kind]}
    dv = d.get('DefaultValue', {'floatParameter': 0.0, 'listParameter': []}.get(d.kind))
    facts['default'] = _val(reg, dv)
    if d.kind in ('floatParameter', 'listParameter'):
        facts['minimum'] = d.get('Min', -1.8e30 if d.kind == 'floatParameter' else -1.8e308)
        facts['maximum'] = d.get('Max', 1.8e30 if d.kind == 'floatParameter' else 1.8e308)
    if d.kind == 'intParameter':
        rng = d.get('AllowableRange', [])
        if isinstance(rng, list) and rng and not any(isinstance(x, Unfolded) for x in rng):
            vals = [_val(reg, x) for x in rng]
            facts['minimum'], facts['maximum'] = min(vals), max(vals)
        elif isinstance(rng, Unfolded):
            facts['minimum'] = facts['maximum'] = rng
    cu = d.get('CurrentUnits')
    units = None
    if isinstance(cu, EnumRef):
        raw = reg.enums.enums.get(cu.enum, {}).get(cu.member)
        units = raw if isinstance(raw, str) else None
    facts['units'] = units
    facts['required'] = bool(d.get('Required', False))
    return facts


def _compare(ctx, reg, name: str, d: Decl, js: dict, required: List[str], schema: str) -> None:
    facts = _decl_facts(reg, d)
    where = d.where
    key = f'{schema}:{name}'
    probs = []
    if js.get('type') != facts['type']:
        probs.append(f"type {js.get('type')!r} vs declared {facts['type']!r}")
    jd, dd = js.get('default'), facts['default']
    if isinstance(dd, Unfolded):
        ctx.info(f'Y2 {key}: default not foldable ({dd.text[:60]})')
    elif isinstance(dd, list) or isinstance(jd, list):
        if list(dd or []) != list(jd or []):
            probs.append(f'default {jd!r} vs declared {dd!r}')
    elif isinstance(dd, bool) or isinstance(dd, str) or dd is None:
        if jd != dd:
            probs.append(f'default {jd!r} vs declared {dd!r}')
    elif not _num_eq(jd, dd):
        probs.append(f'default {jd!r} vs declared {dd!r}')
    for b in ('minimum', 'maximum'):
        if b in facts:
            if isinstance(facts[b], Unfolded):
                continue
            if js.get(b) is None or not _num_eq(js.get(b), facts[b]):
                probs.append(f'{b} {js.get(b)!r} vs enforced {facts[b]!r}')
            else:
                # the generator may round float noise, but only inwards: a value exactly at the published bound must be accepted
                try:
                    pv, ev = float(js.get(b)), float(facts[b])
                    if (b == 'maximum' and pv > ev) or (b == 'minimum' and pv < ev):
                        probs.append(f'published {b} {pv!r} lies outside the enforced bound {ev!r}: an input exactly at the documented '
                                     f'bound is rejected')
                except (TypeError, ValueError):
                    pass
        else:
            if js.get(b) not in (None, ''):
                probs.append(f'{b} {js.get(b)!r} published but the reader enforces none')
    if js.get('units') != facts['units']:
        probs.append(f"units {js.get('units')!r} vs declared {facts['units']!r}")
    if (name in required) != facts['required']:
        probs.append(f'required={name in required} vs declared Required={facts["required"]}')
    ctx.check(not probs, 'Y2', key, where, f'{name!r}: ' + '; '.join(probs),
              fact=f"{facts['type']} default={facts['default']!r} [{facts.get('minimum')!r}, {facts.get('maximum')!r}] {facts['units']}")


def _same_decl(reg, a: Decl, b: Decl) -> bool:
    fa, fb = _decl_facts(reg, a), _decl_facts(reg, b)
    return all((fa.get(k) == fb.get(k)) or (_num_eq(fa.get(k), fb.get(k)) if not isinstance(fa.get(k), (list, str, type(None), Unfolded)) else False)
               for k in set(fa) | set(fb))


def check_geophires(ctx) -> None:
    repo = ctx.repo
    reg = get_registry(repo)
    cg = get_callgraph(repo)
    schema = _load(ctx, 'geophires-request.json')
    props: Dict[str, dict] = schema.get('properties', {})
    required = schema.get('required', [])
    ctx.floor('Y1', len(props), 150, 'published request properties')
    sources = _sources(ctx)
    src_classes = [c for c, _ in sources]
    # classes the simulator can instantiate (input-bearing roles)
    inst: List[str] = []
    for role in ('reserv', 'wellbores', 'surfaceplant', 'economics', 'outputs', 'addeconomics', 'sdacgteconomics',
                 'addoutputs', 'sdacgtoutputs'):
        for ci in cg.roles.get(role, []):
            if ci.name not in inst:
                inst.append(ci.name)
    # names accepted per class, decl objects per name
    accepted: Dict[str, List[Tuple[str, Decl]]] = {}
    for cn in inst:
        for d in reg.class_decls(cn):
            if d.is_input and isinstance(d.name, str):
                accepted.setdefault(d.name, []).append((cn, d))
    covered: Dict[str, Decl] = {}
    for cn in src_classes:
        seen_cls: Dict[str, Decl] = {}
        for d in reversed(reg.class_decls(cn)):    # MRO order: subclass first; dict.update order = base first
            pass
        # construction order: base __init__ runs first (super().__init__), subclass declarations overwrite same keys
        decls = reg.class_decls(cn)
        ordered = list(reversed(_group_by_class(decls)))
        for group in ordered:
            for d in group:
                if d.is_input and isinstance(d.name, str):
                    seen_cls[d.name] = d
        covered.update(seen_cls)
    # Y3: instantiable classes that are not among the sources (own declarations only)
    src_mro = set()
    for cn in src_classes:
        for c in repo.mro(repo.classes[cn][0]):
            src_mro.add(c.name)
    missing_by_class: Dict[str, List[str]] = {}
    for name, lst in accepted.items():
        if name in props:
            continue
        owners = sorted({d.owner for _, d in lst})
        uncovered_owner = [o for o in owners if o not in src_mro]
        if uncovered_owner and len(uncovered_owner) == len(owners):
            missing_by_class.setdefault(uncovered_owner[0], []).append(name)
        else:
            d = lst[0][1]
            ctx.bad('Y1', f'request-missing:{name}', d.where,
                    f'{name!r} is accepted by {owners} (a class the generator enumerates) but is absent from '
                    f'geophires-request.json: the committed schema is stale')
    for cn, names in sorted(missing_by_class.items()):
        ci = repo.classes[cn][0]
        ctx.bad('Y3', f'source-list-lacks:{cn}', ci.where,
                f'{cn} can be instantiated by Model but is not among get_parameter_sources(): its {len(names)} parameter(s) '
                f'({", ".join(sorted(names)[:4])}{"..." if len(names) > 4 else ""}) are accepted by the simulator and missing from the schema')
    for name in props:
        if name in accepted or name in covered:
            ctx.ok('Y1', f'request-has:{name}', covered.get(name, accepted.get(name, [(None, None)])[0][1]).where if (name in covered or name in accepted) else 'schema', 'accepted by a module')
        else:
            ctx.bad('Y1', f'request-extra:{name}', 'src/geophires_x_schema_generator/geophires-request.json',
                    f'{name!r} is published but no module the simulator can instantiate (nor a generator source) registers it')
    # Y2: declarations vs JSON
    n2 = redefined = 0
    for name, js in props.items():
        decls = [d for _, d in accepted.get(name, [])]
        if name in covered and covered[name] not in decls:
            decls.append(covered[name])
        uniq: List[Decl] = []
        for d in decls:
            if not any(d.node is u.node for u in uniq):
                uniq.append(d)
        if not uniq:
            continue
        if all(_same_decl(reg, uniq[0], u) for u in uniq[1:]):
            n2 += 1
            _compare(ctx, reg, name, covered.get(name, uniq[0]), js, required, 'request')
        else:
            redefined += 1
            ctx.info(f'Y2 {name!r}: redefined differently in {sorted({u.owner for u in uniq})}; excluded as the property says')
    ctx.analysed['request_properties'] = len(props)
    ctx.analysed['compared_parameters'] = n2
    ctx.analysed['redefined_excluded'] = redefined
    ctx.analysed['generator_sources'] = src_classes
    ctx.floor('Y2', n2, 180, 'parameters compared')


def _group_by_class(decls: List[Decl]) -> List[List[Decl]]:
    groups: List[List[Decl]] = []
    for d in decls:
        if groups and groups[-1][0].owner == d.owner:
            groups[-1].append(d)
        else:
            groups.append([d])
    return groups


def check_hip(ctx) -> None:
    repo = ctx.repo
    reg = get_registry(repo)
    schema = _load(ctx, 'hip-ra-x-request.json')
    props = schema.get('properties', {})
    required = schema.get('required', [])
    decls = {d.name: d for d in reg.class_decls('HIP_RA_X') if d.is_input and isinstance(d.name, str)}
    ctx.floor('Y1', len(decls), 15, 'HIP-RA-X input declarations')
    for name, d in decls.items():
        ctx.check(name in props, 'Y1', f'hip-request-missing:{name}', d.where,
                  f'HIP-RA-X accepts {name!r} but hip-ra-x-request.json does not list it')
    for name, js in props.items():
        if name not in decls:
            ctx.bad('Y1', f'hip-request-extra:{name}', 'src/geophires_x_schema_generator/hip-ra-x-request.json',
                    f'{name!r} is published but HIP-RA-X does not register it')
        else:
            _compare(ctx, reg, name, decls[name], js, required, 'hip-request')


def check_result(ctx) -> None:
    schema = _load(ctx, 'geophires-result.json')
    table = result_fields(ctx.repo)
    props = schema.get('properties', {})
    cats_s, cats_t = list(props), list(table)
    ctx.check(cats_s == cats_t, 'Y4', 'result-categories', 'src/geophires_x_client/geophires_x_result.py',
              f'result schema categories {[c for c in cats_s if c not in cats_t]} / client categories '
              f'{[c for c in cats_t if c not in cats_s]} differ', fact=f'{len(cats_t)} categories')
    n = 0
    for cat in cats_t:
        want = [f for f, _ in table[cat]]
        have = list(props.get(cat, {}).get('properties', {}))
        n += len(want)
        miss = [f for f in want if f not in have]
        extra = [f for f in have if f not in want]
        ctx.check(not miss and not extra, 'Y4', f'result-fields:{cat}', 'src/geophires_x_schema_generator/geophires-result.json',
                  f'category {cat!r}: client extracts {miss} not in the schema; schema names {extra} the client cannot extract',
                  fact=f'{len(want)} fields')
    ctx.analysed['result_fields'] = n
    ctx.floor('Y4', n, 200, 'result fields')


def check_result_entries(ctx) -> None:
    """Y6: the generator fills a result field's entry from the output declaration whose Name (or, with priority, display_name) equals
    the field name, over its parameter sources in order (later sources replace earlier ones).  The committed entry must be that:
    units = the declaration's CurrentUnits text, description = its ToolTipText (prefixed by `<Name>. ` for a display-name match),
    and an empty entry exactly when no declaration matches."""
    repo = ctx.repo
    reg = get_registry(repo)
    schema = _load(ctx, 'geophires-result.json')
    table = result_fields(repo)
    sources = _sources(ctx)
    by_name: Dict[str, Decl] = {}
    by_display: Dict[str, Decl] = {}
    for cn, _cat in sources:
        for d in reg.class_decls(cn):
            if d.dict_name != 'OutputParameterDict' or not isinstance(d.name, str):
                continue
            key = d.name
            if d.key_attr is not None and d.key_attr != d.attr:
                other = reg.find(cn, d.key_attr)
                key = other.name if other is not None and isinstance(other.name, str) else d.name
            by_name[key] = d
    for key, d in by_name.items():
        dn = d.get('display_name')
        if isinstance(dn, str) and dn not in ('',) and dn != key:
            by_display[dn] = d
    n = 0
    for cat, fields in table.items():
        props = schema.get('properties', {}).get(cat, {}).get('properties', {})
        for fname, _kind in fields:
            if fname not in props:
                continue                      # Y4 reports missing fields
            have = props[fname]
            d = by_display.get(fname) or by_name.get(fname)
            key = f'result-entry:{cat}/{fname}'
            where = 'src/geophires_x_schema_generator/geophires-result.json'
            n += 1
            if d is None:
                ctx.check(have == {}, 'Y6', key, where,
                          f'the committed entry {str(have)[:80]} describes an output although no output declaration of the generator\'s sources is '
                          f'named `{fname}`: the generator would emit an empty entry', fact='no matching output: empty entry')
                continue
            cu = d.get('CurrentUnits') or d.get('PreferredUnits')
            want_units = reg.enums.enums.get(cu.enum, {}).get(cu.member) if isinstance(cu, EnumRef) else None
            if not isinstance(want_units, str):
                want_units = None
            tip = d.get('ToolTipText')
            tip = tip if isinstance(tip, str) else None
            if fname in by_display and by_display[fname] is d and d.name != fname:
                want_desc = f'{d.name}. {tip}' if tip else d.name
            else:
                want_desc = tip if tip is not None else None
            problems = []
            if have == {}:
                problems.append('entry is empty')
            else:
                if have.get('units') != want_units:
                    problems.append(f'units {have.get("units")!r} != declared {want_units!r}')
                if want_desc is not None and have.get('description') != want_desc and not isinstance(d.get('ToolTipText'), Unfolded):
                    problems.append(f'description {str(have.get("description"))[:50]!r} != {want_desc[:50]!r}')
            ctx.check(not problems, 'Y6', key, where,
                      f'`{fname}` is filled by the generator from {d.owner}.{d.attr} ({d.where}) but the committed entry differs: '
                      f'{"; ".join(problems)} - the committed result schema is not the generated one', fact=f'from {d.owner}.{d.attr}')
    ctx.floor('Y6', n, 200, 'result schema entries')


def check_value_rewrites(ctx) -> None:
    """Y8: the schema publishes a parameter's domain; reader special cases must not replace one accepted value by another.  A store
    `ParameterToModify.value = <Enum>.<M>` under a guard `ParameterToModify.value == <Enum>.<M2>` (M2 != M) rewrites an accepted
    value unless the guard cannot hold (a conjunct compares the same value with members of another enumeration)."""
    repo = ctx.repo
    reg = get_registry(repo)
    n = 0
    for f in repo.all_functions():
        if f.name != 'read_parameters':
            continue
        for node in ast.walk(f.node):
            if not isinstance(node, ast.If):
                continue
            stores = [st for st in node.body if isinstance(st, ast.Assign) and norm(st.targets[0]).endswith('.value') and
                      isinstance(st.value, ast.Attribute) and isinstance(st.value.value, ast.Name) and st.value.value.id in reg.enums.enums]
            if not stores:
                continue
            st = stores[0]
            tgt = norm(st.targets[0])
            en, mem = st.value.value.id, st.value.attr
            eqs = [c for c in ast.walk(node.test) if isinstance(c, ast.Compare) and len(c.ops) == 1 and isinstance(c.ops[0], ast.Eq) and
                   norm(c.left) == tgt and isinstance(c.comparators[0], ast.Attribute) and norm(c.comparators[0].value) == en and
                   c.comparators[0].attr != mem]
            if not eqs:
                continue
            n += 1
            dead = False
            for c in ast.walk(node.test):
                if isinstance(c, ast.Compare) and len(c.ops) == 1 and isinstance(c.ops[0], ast.In) and norm(c.left) == tgt and \
                        isinstance(c.comparators[0], (ast.List, ast.Tuple)):
                    others = {norm(e.value) for e in c.comparators[0].elts if isinstance(e, ast.Attribute)}
                    if others and en not in others:
                        dead = True        # the value would have to be a member of two different enumerations at once
            key = f'{f.qualname}/{tgt}:{en}.{eqs[0].comparators[0].attr}->{mem}/accepted-value-not-rewritten'
            ctx.check(dead, 'Y8', key, f'{f.module.rel}:{st.lineno}',
                      f'`{norm(st)}` under `{norm(node.test)[:90]}` replaces the accepted value {en}.{eqs[0].comparators[0].attr} by {en}.{mem}: the '
                      f'schema publishes that value as valid, the simulator silently runs another one', fact='guard cannot hold (type-inconsistent conjunct)')
    ctx.analysed['reader_value_rewrite_sites'] = n


def check_unit_pairing(ctx) -> None:
    """Y5: the unit attribute the schema publishes is the unit the reader converts unit-suffixed inputs into (and in
    which the bounds are therefore enforced)."""
    repo = ctx.repo
    gen = repo.method('GeophiresXSchemaGenerator', 'generate_json_schema')
    pub = None
    # what is stored under the key 'units' of a schema entry, read through named intermediates
    from gxstat.inline import enclosing_stmt, inline_sequential
    for dct in ast.walk(gen.node):
        if isinstance(dct, ast.Dict):
            for k, v in zip(dct.keys, dct.values):
                if isinstance(k, ast.Constant) and k.value == 'units':
                    ve = inline_sequential(v, enclosing_stmt(dct), cross_loops=True)
                    keys = {c.slice.value for c in ast.walk(ve) if isinstance(c, ast.Subscript) and isinstance(c.slice, ast.Constant)
                            and isinstance(c.slice.value, str)}
                    if len(keys) == 1 and pub is None:
                        pub = keys.pop()
    ctx.require(pub is not None, 'generate_json_schema: the attribute published as `units` was not found')
    cu = repo.function('geophires_x/Parameter.py', 'ConvertUnits')
    conv = [c for c in ast.walk(cu.node) if isinstance(c, ast.Call) and isinstance(c.func, ast.Attribute) and c.func.attr in ('ito', 'to')
            and c.args and isinstance(c.func.value, ast.Name) and c.func.value.id.startswith('New_val')]
    ctx.require(len(conv) >= 1, 'ConvertUnits: pint conversion call not found')
    n = 0
    for c in conv:
        tgt = c.args[0]
        attrs = set()
        exprs = [tgt]
        if isinstance(tgt, ast.Name):
            exprs = [st.value for st in ast.walk(cu.node) if isinstance(st, ast.Assign) and norm(st.targets[0]) == tgt.id]
        for e in exprs:
            for a in ast.walk(e):
                if isinstance(a, ast.Attribute) and a.attr in ('CurrentUnits', 'PreferredUnits') and norm(a.value) == 'ParamToModify':
                    attrs.add(a.attr)
        n += 1
        ctx.check(attrs == {pub}, 'Y5', 'ConvertUnits/conversion-target=published-unit', f'{cu.module.rel}:{c.lineno}',
                  f'unit-suffixed inputs are converted into the parameter\'s {sorted(attrs)} but the schema publishes {pub!r} as the unit (and '
                  f'Min/Max are enforced on the converted number): for a parameter whose two unit attributes differ the published unit and '
                  f'bounds are not the enforced ones', fact=f'reader converts into {pub}, schema publishes {pub}')
    # which parameters would be affected: declarations with CurrentUnits != PreferredUnits (informational table)
    reg = get_registry(repo)
    diff = [f'{d.owner}.{d.attr}' for d in reg.inputs() if isinstance(d.get('CurrentUnits'), EnumRef) and isinstance(d.get('PreferredUnits'), EnumRef)
            and d.get('CurrentUnits') != d.get('PreferredUnits')]
    ctx.tables['inputs_with_current_units_differing_from_preferred'] = diff[:20]


def run(ctx) -> None:
    ctx.rule('Y9', 'default values are fresh objects per instance (C08 P3): the published default cannot be changed by an earlier run')
    ctx.rule('Y8', 'no reader special case replaces one accepted enumeration value by another (unless its guard cannot hold)')
    ctx.rule('Y7', 'every result field of the schema / client table is printed by some report writer, except the frozen legacy labels (C10 X6)')
    ctx.rule('Y6', 'each committed result-schema entry is what the generator derives from the output declaration named like the field (units, description), empty iff none')
    ctx.rule('Y5', 'the unit attribute published by the generator is the one ConvertUnits converts unit-suffixed inputs into')
    ctx.rule('Y1', 'request schema properties = union of the input parameters registered by the classes the simulator can '
                   'instantiate (none missing, none extra)')
    ctx.rule('Y2', 'for every parameter declared identically wherever it is declared: schema type/default/minimum/maximum/units/'
                   'required equal the constant-folded declaration that ReadParameter enforces (numeric tolerance 1e-5)')
    ctx.rule('Y3', 'every input-bearing class Model can instantiate is among the generator\'s parameter sources')
    ctx.rule('Y4', 'result-schema categories and fields equal the client\'s _RESULT_FIELDS_BY_CATEGORY')
    check_geophires(ctx)
    check_hip(ctx)
    check_result(ctx)
    check_result_entries(ctx)
    check_value_rewrites(ctx)
    # Y9: the published default is the default of every run: a DefaultValue object shared between instances is edited in place by the
    # readers, after which the generator (same process) publishes - and the next run uses - the previous run's values (C08 P3)
    from gxstat.runner import Renamed
    from rules.c08 import check_p3
    check_p3(Renamed(ctx, {'P3': 'Y9'}, key_filter=lambda k: 'DefaultValue' in k or 'fresh' in k))
    ctx.rule('Y10', 'what a schema generator publishes is computed from its own parameter sources on every call: the generator classes keep no '
                    'class-level state written at run time (a cache on the base class hands one generator\'s parameters to its sibling) (C08 P2)')
    from rules.c08 import check_p2 as _p2
    _n0 = len(ctx.obligations)
    _p2(Renamed(ctx, {'P2': 'Y10'}, key_filter=lambda k: 'class-attribute-store' in k or k.endswith('/memoised')))
    _keep = [o for o in ctx.obligations[_n0:] if 'schema_generator' in o['where']]
    del ctx.obligations[_n0:]
    ctx.obligations.extend(_keep)
    if not _keep:
        ctx.ok('Y10', 'schema-generators/no-class-level-state', 'src/geophires_x_schema_generator/', 'no class-attribute store, no memoised method')
    # Y7: "every result field named in the result schema is one the client can extract from a report": some writer prints its label (C10 X6)
    from gxstat.report import writer_templates
    from gxstat.runner import Renamed
    from rules.c10 import check_x1_x2
    check_x1_x2(Renamed(ctx, {'X6': 'Y7'}, key_filter=lambda k: True), writer_templates(ctx.repo))
    check_unit_pairing(ctx)
    ctx.exhaustive = True
    ctx.undecided('"committed = generated" is a baseline test (needs the generator to run); here both are tied to what is enforced')
