"""C09 -- the case report states what was computed.

W1 value / unit object agreement on every `label: value unit` line (and the unit label follows conversion),
W2 label / quantity agreement (registry-named labels; literal labels cross-checked with the sibling rich writer),
W4 profile loops: exactly one row per simulated (and construction) year, consistent index strides, aligned headers,
W5 the report is produced after the calculation (single pipeline, see C20), W6 N/A rendering of the payback period."""
from __future__ import annotations

import ast
import re
from typing import Dict, List, Optional, Set, Tuple

from gxstat.algebra import Rat, Translator, Unsupported
from gxstat.atoms import AtomResolver
from gxstat.registry import get_registry
from gxstat.report import Template, WILD, writer_templates
from gxstat.srcmodel import AnalysisError, calls_in, dotted_name, norm, parent

L = 'model.surfaceplant.plant_lifetime.value'
C = 'model.surfaceplant.construction_years.value'
TSPY = 'model.economics.timestepsperyear.value'
INFO_ONLY = ('AGSOutputs',)          # AGS cannot run offline: deviations there are informational
# "calc mirrors input" pairs: the calculated copy is printed with the unit object of the input it mirrors (same unit by construction)
MIRROR = {'fracheightcalc': 'fracheight', 'fracwidthcalc': 'fracwidth', 'fracareacalc': 'fracarea', 'fracsepcalc': 'fracsep',
          'fracnumbcalc': 'fracnumb', 'resvolcalc': 'resvol'}


# lines whose value is a derived quantity labelled with the unit object of another parameter of the right unit (read and confirmed)
DERIVED_UNIT_OK = {
    ('Average Annual Geothermal Heat Production', 'dh_geothermal_heating', 'annual_heating_demand'):
        'sum over days of MW x 24 h / lifetime / 1e3 = GWh/yr, labelled with the annual demand\'s GWh/year',
    ('Average Annual Peaking Fuel Heat Production', 'dh_natural_gas_heating', 'annual_heating_demand'):
        'same derivation for the peaking boiler',
}

# same quantity under two attribute names (confirmed by reading), one line of reason each
SIBLING_EQUIV = {
    'Interest Rate': {'interest_rate', 'discountrate'},      # interest_rate := discountrate converted to % (Economics.sync_interest_rate)
}


def _attr(path: str) -> str:
    return path.split('.')[-1] if path else ''


def _is_output(reg, res: AtomResolver, obj: str) -> Optional[bool]:
    d = res.decl(obj + '.value')
    if d is None:
        return None
    return not d.is_input


def _objects(node: ast.AST, t: Template) -> Set[str]:
    out = set()
    for n in ast.walk(node):
        if isinstance(n, ast.Attribute) and n.attr == 'value':
            d = dotted_name(n)
            if d:
                parts = d.split('.')
                if parts[0] in t.aliases:
                    parts = t.aliases[parts[0]].split('.') + parts[1:]
                out.add('.'.join(parts[:-1]))
    return out


def _directive_reaches(reg, res: AtomResolver, obj: str) -> bool:
    """A `Units:<Name>` request converts this very object: it is registered in its owner's OutputParameterDict under its own
    Name and no other declaration of the owner (or its bases) is registered under the same key."""
    d = res.decl(obj + '.value')
    if d is None or d.dict_name != 'OutputParameterDict' or not isinstance(d.name, str):
        return False
    if d.key_attr != d.attr:
        return False
    role = obj.split('.')[1] if obj.startswith('model.') and obj.count('.') >= 2 else None
    if role is not None and role not in _converted_roles(res.repo):
        return False
    same_key = [x for x in reg.decls if x.dict_name == 'OutputParameterDict' and x is not d and x.owner == d.owner and
                ((x.key_attr == d.attr) or (x.name == d.name and x.key_attr == x.attr))]
    return not same_key


_ROLES_CACHE: Dict[int, Set[str]] = {}


def _converted_roles(repo) -> Set[str]:
    """Model roles whose OutputParameterDict is visited by Outputs._convert_units (read from its `for obj in [...]` list)."""
    if id(repo) not in _ROLES_CACHE:
        f = repo.method('Outputs', '_convert_units', 'geophires_x/Outputs.py')
        roles: Set[str] = set()
        from gxstat.inline import inline_sequential
        for lp in ast.walk(f.node):
            it = inline_sequential(lp.iter, lp, cross_loops=True) if isinstance(lp, ast.For) and isinstance(lp.iter, ast.Name) else getattr(lp, 'iter', None)
            if isinstance(lp, ast.For) and isinstance(it, (ast.List, ast.Tuple)) and any('OutputParameterDict' in norm(x) for x in ast.walk(lp)):
                for e in it.elts:
                    d = dotted_name(e)
                    if d and d.startswith('model.'):
                        roles.add(d.split('.')[1])
            # parts appended to the list before the loop (`parts.append(model.sdacgteconomics)`) are converted as well
            if isinstance(lp, ast.For) and isinstance(lp.iter, ast.Name):
                for c_ in ast.walk(f.node):
                    if isinstance(c_, ast.Call) and isinstance(c_.func, ast.Attribute) and c_.func.attr in ('append', 'extend') and \
                            isinstance(c_.func.value, ast.Name) and c_.func.value.id == lp.iter.id:
                        for a_ in ast.walk(c_):
                            d = dotted_name(a_) if isinstance(a_, ast.Attribute) else None
                            if d and d.startswith('model.') and d.count('.') == 1:
                                roles.add(d.split('.')[1])
        if not roles:
            raise AnalysisError('Outputs._convert_units: list of converted model parts not found')
        _ROLES_CACHE[id(repo)] = roles
    return _ROLES_CACHE[id(repo)]


# directive-reachable PreferredUnits sites for which no failing input could be produced against the real program (tools/triage_w1.py);
# they are reported as INFO, one reason each
UNWITNESSED = {
    'OutputsAddOns/Adjusted Project LCOH (after incentives, grants, AddOns,etc)/value=LCOH': 'value is 0.00 in the runnable add-on example: conversion invisible',
    'Outputs/Initial geofluid availability/value=Availability': 'no alternative unit in the catalogue for MW/(kg/s)',
    'Outputs/Maximum Daily District Heating Demand/value=daily_heating_demand': 'no alternative unit in the catalogue for MWh/day',
    'Outputs/Average Daily District Heating Demand/value=daily_heating_demand': 'no alternative unit in the catalogue for MWh/day',
    'Outputs/Minimum Daily District Heating Demand/value=daily_heating_demand': 'no alternative unit in the catalogue for MWh/day',
    'Outputs/Minimum Peaking Boiler Heat Production/value=dh_natural_gas_heating': 'value is 0.00 in the runnable example: conversion invisible',
    'SUTRAOutputs/Average RTES Heating Production/value=HeatProduced': 'directive had no visible effect in SUTRAExample1',
    'SUTRAOutputs/Average Annual Electricity Use for Pumping/value=PumpingkWh': 'directive had no visible effect in SUTRAExample1',
}


def check_w1_w2(ctx, templates: List[Template]) -> None:
    repo = ctx.repo
    reg = get_registry(repo)
    n1 = n2 = 0
    for t in templates:
        if t.loops:
            continue
        vals, units = t.values(), t.units()
        cls = t.fn.cls.name
        res = AtomResolver(repo, cls)
        label = (t.label or t.text().replace(WILD, ' ').strip()[:40]).strip() or '(label from a variable)'
        info = cls in INFO_ONLY
        # ---- W2: label taken from the registry (X.display_name / X.Name) => the value printed is X.value
        labs = [s for s in t.segs if s.kind == 'label' and s.obj]
        if labs and vals:
            n2 += 1
            lo = labs[0].obj
            vo = vals[0].obj
            ok = vo == lo or _attr(vo) == _attr(lo)
            key = f'{cls}/{label}/label-object={_attr(lo)}'
            if not ok and info:
                ctx.info(f'W2 {t.where} {key}: value printed is {vo}')
            else:
                ctx.check(ok, 'W2', key, t.where,
                          f'the line is labelled with the name of {lo} but prints `{vals[0].text[:60]}`: the figure is not the quantity named',
                          fact=f'label and value from {_attr(lo)}')
        if not vals or not units:
            continue
        # pair each unit hole with the nearest preceding value hole
        last_val = None
        for s in t.segs:
            if s.kind == 'value':
                last_val = s
            elif s.kind == 'unit' and last_val is not None and last_val.obj:
                n1 += 1
                vo, uo = last_val.obj, s.obj
                objs = _objects(last_val.node, t) if last_val.node is not None else {vo}
                if uo in objs:
                    vo = uo
                va, ua = _attr(vo), _attr(uo)
                key = f'{cls}/{label}/value={va}'
                same = vo == uo or (MIRROR.get(va) == ua and vo.rsplit('.', 1)[0] == uo.rsplit('.', 1)[0])
                if not same:
                    # two different objects: acceptable only while both are declared with the same unit (the label is then right
                    # unless one of them is converted; listed in the evidence)
                    dv, du = res.decl(vo + '.value'), res.decl(uo + '.value')
                    if dv is not None and du is not None and res.unit_string(dv) is not None and res.unit_string(dv) == res.unit_string(du):
                        ctx.ok('W1', key + f'/unit-of:{ua}(same-declared-unit)', t.where, f'{va} and {ua} both declared in {res.unit_string(dv)}')
                        continue
                if not same and (label, va, ua) in DERIVED_UNIT_OK:
                    ctx.ok('W1', key + f'/unit-of:{ua}(derived)', t.where, DERIVED_UNIT_OK[(label, va, ua)])
                    continue
                if not same:
                    msg = (f'`{label}` prints {va} with the unit label of another object ({ua}): when either quantity is shown in another '
                           f'unit (Units: directive / unit-suffixed input) the number and its unit no longer denote the computed quantity')
                    if info:
                        ctx.info(f'W1 {t.where} {key}/unit-of:{ua}: {msg}')
                    else:
                        ctx.bad('W1', key + f'/unit-of:{ua}', t.where, msg)
                    continue
                out = _is_output(reg, res, vo)
                if s.which == 'PreferredUnits' and out and _directive_reaches(reg, res, vo):
                    msg = (f'`{label}` labels the output {va} with its PreferredUnits; a `Units:{va}` request converts the value and '
                           f'CurrentUnits but the label keeps the preferred unit')
                    if info or key in UNWITNESSED:
                        ctx.info(f'W1 {t.where} {key}/label=PreferredUnits: {msg}' + (f' [unwitnessed: {UNWITNESSED[key]}]' if key in UNWITNESSED else ''))
                    else:
                        ctx.bad('W1', key + '/label=PreferredUnits', t.where, msg)
                    continue
                ctx.ok('W1', key, t.where, f'{va} with its own {s.which}')
    ctx.floor('W1', n1, 120, 'value/unit pairs')
    ctx.floor('W2', n2, 5, 'registry-labelled lines')
    ctx.analysed['value_unit_pairs'] = n1


def rich_items(repo) -> Dict[str, List[Tuple[str, ast.Call]]]:
    """label -> [(primary object of the value expression, call)] from OutputsRich.OutputTableItem(label, value, unit)."""
    mi = repo.module('geophires_x/OutputsRich.py')
    from gxstat.report import Flattener
    f = mi.functions.get('print_outputs_rich')
    if f is None:
        raise AnalysisError('OutputsRich.print_outputs_rich not found')
    fl = Flattener(repo, f, {}, {})
    out: Dict[str, List[Tuple[str, ast.Call]]] = {}
    for c in calls_in(f.node):
        if dotted_name(c.func) == 'OutputTableItem' and len(c.args) >= 2:
            a0 = c.args[0]
            if isinstance(a0, ast.Name):            # a label held in a local (`label = 'Project IRR'`)
                from gxstat.inline import enclosing_stmt, inline_sequential
                a0 = inline_sequential(a0, enclosing_stmt(c))
            lab = fl.fold_str(a0) if not isinstance(a0, ast.JoinedStr) else None
            if lab is None and isinstance(a0, ast.Attribute):
                lab = fl.resolve_label(norm(a0))
            if lab is None:
                continue
            out.setdefault(lab.strip(), []).append((fl.primary_obj(c.args[1]), c))
    return out


def check_sibling(ctx, templates: List[Template]) -> None:
    """Literal labels: the text writer and the rich writer print the same quantity under the same label."""
    repo = ctx.repo
    rich = rich_items(repo)
    ctx.floor('W2', len(rich), 100, 'rich-writer items')
    text: Dict[str, List[Template]] = {}
    for t in templates:
        if t.fn.cls.name != 'Outputs' or t.loops or not t.values() or not t.label:
            continue
        text.setdefault(t.label, []).append(t)
    shared = 0
    for lab, ts in sorted(text.items()):
        if lab not in rich:
            continue
        robjs = {_attr(o) for o, _ in rich[lab] if o}
        robjs |= SIBLING_EQUIV.get(lab, set())
        if not robjs:
            continue
        for t in ts:
            to = _attr(t.values()[0].obj)
            if not to:
                continue
            shared += 1
            key = f'Outputs/{lab}@{to}/sibling-writer-agrees'
            ctx.check(to in robjs, 'W2', key, t.where,
                      f'the text report prints {to} under `{lab}` while the sibling rich/HTML writer prints {sorted(robjs)} under the same label: '
                      f'one of the two does not state the computed quantity', fact=f'both print {to}')
    # and the other way round: every item the rich/HTML writer prints under a shared label shows an object the text report shows there
    rev = 0
    for lab, items in sorted(rich.items()):
        if lab not in text:
            continue
        tobjs = {_attr(t.values()[0].obj) for t in text[lab] if t.values()[0].obj} | SIBLING_EQUIV.get(lab, set())
        if not tobjs:
            continue
        for o, c in items:
            if not o:
                continue
            rev += 1
            ro = _attr(o)
            ctx.check(ro in tobjs, 'W2', f'OutputsRich/{lab}@{ro}/agrees-with-text-report', f'src/geophires_x/OutputsRich.py:{c.lineno}',
                      f'the rich/HTML writer prints {ro} under `{lab}` while the text report prints {sorted(tobjs)} under that label: the '
                      f'HTML report does not state the computed quantity', fact=f'both print {ro}')
    ctx.analysed['labels_shared_with_rich_writer'] = shared
    ctx.analysed['rich_items_checked_against_text'] = rev
    ctx.floor('W2', shared, 80, 'labels shared with the sibling writer')


def _affine(node: ast.AST, var: str) -> Optional[Tuple[Rat, Rat]]:
    """index = a*var + b ; returns (a, b) as Rats over symbols."""
    try:
        r = Translator(atom_of=lambda n: {L: 'L', C: 'C', TSPY: 'tspy'}.get(norm(n))).tr(node)
    except Unsupported:
        return None
    if not r.d.is_const():
        return None
    a = Rat(r.n.coefficient_of(var), r.d)
    b = Rat(r.n.subst_zero(var), r.d)
    if not (a * Rat.atom(var) + b).equals(r):
        return None
    return a, b


def check_profiles(ctx, templates: List[Template]) -> None:
    repo = ctx.repo
    by_loop: Dict[int, List[Template]] = {}
    for t in templates:
        if t.loops and t.values():
            by_loop.setdefault(id(t.loops[-1]), []).append(t)
    n = 0
    strides: Dict[str, Set[str]] = {}
    sites: Dict[str, List[Tuple[str, Template]]] = {}
    for lid, ts in by_loop.items():
        lp = ts[0].loops[-1]
        cls = ts[0].fn.cls.name
        rel = ts[0].fn.module.rel
        if not (isinstance(lp.iter, ast.Call) and dotted_name(lp.iter.func) == 'range' and isinstance(lp.target, ast.Name)):
            continue
        var = lp.target.id
        tr = Translator(atom_of=lambda n_: {L: 'L', C: 'C', TSPY: 'tspy'}.get(norm(n_)))
        # a local bound exactly once to a plain attribute path (`construction_years = model.surfaceplant.construction_years.value`) is that path
        from gxstat.inline import inline_sequential as _inl4
        try:
            args = [tr.tr(_inl4(a, lp, cross_loops=True) if any(isinstance(x, ast.Name) for x in ast.walk(a)) else a) for a in lp.iter.args]
        except Unsupported:
            continue
        start, stop = (Rat.const(0), args[0]) if len(args) == 1 else (args[0], args[1])
        step = args[2] if len(args) == 3 else Rat.const(1)
        # only year loops: stop mentions L
        if 'L' not in stop.atoms():
            continue
        n += 1
        head = _section_of(ts[0])
        key = f'{cls}/{head}/rows'
        Ls, Cs = Rat.atom('L'), Rat.atom('C')
        ok = start.equals(Rat.const(0)) and step.equals(Rat.const(1)) and (stop.equals(Ls) or stop.equals(Ls + Cs))
        msg = (f'profile `{head}` prints rows for {var} in [{start.show()}, {stop.show()}): exactly one row per simulated year [0, L) - or per '
               f'construction + simulated year [0, L + C) - is required')
        info = cls in INFO_ONLY
        if not ok and info:
            ctx.info(f'W4 {rel}:{lp.lineno} {key}: {msg}')
        else:
            ctx.check(ok, 'W4', key, f'{rel}:{lp.lineno}', msg, fact=f'[0, {stop.show()})')
        # project-length tables must show project-length series; which length is right is decided by the series printed
        # index forms of the series in the row
        for t in ts:
            for v in t.values():
                if v.node is None:
                    continue
                for sub in [x for x in ast.walk(v.node) if isinstance(x, ast.Subscript)]:
                    base = dotted_name(sub.value)
                    if not base or not base.endswith('.value'):
                        continue
                    base = '.'.join(ts[0].aliases.get(p, p) if i == 0 else p for i, p in enumerate(base.split('.')))
                    if var not in {x.id for x in ast.walk(sub.slice) if isinstance(x, ast.Name)}:
                        continue            # constant index (e.g. normalisation by the first element)
                    af = _affine(sub.slice, var)
                    if af is None:
                        continue
                    a, b = af
                    sname = base[:-len('.value')]
                    stride = a.show()
                    strides.setdefault(sname, set()).add(stride)
                    sites.setdefault(sname, []).append((stride, t))
                    okb = b.is_zero()
                    if not okb and not info:
                        ctx.bad('W4', f'{cls}/{head}/{_attr(sname)}/index-offset', t.where,
                                f'series {_attr(sname)} is read at {var} x {stride} + {b.show()} in a table whose rows are years {var}: the row shows '
                                f'another year\'s value')
    ctx.floor('W4', n, 12, 'profile year loops')
    # stride consistency per series and per class of series
    for sname, st in sorted(strides.items()):
        owner = sname.split('.')[1] if sname.startswith('model.') else ''
        a = _attr(sname)
        annual = owner in ('economics', 'addeconomics', 'sdacgteconomics') or 'kWh' in a or 'kwh' in a or a.startswith('annual_') or \
            a in ('RemainingReservoirHeatContent', 'util_factor_array', 'annual_ng_demand', 'CarbonThatWouldHaveBeenProducedAnnually')
        want = '1' if annual else 'tspy'
        bad_sites = [(s_, t) for s_, t in sites[sname] if s_ != want and t.fn.cls.name not in INFO_ONLY]
        for s_, t in bad_sites:
            ctx.bad('W4', f'{t.fn.cls.name}/{_section_of(t)}/{a}/stride', t.where,
                    f'{"annual/project" if annual else "per-time-step"} series {a} is indexed with stride {s_} per table row; '
                    f'{"one element per year (stride 1)" if annual else "year starts are every timestepsperyear elements (stride tspy)"} is required')
        if not bad_sites:
            ctx.ok('W4', f'series/{a}/stride={want}', sites[sname][0][1].where, f'{len(sites[sname])} uses')
    ctx.analysed['profile_series'] = len(strides)
    ctx.floor('W4', len(strides), 25, 'series read in profile rows')
    # year column: first hole is the loop variable (+1)
    for lid, ts in by_loop.items():
        lp = ts[0].loops[-1]
        if not isinstance(lp.target, ast.Name):
            continue
        var = lp.target.id
        for t in ts:
            vs = t.values()
            if len(vs) >= 3 and vs[0].node is not None and t.fn.cls.name not in INFO_ONLY:
                first = norm(vs[0].node).replace(' ', '')
                if var in first:
                    ctx.check(first in (var, f'{var}+1'), 'W4', f'{t.fn.cls.name}/{_section_of(t)}/year-column', t.where,
                              f'year column prints `{first}`; rows are years in order ({var} or {var}+1)')
                    break


def _section_of(t: Template) -> str:
    """Name of the report section a template belongs to: the nearest preceding starred header line in the same function."""
    best = ''
    for c in calls_in(t.fn.node):
        if c.lineno >= t.call.lineno:
            break
        if isinstance(c.func, ast.Attribute) and c.func.attr == 'write' and c.args:
            txt = norm(c.args[0])
            m = re.search(r"\*\s{1,3}([A-Z][A-Z0-9 ,&/()\-]{6,})\s{1,3}\*", txt)
            if m:
                best = m.group(1).strip()
    return best or f'line{t.call.lineno}'


def check_adjacent_holes(ctx, templates: List[Template], rule: str = 'W4') -> None:
    """Two adjacent cells of a table row must be separated by literal whitespace (a wide value cannot merge columns)."""
    n = 0
    for t in templates:
        if not t.loops or len(t.values()) < 4 or t.fn.cls.name in INFO_ONLY:
            continue
        n += 1
        prev = None
        merged = []
        for s in t.segs:
            if s.kind == 'value' and prev is not None and prev.kind == 'value':
                merged.append((prev.text[:30], s.text[:30]))
            prev = s
        ctx.check(not merged, rule, f'{t.fn.cls.name}/{_section_of(t)}/cells-separated@{len(t.values())}', t.where,
                  f'cells {merged[:2]} are adjacent with no literal blank between them: a value wider than its field merges with its neighbour '
                  f'and every later column of that row shifts', fact='literal whitespace between all cells')
    ctx.floor(rule, n, 10, 'table row templates')


ANTONYMS = [('injection', 'inj', 'production', 'prod')]
STAT_WORDS = {'Maximum': ('np.max', 'max', 'np.amax', 'np.nanmax'), 'Minimum': ('np.min', 'min', 'np.amin', 'np.nanmin'),
              'Average': ('np.average', 'np.mean', 'np.nanmean', 'sum'), 'Initial': ('[0]',)}


def check_label_lexicon(ctx, templates: List[Template]) -> None:
    """Label words that name which quantity / which statistic is printed must agree with the value expression."""
    n = 0
    for t in templates:
        if t.loops or not t.values() or not t.label or t.fn.cls.name in INFO_ONLY:
            continue
        lab = t.label
        low = lab.lower()
        v = t.values()[-1] if len(t.values()) == 1 else t.values()[0]
        vt = v.text
        objs = {_attr(o).lower() for o in (_objects(v.node, t) if v.node is not None else set())}
        for w1, k1, w2, k2 in ANTONYMS:
            for wa, ka, wb, kb in ((w1, k1, w2, k2), (w2, k2, w1, k1)):
                if wa in low and wb not in low and objs:
                    n += 1
                    wrong = [o for o in objs if kb in o and ka not in o]
                    ctx.check(not wrong, 'W2', f'{t.fn.cls.name}/{lab}/names-{wa}', t.where,
                              f'the line labelled `{lab}` prints {sorted(objs)}: a {wb} quantity under a {wa} label', fact=f'{wa} label, {sorted(objs)}')
        first = lab.split()[0] if lab.split() else ''
        if first in STAT_WORDS and v.node is not None:
            calls = {dotted_name(c.func) for c in ast.walk(v.node) if isinstance(c, ast.Call)} - {None}
            allstats = {f_ for fs in STAT_WORDS.values() for f_ in fs if f_ != '[0]'}
            has_sub0 = any(isinstance(s_, ast.Subscript) and norm(s_.slice) == '0' for s_ in ast.walk(v.node))
            if not (calls & allstats) and not has_sub0:
                continue            # a scalar that already holds the statistic: nothing to compare
            n += 1
            if first == 'Initial':
                ok = any(isinstance(s_, ast.Subscript) and norm(s_.slice) == '0' for s_ in ast.walk(v.node))
            else:
                ok = bool(calls & set(STAT_WORDS[first]))
                others = {w for w, fs in STAT_WORDS.items() if w not in (first, 'Initial') and calls & set(fs) - set(STAT_WORDS[first])}
                ok = ok and not others
            ctx.check(ok, 'W2', f'{t.fn.cls.name}/{lab}/statistic', t.where,
                      f'`{lab}` prints `{vt[:70]}`: the statistic named by the label ({first}) is not the one computed', fact=f'{first}: {sorted(calls)[:3]}')
    ctx.floor('W2', n, 40, 'lexicon-checked lines')


def check_segment_lines(ctx, templates: List[Template]) -> None:
    """`Segment <n>` lines print the n-th segment: every series on the line is read at index n - 1."""
    n = 0
    for t in templates:
        txt = t.text()
        if not txt.lstrip().startswith('Segment') or t.fn.cls.name in INFO_ONLY:
            continue
        vals = t.values()
        if len(vals) < 2 or vals[0].node is None:
            continue
        num = vals[0].node
        while isinstance(num, ast.Call) and dotted_name(num.func) == 'str' and num.args:
            num = num.args[0]
        try:
            segnum = Translator().tr(num)
        except Unsupported:
            continue
        for v in vals[1:]:
            if v.node is None:
                continue
            for sub in [x for x in ast.walk(v.node) if isinstance(x, ast.Subscript) and (dotted_name(x.value) or '').endswith('.value')]:
                n += 1
                try:
                    idx = Translator().tr(sub.slice)
                except Unsupported:
                    continue
                ctx.check((idx + Rat.const(1)).equals(segnum), 'W2', f'{t.fn.cls.name}/Segment-line/{_attr(dotted_name(sub.value)[:-6])}@{norm(num)}', t.where,
                          f'the line labelled `Segment {norm(num)}` prints {norm(sub)[:60]}: segment n is element n - 1 of the series, i.e. index '
                          f'{(segnum - Rat.const(1)).show()}', fact=f'index {idx.show()} = segment - 1')
    ctx.floor('W2', n, 6, 'segment-line subscripts')


def _as_conditional(repo, f, v: ast.AST) -> ast.AST:
    """`Helper(arg)` whose body is named intermediates + `if T: return A` + `return B` (or one returned conditional expression) read as
    the conditional expression `A if T else B` with the parameter replaced by the argument (helper extraction)."""
    from gxstat.inline import substitute
    if not isinstance(v, ast.Call) or v.keywords:
        return v
    name = v.func.attr if isinstance(v.func, ast.Attribute) else v.func.id if isinstance(v.func, ast.Name) else None
    m = None
    if name and f.cls is not None:
        m = repo.resolve_method(f.cls, name)
    if m is None and name in f.module.functions:
        m = f.module.functions[name]
    if m is None:
        return v
    params = [a.arg for a in m.node.args.args if a.arg not in ('self', 'cls')]
    if len(params) != len(v.args):
        return v
    env = dict(zip(params, v.args))
    body = [s_ for s_ in m.node.body if not (isinstance(s_, ast.Expr) and isinstance(s_.value, ast.Constant))]
    for s_ in body:
        if isinstance(s_, ast.Assign) and len(s_.targets) == 1 and isinstance(s_.targets[0], ast.Name):
            env[s_.targets[0].id] = substitute(s_.value, env)
    tail = [s_ for s_ in body if not isinstance(s_, ast.Assign)]
    if len(tail) == 1 and isinstance(tail[0], ast.Return) and isinstance(tail[0].value, ast.IfExp):
        return substitute(tail[0].value, env)
    if len(tail) == 2 and isinstance(tail[0], ast.If) and not tail[0].orelse and len(tail[0].body) == 1 and isinstance(tail[0].body[0], ast.Return) \
            and isinstance(tail[1], ast.Return) and tail[0].body[0].value is not None and tail[1].value is not None:
        e = ast.IfExp(test=tail[0].test, body=tail[0].body[0].value, orelse=tail[1].value)
        ast.copy_location(e, v)
        return substitute(ast.fix_missing_locations(e), env)
    return v


def check_payback_na(ctx) -> None:
    f = ctx.repo.method('Outputs', 'PrintOutputs', 'geophires_x/Outputs.py')
    defs = [s for s in ast.walk(f.node) if isinstance(s, ast.Assign) and norm(s.targets[0]) == 'project_payback_period_display']
    ctx.require(len(defs) == 1, 'Outputs.PrintOutputs: payback display definition not found')
    v = _as_conditional(ctx.repo, f, defs[0].value)
    loc = {norm(s.targets[0]): norm(s.value) for s in ast.walk(f.node) if isinstance(s, ast.Assign) and isinstance(s.targets[0], ast.Name)}
    def ex(txt):
        for k, val in loc.items():
            txt = re.sub(rf'(?<![\w.]){re.escape(k)}(?![\w])', val, txt)
        return txt.replace('model.economics', 'econ')
    ok = isinstance(v, ast.IfExp) and 'N/A' in norm(v.orelse) and 'ProjectPaybackPeriod.value' in ex(norm(v.body)) and \
        ex(norm(v.test)) in ('econ.ProjectPaybackPeriod.value > 0.0', 'econ.ProjectPaybackPeriod.value > 0', 'econ.ProjectPaybackPeriod.value != 0.0')
    ctx.check(ok, 'W6', 'Outputs/Project Payback Period/N-A-iff-zero', f'{f.module.rel}:{defs[0].lineno}',
              f'payback is rendered by `{norm(v)[:100]}`; it must show the value when positive and N/A exactly when the stored value is 0 '
              f'(never turns positive)')


def check_values_read_after_conversion(ctx, templates: List[Template]) -> None:
    """W9: the writers convert outputs to the requested units (`self._convert_units(model)`) and then print value and CurrentUnits.
    ConvertOutputUnits rebinds `.value`, so a local that captured a value before that call still holds the unconverted numbers:
    printing it next to CurrentUnits states the wrong quantity."""
    by_fn: Dict[int, List[Template]] = {}
    for t in templates:
        by_fn.setdefault(id(t.fn), []).append(t)
    n = 0
    for ts in by_fn.values():
        fn = ts[0].fn
        conv = [c for c in calls_in(fn.node) if isinstance(c.func, ast.Attribute) and c.func.attr == '_convert_units']
        if not conv:
            continue
        n += 1
        line = min(c.lineno for c in conv)
        early = {}
        for st in ast.walk(fn.node):
            if isinstance(st, ast.Assign) and len(st.targets) == 1 and isinstance(st.targets[0], ast.Name) and st.lineno < line and \
                    any(isinstance(a, ast.Attribute) and a.attr == 'value' for a in ast.walk(st.value)):
                early[st.targets[0].id] = st
        bad = None
        for t in ts:
            if t.call.lineno < line:
                continue
            for v in t.values():
                if v.node is not None:
                    for x in ast.walk(v.node):
                        if isinstance(x, ast.Name) and x.id in early:
                            bad = (t, early[x.id])
        key = f'{fn.qualname}/values-read-after-unit-conversion'
        if bad:
            t, st = bad
            ctx.bad('W9', key, t.where,
                    f'the line prints `{st.targets[0].id}`, captured at line {st.lineno} (`{norm(st)[:70]}`) before `_convert_units` (line {line}) '
                    f'converts the outputs: with a Units: request the number is still in the old unit while the label shows the requested one')
        else:
            ctx.ok('W9', key, f'{fn.module.rel}:{line}', f'{len(early)} locals hold values from before the conversion, none is printed')
    ctx.floor('W9', n, 2, 'writers that convert units before printing')


def run(ctx) -> None:
    ctx.rule('W1', 'on every `label: value unit` line the unit label belongs to the object whose value is printed, and for outputs it is the '
                   'CurrentUnits (which follows a Units: conversion), not PreferredUnits')
    ctx.rule('W2', 'a label taken from a parameter\'s name prints that parameter\'s value; a literal label prints the same quantity as the '
                   'sibling rich/HTML writer prints under that label')
    ctx.rule('W4', 'profile tables: one row per year over exactly [0, L) or [0, L + C), year column in order, per-time-step series read '
                   'at stride timestepsperyear and annual/project series at stride 1 with zero offset, cells separated by literal blanks')
    ctx.rule('W6', 'payback shown as N/A exactly when the stored value is 0')
    ctx.rule('W7', 'unit conversion of printed outputs: every pint Quantity built from p.value names p.CurrentUnits, and a converted '
                   'magnitude stored in p.value is immediately relabelled with the unit it is in')
    templates = writer_templates(ctx.repo)
    ctx.floor('W1', len(templates), 450, 'writer templates')
    ctx.analysed['writer_templates'] = len(templates)
    check_w1_w2(ctx, templates)
    check_sibling(ctx, templates)
    check_profiles(ctx, templates)
    check_adjacent_holes(ctx, templates)
    check_label_lexicon(ctx, templates)
    check_segment_lines(ctx, templates)
    check_payback_na(ctx)
    from rules.units_common import check_quantity_source_unit, check_value_unit_pairing
    nq = check_quantity_source_unit(ctx, 'W7')
    nq += check_value_unit_pairing(ctx, 'W7')
    from rules.units_common import check_no_inplace_conversion
    nq += check_no_inplace_conversion(ctx, 'W7')
    ctx.floor('W7', nq, 5, 'quantity/relabel sites')
    ctx.rule('W9', 'a value printed next to CurrentUnits is read after the writer converted the outputs, not captured before')
    ctx.rule('W10', 'inputs are declared with CurrentUnits = PreferredUnits unless frozen with a reason: otherwise the echo converts the value a '
                    'second time on top of the writer\'s own scaling (C06 U8)')
    check_values_read_after_conversion(ctx, templates)
    from gxstat.runner import Renamed as _Rn
    from rules.c06 import check_u8
    check_u8(_Rn(ctx, {'U8': 'W10'}))
    ctx.rule('W8', 'the `Interest Rate` line states the rate the run used: it is computed from the synchronised Discount Rate, in its own unit (shared)')
    from rules.rate_sync import check_rate_sync
    _n = check_rate_sync(ctx, 'W8', only_functions={'sync_interest_rate'})
    ctx.floor('W8', _n, 4, 'conversion assignments / sync functions of the rate family')
    ctx.rule('W11', 'while the main writer holds the report open for writing, nothing that opens the same file again is called: the add-on and S-DAC-GT '
                    'sections are appended only after the main text is flushed and closed (otherwise the buffered main text overwrites their start)')
    from gxstat.callgraph import get_callgraph as _gcg
    _cg = _gcg(ctx.repo)
    _po = ctx.repo.method('Outputs', 'PrintOutputs', 'geophires_x/Outputs.py')
    _n11 = 0
    for _w in ast.walk(_po.node):
        if not isinstance(_w, ast.With):
            continue
        _opens = [it.context_expr for it in _w.items if isinstance(it.context_expr, ast.Call) and (dotted_name(it.context_expr.func) or '') == 'open'
                  and it.context_expr.args and 'output_file' in norm(it.context_expr.args[0])]
        if not _opens:
            continue
        _n11 += 1
        _bad = None
        for _c in ast.walk(_w):
            if not isinstance(_c, ast.Call) or any(_c is o for o in _opens):
                continue
            _d = dotted_name(_c.func) or ''
            _last = _d.split('.')[-1]
            # a callee that opens an output_file itself, directly or through the functions it calls (bounded by name resolution in src/)
            _cands = [g for g in ctx.repo.all_functions() if g.name == _last and (g.cls is None or _last == 'PrintOutputs') and g is not _po]
            if _last in ('write', 'format', 'join', 'append') or not _cands:
                continue
            _reach = list(_cg.reachable(_cands).values()) + _cands
            if any(isinstance(x, ast.Call) and (dotted_name(x.func) or '') == 'open' and x.args and 'output_file' in norm(x.args[0])
                   for g in _reach for x in ast.walk(g.node)):
                _bad = _c
                break
        ctx.check(_bad is None, 'W11', 'Outputs.PrintOutputs/nothing-reopens-the-report-inside-the-write-block', f'{_po.module.rel}:{(_bad or _w).lineno}',
                  f'`{norm(_bad)[:70] if _bad is not None else ""}` is called inside the `with open(self.output_file, "w")` block and (transitively) opens the '
                  f'report again: what it appends is written before the main writer\'s buffered text is flushed, and that text then overwrites it',
                  fact='appenders run after the with block')
    ctx.floor('W11', _n11, 1, 'write blocks on the report file')
    ctx.undecided('format() rounding to the displayed precision', 'pint conversion numerics', 'AGS writer (not runnable offline): informational only')
    ctx.assume('the single pipeline prints after Calculate (C20 N1)')
