"""C07 -- out-of-range and invalid inputs are rejected, never silently altered.

V1 guard dominance in ReadParameter, V2 boundary operators, V3 routing completeness, V4 no handler swallows the
rejection, V6 declared domains self-consistent (early-return paths), V7 lossy coercion, V8 special-case stores
sit after the shared reader."""
from __future__ import annotations

import ast
from typing import Dict, List, Optional, Set, Tuple

from gxstat.callgraph import get_callgraph
from gxstat.flowutil import (always_raises, enclosing_try, guards_of, handler_catches, handler_reraises, terminates)
from gxstat.registry import EnumRef, Unfolded, get_registry
from gxstat.srcmodel import clone, AnalysisError, FuncInfo, calls_in, dotted_name, norm, parent, walk_no_nested

P = 'ParamToModify'


# ------------------------------------------------------------------------------------------- predicate evaluation
def _strip(node: ast.AST) -> ast.AST:
    while isinstance(node, ast.Call) and dotted_name(node.func) in ('float', 'int') and len(node.args) == 1:
        node = node.args[0]
    return node


class _Unknown(Exception):
    def __init__(self, key: str):
        self.key = key


def eval_pred(test: ast.AST, env: Dict[str, object], unknown: Dict[str, bool] = None):
    """Evaluate a range predicate over one point of the finite ordering domain.  env maps normalised atom text to a
    number / set.  Sub-predicates that are not comparisons of the candidate against the bounds are *unknown atoms*:
    they take their truth value from `unknown` (all valuations are enumerated by the caller)."""
    unknown = unknown if unknown is not None else {}
    test = _strip(test)
    k = norm(test)
    if k in unknown:
        return unknown[k]
    if isinstance(test, ast.Name) and test.id in env and isinstance(env[test.id], bool):
        return env[test.id]
    if isinstance(test, ast.BoolOp):
        vals = [eval_pred(v, env, unknown) for v in test.values]
        return all(vals) if isinstance(test.op, ast.And) else any(vals)
    if isinstance(test, ast.UnaryOp) and isinstance(test.op, ast.Not):
        return not eval_pred(test.operand, env, unknown)
    if isinstance(test, ast.Compare):
        try:
            left = _atom(test.left, env)
            res = True
            for op, comp in zip(test.ops, test.comparators):
                right = _atom(comp, env)
                if isinstance(op, ast.Lt):
                    r = left < right
                elif isinstance(op, ast.LtE):
                    r = left <= right
                elif isinstance(op, ast.Gt):
                    r = left > right
                elif isinstance(op, ast.GtE):
                    r = left >= right
                elif isinstance(op, ast.Eq):
                    r = left == right
                elif isinstance(op, ast.NotEq):
                    r = left != right
                elif isinstance(op, ast.In):
                    r = left in right
                elif isinstance(op, ast.NotIn):
                    r = left not in right
                else:
                    raise _Unknown(k)
                res = res and r
                left = right
            return res
        except _Unknown:
            raise _Unknown(k)
    raise _Unknown(k)


def eval_pred_all(test: ast.AST, env: Dict[str, object]) -> Tuple[List[bool], List[str]]:
    """All results of the predicate over every valuation of its unknown atoms (<= 5 atoms)."""
    unknown: Dict[str, bool] = {}
    while True:
        try:
            eval_pred(test, env, unknown)
            break
        except _Unknown as u:
            if u.key in unknown or len(unknown) >= 5:
                raise AnalysisError(f'range test too irregular to decide: {norm(test)[:80]}')
            unknown[u.key] = False
    keys = list(unknown)
    results = []
    for mask in range(2 ** len(keys)):
        val = {k: bool(mask >> i & 1) for i, k in enumerate(keys)}
        try:
            results.append(eval_pred(test, env, val))
        except _Unknown as u:
            raise AnalysisError(f'range test too irregular to decide: {u.key[:80]}')
    return results, keys


def _atom(node: ast.AST, env):
    node = _strip(node)
    k = norm(node)
    if k in env:
        return env[k]
    if isinstance(node, ast.Call) and dotted_name(node.func) in ('min', 'max') and len(node.args) == 1:
        inner = _atom(node.args[0], env)
        if isinstance(inner, (set, list)):
            return (min if dotted_name(node.func) == 'min' else max)(inner)
    if isinstance(node, ast.Constant) and isinstance(node.value, (int, float)) and not isinstance(node.value, bool):
        raise _Unknown(k)
    raise _Unknown(k)


def mentions(test: ast.AST, texts: Set[str]) -> bool:
    return any(norm(n) in texts for n in ast.walk(test))


# ------------------------------------------------------------------------------------------- V1/V2/V7
_NORMALISED: Dict[int, ast.AST] = {}


def role_normalised_reader(fn: FuncInfo) -> ast.AST:
    """ReadParameter with its names put back to the ones the rules are written in, by role: the two leading parameters are the entry read
    (`ParameterReadIn`) and the parameter to modify (`ParamToModify`); in every `isinstance(<param>, <class>)` arm that does not bind
    `New_val`, the candidate value - the local compared with <param>.Min / .Max / .AllowableRange, else the one local stored into
    <param>.value - is `New_val`.  A parent-linked clone; positions are kept.  No renaming happens when the target name is already in use."""
    if id(fn.node) in _NORMALISED:
        return _NORMALISED[id(fn.node)]
    from gxstat.srcmodel import set_parents
    # the function's own closures (`def accept(): ...`, `def reject_out_of_range(): ...`) are read written out at their call sites
    from gxstat.inline import inline_local_functions
    try:
        pre = clone(fn.node)
        set_parents(pre)
        nested_names = {n.name for n in pre.body if isinstance(n, ast.FunctionDef)}
        # `helper(f(x))` as a statement is `_a = f(x); helper(_a)`: the argument is evaluated first either way (exact), and the call
        # becomes one the inliner can write out
        k_ = 0
        for owner in list(ast.walk(pre)):
            for fld in ('body', 'orelse', 'finalbody'):
                blk = getattr(owner, fld, None)
                if not isinstance(blk, list):
                    continue
                i_ = 0
                while i_ < len(blk):
                    st_ = blk[i_]
                    i_ += 1
                    if isinstance(st_, ast.Expr) and isinstance(st_.value, ast.Call) and isinstance(st_.value.func, ast.Name) and \
                            st_.value.func.id in nested_names and not st_.value.keywords:
                        for ai, a_ in enumerate(st_.value.args):
                            if not isinstance(a_, (ast.Name, ast.Constant, ast.Attribute)):
                                k_ += 1
                                tmp = f'_hoisted_arg_{k_}'
                                blk.insert(i_ - 1, ast.copy_location(ast.Assign(targets=[ast.Name(id=tmp, ctx=ast.Store())], value=a_), st_))
                                st_.value.args[ai] = ast.copy_location(ast.Name(id=tmp, ctx=ast.Load()), a_)
                                i_ += 1
        ast.fix_missing_locations(pre)
        set_parents(pre)
        node = clone(inline_local_functions(pre))
    except Exception:
        node = clone(fn.node)
    used = {n.id for n in ast.walk(node) if isinstance(n, ast.Name)} | {a.arg for a in node.args.args}

    def rename(root: ast.AST, old: str, new: str) -> None:
        for n in ast.walk(root):
            if isinstance(n, ast.Name) and n.id == old:
                n.id = new
            elif isinstance(n, ast.arg) and n.arg == old:
                n.arg = new
    args = [a.arg for a in node.args.args]
    if len(args) >= 2:
        for old, new in ((args[0], 'ParameterReadIn'), (args[1], P)):
            if old != new and new not in used:
                rename(node, old, new)
    for arm in [n for n in ast.walk(node) if isinstance(n, ast.If) and isinstance(n.test, ast.Call) and dotted_name(n.test.func) == 'isinstance'
                and len(n.test.args) == 2 and norm(n.test.args[0]) == P]:
        scope = ast.Module(body=arm.body, type_ignores=[])
        bound = {n.id for n in ast.walk(scope) if isinstance(n, ast.Name) and isinstance(n.ctx, ast.Store)}
        if 'New_val' in bound or 'New_val' in {n.id for n in ast.walk(scope) if isinstance(n, ast.Name)}:
            continue
        cands: Set[str] = set()
        for c in ast.walk(scope):
            if isinstance(c, ast.Compare) and isinstance(c.left, ast.Name) and c.left.id in bound:
                txt = ' '.join(norm(x) for x in c.comparators)
                if f'{P}.Min' in txt or f'{P}.Max' in txt or f'{P}.AllowableRange' in txt:
                    cands.add(c.left.id)
        if not cands:
            cands = {st.value.id for st in ast.walk(scope) if isinstance(st, ast.Assign) and norm(st.targets[0]) == f'{P}.value'
                     and isinstance(st.value, ast.Name) and st.value.id in bound}
        if len(cands) == 1:
            rename(scope, next(iter(cands)), 'New_val')
    ast.fix_missing_locations(node)
    set_parents(node)
    _NORMALISED[id(fn.node)] = node
    return node


def _arm_for(fn: FuncInfo, clsname: str) -> Optional[ast.If]:
    """The `if/elif isinstance(ParamToModify, <clsname>)` arm at the top level of ReadParameter that defines New_val (on the
    role-normalised clone of the function)."""
    best = None
    for n in walk_no_nested(role_normalised_reader(fn)):
        if isinstance(n, ast.If) and isinstance(n.test, ast.Call) and dotted_name(n.test.func) == 'isinstance' \
                and len(n.test.args) == 2 and norm(n.test.args[0]) == P and norm(n.test.args[1]) == clsname:
            # the numeric arm is the one that stores a validated value (not the early bool/str shortcut)
            if any(isinstance(s, ast.Assign) and norm(s.targets[0]) == 'New_val' for s in n.body):
                best = n
    return best


def check_reader_arm(ctx, fn: FuncInfo, clsname: str, kind: str) -> None:
    arm = _arm_for(fn, clsname)
    ctx.require(arm is not None, f'ReadParameter: no `isinstance({P}, {clsname})` arm that defines New_val')
    where = f'{fn.module.rel}:{arm.lineno}'
    # candidate value definition (V7)
    defs = [s for s in arm.body if isinstance(s, ast.Assign) and norm(s.targets[0]) == 'New_val']
    ctx.require(len(defs) == 1, f'{clsname} arm: New_val defined {len(defs)} times at top level')
    rhs = norm(defs[0].value)
    exact = {'floatParameter': ['float(ParameterReadIn.sValue)'],
             'intParameter': ['int(ParameterReadIn.sValue)']}[clsname]
    ctx.check(rhs in exact, 'V7', f'ReadParameter/{clsname}/coercion', f'{fn.module.rel}:{defs[0].lineno}',
              f'value tested is `{rhs}`, a lossy coercion of the user text (expected one of {exact}): '
              f'a non-integral input is truncated before the membership test', fact=f'New_val = {rhs}')

    if kind == 'float':
        env_names = {'New_val', f'{P}.Min', f'{P}.Max'}
        points = [(-1, 'below Min'), (0, 'at Min'), (5, 'inside'), (10, 'at Max'), (11, 'above Max')]
        envs = [({'New_val': x, f'{P}.Min': 0, f'{P}.Max': 10}, lab) for x, lab in points]
    else:
        env_names = {'New_val', f'{P}.AllowableRange'}
        points = [(0, 'below set'), (1, 'lowest member'), (2, 'inner member'), (3, 'highest member'), (4, 'above set')]
        envs = [({'New_val': x, f'{P}.AllowableRange': {1, 2, 3}}, lab) for x, lab in points]
    expected_accept = [False, True, True, True, False]

    found_tests: List[ast.If] = []
    stores: List[Tuple[ast.stmt, str]] = []

    local_defs: Dict[str, ast.AST] = {}
    for n in ast.walk(arm):
        if isinstance(n, ast.Assign) and len(n.targets) == 1 and isinstance(n.targets[0], ast.Name) and n.targets[0].id != 'New_val':
            local_defs.setdefault(n.targets[0].id, n.value)
            if sum(1 for m in ast.walk(arm) if isinstance(m, ast.Assign) and norm(m.targets[0]) == n.targets[0].id) > 1:
                local_defs[n.targets[0].id] = None

    def _expand_locals(test: ast.AST) -> ast.AST:
        import copy

        class Sub(ast.NodeTransformer):
            def visit_Name(self, node):
                v = local_defs.get(node.id)
                if v is not None and isinstance(node.ctx, ast.Load):
                    return Sub().visit(clone(v))
                return node
        return ast.fix_missing_locations(Sub().visit(clone(test)))

    def is_range_test(test: ast.AST) -> bool:
        names = {norm(n) for n in ast.walk(test)}
        return 'New_val' in names and bool(names & (env_names - {'New_val'}))

    def walk(stmts, state: str) -> Optional[str]:
        """state in {'unknown','inrange','outofrange'}; returns state after, None if no fall-through."""
        for st in stmts:
            if isinstance(st, ast.If) and is_range_test(_expand_locals(st.test)):
                found_tests.append(st)
                test_x = _expand_locals(st.test)
                per_point = [eval_pred_all(test_x, e) for e, _ in envs]
                extra = per_point[0][1]
                nval = len(per_point[0][0])
                accs = [[not per_point[i][0][v] for i in range(len(envs))] for v in range(nval)]
                acc = accs[0]
                if all(a == expected_accept for a in accs):
                    sb, so = 'outofrange', 'inrange'
                elif all([not x for x in a] == expected_accept for a in accs):
                    sb, so = 'inrange', 'outofrange'
                elif extra and (any(a == expected_accept for a in accs) or any([not x for x in a] == expected_accept for a in accs)):
                    rej = any(a == expected_accept for a in accs)
                    badv = next(a for a in accs if (a if rej else [not x for x in a]) != expected_accept)
                    badacc = badv if rej else [not x for x in badv]
                    w = [lab for (e, lab), a, x in zip(envs, badacc, expected_accept) if a != x]
                    ctx.bad('V2', f'ReadParameter/{clsname}/boundary', f'{fn.module.rel}:{st.lineno}',
                            f'acceptance also depends on `{"`, `".join(x[:60] for x in extra)}`: for some outcome of it a value '
                            f'{", ".join(w)} is decided wrongly (the accept set must be exactly the closed declared range)')
                    sb, so = ('outofrange', 'inrange') if rej else ('inrange', 'outofrange')
                else:
                    wrong = [lab for (e, lab), a, x in zip(envs, acc, expected_accept) if a != x]
                    wrong2 = [lab for (e, lab), a, x in zip(envs, acc, expected_accept) if (not a) != x]
                    w = wrong if len(wrong) <= len(wrong2) else wrong2
                    ctx.bad('V2', f'ReadParameter/{clsname}/boundary', f'{fn.module.rel}:{st.lineno}',
                            f'range test `{norm(st.test)}` decides wrongly for a value {", ".join(w)} '
                            f'(accept set must be exactly the closed declared range)')
                    sb, so = ('outofrange', 'inrange') if len(wrong) <= len(wrong2) else ('inrange', 'outofrange')
                a = walk(st.body, sb)
                b = walk(st.orelse, so)
                for br, s_in, s_out in ((st.body, sb, a), (st.orelse, so, b)):
                    if s_in == 'outofrange':
                        ok = always_raises(br)
                        ctx.check(ok, 'V1', f'ReadParameter/{clsname}/reject-raises', f'{fn.module.rel}:{st.lineno}',
                                  'the out-of-range side of the range test does not raise on every path '
                                  '(value would be kept, clamped or defaulted silently)')
                        if ok:
                            _check_raise_names_param(ctx, fn, br, clsname)
                outs = [x for x in (a, b) if x is not None]
                if not outs:
                    return None
                state = outs[0] if len(set(outs)) == 1 else 'unknown'
                if 'outofrange' in outs and len(outs) > 1:
                    state = 'unknown'
                continue
            if isinstance(st, ast.If):
                a = walk(st.body, state)
                b = walk(st.orelse, state)
                outs = [x for x in (a, b) if x is not None]
                if not outs:
                    return None
                state = outs[0] if len(set(outs)) == 1 else 'unknown'
                continue
            if isinstance(st, (ast.Return, ast.Raise, ast.Continue, ast.Break)):
                return None
            if isinstance(st, (ast.For, ast.While, ast.Try, ast.With)):
                for n in ast.walk(st):
                    if isinstance(n, (ast.Assign, ast.AugAssign)) and any(
                            norm(t) == f'{P}.value' for t in (n.targets if isinstance(n, ast.Assign) else [n.target])):
                        raise AnalysisError(f'{clsname} arm: store to {P}.value inside a compound statement '
                                            f'({type(st).__name__}) is outside the supported idioms')
                continue
            if isinstance(st, (ast.Assign, ast.AugAssign)):
                tg = st.targets if isinstance(st, ast.Assign) else [st.target]
                if any(norm(t) == f'{P}.value' for t in tg):
                    stores.append((st, state))
        return state

    walk(arm.body, 'unknown')
    # V9: an accepted user value is stored unless it equals the *current* value (nothing to change)
    first_store_line = min((st.lineno for st, _ in stores), default=10 ** 9)
    for rt in [n for n in ast.walk(arm) if isinstance(n, ast.Return) and n.lineno < first_store_line]:
        tests = [norm(t) for t, pol in guards_of(rt, arm) if pol]
        inner = tests[-1] if tests else ''
        same_as_current = inner in (f'New_val == {P}.value', f'{P}.value == New_val')
        same_as_default = inner in (f'New_val == {P}.DefaultValue', f'{P}.DefaultValue == New_val')
        key = f'ReadParameter/{clsname}/early-return:{inner[:50]}'
        w = f'{fn.module.rel}:{rt.lineno}'
        if same_as_current:
            ctx.ok('V9', key, w, 'returns only when the input equals the current value')
        elif same_as_default and clsname == 'intParameter':
            # sound only while every integer declaration starts at its default (checked over the registry below)
            offenders = _int_decls_not_at_default(ctx)
            ctx.check(not offenders, 'V9', key, w,
                      f'the integer reader returns without storing when the input equals DefaultValue, but {offenders[:3]} start at a '
                      f'value different from their default: a user who supplies the default is ignored',
                      fact='every integer declaration starts at its DefaultValue (or has none)')
        else:
            ctx.bad('V9', key, w, f'the reader returns before storing a user value under the guard `{inner or "(none)"}`: a valid '
                                  f'user-supplied figure (e.g. one equal to the declared default of a parameter that starts at the '
                                  f'-1 "not provided" sentinel) is silently dropped')
    # V9b: `Provided` is what downstream code asks before it uses a supplied figure.  On every path of the float arm that returns
    # without raising and on which the input equals the declared default, Provided has been set - in particular no return may come
    # before the default-equality bookkeeping (a supplied figure equal to default == current value would be treated as not given).
    if kind == 'float':
        from gxstat.symflow import PathEnumerator, _literals
        pe = PathEnumerator(arm.body, {f'{P}.Provided', f'{P}.value'}, fork_all=True, prune=True)
        eq_default = (f'New_val == {P}.DefaultValue', f'{P}.DefaultValue == New_val')
        nret = 0
        offenders = []
        for pth in pe.paths():
            if pth.ended not in ('return', 'fallthrough'):
                continue
            nret += 1
            lits = {txt: pol for c in pth.conds for txt, pol in _literals(c[0], c[1])}
            tested = [lits[t] for t in eq_default if t in lits]
            sets_provided = f'{P}.Provided' in pth.env and pth.env[f'{P}.Provided'].expr is not None and \
                norm(pth.env[f'{P}.Provided'].expr) == 'True'
            stores_value = f'{P}.value' in pth.env
            if stores_value:
                continue                      # the normal accept path (V1 checks that Provided/Valid follow the store)
            if (tested and tested[0] is True and not sets_provided) or (not tested):
                line = pth.ret.line if pth.ret is not None else arm.lineno
                offenders.append(line)
        ctx.floor('V9', nret, 3, 'returning paths of the float reader arm')
        ctx.check(not offenders, 'V9', f'ReadParameter/{clsname}/provided-set-when-input-equals-default', where,
                  f'a path of the float arm returns (line(s) {sorted(set(offenders))[:3]}) without storing the value and either before testing '
                  f'`New_val == DefaultValue` or with that test true and Provided not set: a user who supplies a figure equal to the default '
                  f'(= current value) is treated as not having supplied it, and code gated on .Provided falls back to its correlation',
                  fact='every non-storing return has Provided = True when the input equals the default')
    ctx.require(found_tests, f'{clsname} arm: no range test found (anchor vanished)')
    ctx.require(stores, f'{clsname} arm: no store to {P}.value found (anchor vanished)')
    for st, state in stores:
        w = f'{fn.module.rel}:{st.lineno}'
        rhs = norm(st.value)
        ctx.check(state == 'inrange', 'V1', f'ReadParameter/{clsname}/store-dominated', w,
                  f'`{norm(st)}` is reached without passing the range test (state {state})', fact=norm(st))
        ctx.check(rhs == 'New_val', 'V1', f'ReadParameter/{clsname}/store-is-tested-value', w,
                  f'value stored is `{rhs}`, not the tested candidate New_val (altered silently)', fact=norm(st))
    if not any(o['rule'] == 'V2' and o['status'] == 'violated' for o in ctx.obligations
               if o['key'].startswith(f'ReadParameter/{clsname}/')):
        for t in found_tests:
            ctx.ok('V2', f'ReadParameter/{clsname}/boundary', f'{fn.module.rel}:{t.lineno}',
                   f'`{norm(t.test)}` accepts exactly: ' + ', '.join(lab for (_, lab), x in zip(envs, expected_accept) if x))


def _int_decls_not_at_default(ctx) -> List[str]:
    reg = get_registry(ctx.repo)
    out = []
    for d in reg.inputs():
        if d.kind != 'intParameter' or 'value' not in d.args or d.args.get('DefaultValue') is None:
            continue
        v, dv = d.args['value'], d.args['DefaultValue']
        if isinstance(v, EnumRef):
            v = reg.enums.int_value(v.enum, v.member)
        if isinstance(dv, EnumRef):
            dv = reg.enums.int_value(dv.enum, dv.member)
        if isinstance(v, Unfolded) or isinstance(dv, Unfolded):
            continue
        if v != dv:
            out.append(f'{d.owner}.{d.attr}')
    return out


def _check_raise_names_param(ctx, fn: FuncInfo, stmts, clsname: str) -> None:
    for st in stmts:
        for n in ast.walk(st):
            if isinstance(n, ast.Raise):
                w = f'{fn.module.rel}:{n.lineno}'
                exc = n.exc
                ok_type = isinstance(exc, ast.Call) and dotted_name(exc.func) == 'ValueError'
                ctx.check(ok_type, 'V1', f'ReadParameter/{clsname}/raise-type', w,
                          f'rejection raises `{norm(exc)}`; the entry points and the client convert ValueError',
                          fact=norm(n))
                msg_ok = False
                if ok_type and exc.args:
                    a = exc.args[0]
                    texts = [a]
                    if isinstance(a, ast.Name):
                        texts = [s.value for s in stmts if isinstance(s, ast.Assign) and norm(s.targets[0]) == a.id]
                    for t in texts:
                        if any(isinstance(x, ast.FormattedValue) and norm(x.value) == f'{P}.Name' for x in ast.walk(t)):
                            msg_ok = True
                        if any(norm(x) == f'{P}.Name' for x in ast.walk(t)):
                            msg_ok = True
                ctx.check(msg_ok, 'V1', f'ReadParameter/{clsname}/message-names-parameter', w,
                          'the rejection message does not contain the parameter name', fact=norm(n))


# ------------------------------------------------------------------------------------------- V3 routing
def reader_loops(fn: FuncInfo) -> List[Tuple[ast.For, ast.Call]]:
    """Canonical reader loops in fn: for ... in self.ParameterDict.items()/values() containing a ReadParameter call."""
    out = []
    for n in walk_no_nested(fn.node):
        if isinstance(n, ast.For):
            it = norm(n.iter)
            if it.startswith('self.ParameterDict') or _is_key_intersection(n.iter):
                for c in calls_in(n):
                    if dotted_name(c.func) == 'ReadParameter':
                        out.append((n, c))
    return out


def _is_key_intersection(it: ast.AST) -> bool:
    """`X.InputParameters.keys() & self.ParameterDict.keys()` (either order): same set of validated entries."""
    if isinstance(it, ast.Call) and dotted_name(it.func) in ('sorted', 'list') and len(it.args) == 1:
        it = it.args[0]
    if isinstance(it, ast.BinOp) and isinstance(it.op, ast.BitAnd):
        sides = {norm(it.left), norm(it.right)}
        return 'self.ParameterDict.keys()' in sides and any(s.endswith('.InputParameters.keys()') for s in sides)
    return False


def nonempty_subject(test: ast.AST, pol: bool) -> Optional[str]:
    """X when (test, polarity) says "X is not empty" in any of its spellings: `len(X) > 0`, `len(X) != 0`, `len(X) >= 1`, `0 < len(X)`, `X`,
    and the negations of `len(X) == 0`, `len(X) < 1`, `not X`, `not len(X)`."""
    while isinstance(test, ast.UnaryOp) and isinstance(test.op, ast.Not):
        test, pol = test.operand, not pol

    def len_of(e) -> Optional[str]:
        return norm(e.args[0]) if isinstance(e, ast.Call) and dotted_name(e.func) == 'len' and len(e.args) == 1 else None
    if isinstance(test, (ast.Name, ast.Attribute)):
        return norm(test) if pol else None
    if len_of(test) is not None:
        return len_of(test) if pol else None
    if isinstance(test, ast.Compare) and len(test.ops) == 1:
        l, op, r = test.left, test.ops[0], test.comparators[0]
        if len_of(r) is not None and isinstance(l, ast.Constant):          # 0 < len(X)  ->  len(X) > 0
            flip = {ast.Lt: ast.Gt, ast.Gt: ast.Lt, ast.LtE: ast.GtE, ast.GtE: ast.LtE, ast.Eq: ast.Eq, ast.NotEq: ast.NotEq}
            if type(op) not in flip:
                return None
            l, op, r = r, flip[type(op)](), l
        x = len_of(l)
        if x is None or not isinstance(r, ast.Constant) or not isinstance(r.value, int):
            return None
        k = r.value
        holds_nonempty = (isinstance(op, ast.Gt) and k == 0) or (isinstance(op, ast.NotEq) and k == 0) or (isinstance(op, ast.GtE) and k == 1)
        holds_empty = (isinstance(op, ast.Eq) and k == 0) or (isinstance(op, ast.Lt) and k == 1) or (isinstance(op, ast.LtE) and k == 0)
        if (holds_nonempty and pol) or (holds_empty and not pol):
            return x
    return None


def check_reader_loop(ctx, fn: FuncInfo, loop: ast.For, call: ast.Call) -> bool:
    """The ReadParameter call is reached for every dictionary entry whose name is in the input map."""
    key = f'{fn.qualname}/reader-loop'
    where = f'{fn.module.rel}:{call.lineno}'
    ok = True
    # work on the canonical form of the function: `if key not in X.InputParameters: continue` is the same loop as
    # `if key in X.InputParameters: <rest>` (guard clause un-nested), attribute aliases inlined
    from gxstat.inline import canonical_function
    cfn = canonical_function(fn.node, unnest=True)
    cl = [n for n in ast.walk(cfn) if isinstance(n, ast.For) and (n.lineno, n.col_offset) == (loop.lineno, loop.col_offset)]
    cc = [n for n in ast.walk(cfn) if isinstance(n, ast.Call) and (n.lineno, n.col_offset) == (call.lineno, call.col_offset) and
          dotted_name(n.func) == 'ReadParameter']
    if len(cl) == 1 and len(cc) == 1:
        class _F:
            pass
        fn_ = _F()
        fn_.node, fn_.module, fn_.qualname = cfn, fn.module, fn.qualname
        fn, loop, call = fn_, cl[0], cc[0]
    it = norm(loop.iter)
    if _is_key_intersection(loop.iter):
        # order-free form: the entry handed to the reader must be looked up by the loop key
        a1 = norm(call.args[1]) if len(call.args) >= 2 else ''
        srcs = {norm(s.value) for s in ast.walk(loop) if isinstance(s, ast.Assign) and norm(s.targets[0]) == a1}
        tgt = norm(loop.target)
        if (srcs == {f'self.ParameterDict[{tgt}]'} or a1 == f'self.ParameterDict[{tgt}]') and not guards_of(call, loop):
            ctx.ok('V3', key, where, f'{it}: every registered entry named in the input map reaches ReadParameter')
            return True
        ctx.bad('V3', key, where, f'reader loop over the key intersection does not hand `self.ParameterDict[{tgt}]` to ReadParameter unconditionally')
        return False
    if it not in ('self.ParameterDict.items()', 'self.ParameterDict.values()'):
        ctx.bad('V3', key, where, f'reader loop iterates `{it}`, not the whole parameter dictionary')
        ok = False
    # guards between function entry and the call: only `len(X.InputParameters) > 0` and `key in X.InputParameters`
    # a local bound exactly once to the input map (`entries = self.InputParameters`) is the input map
    _binds = {}
    for _st in ast.walk(fn.node):
        if isinstance(_st, ast.Assign) and len(_st.targets) == 1 and isinstance(_st.targets[0], ast.Name):
            _binds.setdefault(_st.targets[0].id, []).append(_st.value)
    _stores = {}
    for _x in ast.walk(fn.node):
        if isinstance(_x, ast.Name) and isinstance(_x.ctx, ast.Store):
            _stores[_x.id] = _stores.get(_x.id, 0) + 1
    _alias = {k_: v_[0] for k_, v_ in _binds.items() if len(v_) == 1 and _stores.get(k_) == 1 and isinstance(v_[0], ast.Attribute)
              and norm(v_[0]).endswith('.InputParameters')}

    def _dealias(e):
        if not _alias:
            return e
        from gxstat.srcmodel import clone as _clone

        class _S(ast.NodeTransformer):
            def visit_Name(self, n_):
                return _clone(_alias[n_.id]) if n_.id in _alias and isinstance(n_.ctx, ast.Load) else n_
        return ast.fix_missing_locations(_S().visit(_clone(e)))
    for test, pol in guards_of(call, fn.node):
        test = _dealias(test)
        t = norm(test)
        fine = False
        ne = nonempty_subject(test, pol)
        if ne is not None and ne.endswith('.InputParameters'):
            fine = True                         # any spelling of "the input map is not empty"
        core, cpol = test, pol
        while isinstance(core, ast.UnaryOp) and isinstance(core.op, ast.Not):
            core, cpol = core.operand, not cpol
        if isinstance(core, ast.Compare) and len(core.ops) == 1 and norm(core.comparators[0]).endswith('.InputParameters') and \
                ((cpol and isinstance(core.ops[0], ast.In)) or (not cpol and isinstance(core.ops[0], ast.NotIn))):
            fine = True                         # `key in X.InputParameters`
        # `entry = X.InputParameters.get(key)` ... `entry is not None`: the same membership test (entries are objects, never None)
        if isinstance(core, ast.Compare) and len(core.ops) == 1 and isinstance(core.left, ast.Name) and isinstance(core.comparators[0], ast.Constant) \
                and core.comparators[0].value is None and \
                ((cpol and isinstance(core.ops[0], (ast.IsNot, ast.NotEq))) or (not cpol and isinstance(core.ops[0], (ast.Is, ast.Eq)))):
            from gxstat.inline import enclosing_stmt, inline_sequential
            st_ = enclosing_stmt(core)
            src_ = norm(inline_sequential(core.left, st_, cross_loops=True)) if st_ is not None else ''
            if '.InputParameters.get(' in src_ and src_.endswith(')') and src_.count(',') == 0:
                fine = True
        if not fine:
            ctx.bad('V3', key, where, f'ReadParameter call is additionally guarded by `{"" if pol else "not "}{t}` '
                                      f'(some registered parameters would bypass validation)')
            ok = False
    # no continue/return/break earlier in the loop body on the way to the call
    for n in ast.walk(loop):
        if isinstance(n, (ast.Continue, ast.Break, ast.Return)) and (n.lineno, n.col_offset) < (call.lineno, call.col_offset):
            ctx.bad('V3', key, f'{fn.module.rel}:{n.lineno}',
                    f'`{type(n).__name__.lower()}` before the ReadParameter call can skip validation of an entry')
            ok = False
    # the call is a statement of its own, not inside try
    for tr, part in enclosing_try(call, fn.node):
        if part == 'body' and any(handler_catches(h, ('ValueError', 'Exception')) and not handler_reraises(h)
                                  for h in tr.handlers):
            ctx.bad('V4', f'{fn.qualname}/swallow', f'{fn.module.rel}:{tr.lineno}',
                    'ReadParameter is called inside a try whose handler swallows the rejection')
            ok = False
    # arguments: second argument must be the dictionary entry itself
    if len(call.args) >= 2:
        a1 = norm(call.args[1])
        srcs = {norm(s.value) for s in ast.walk(loop) if isinstance(s, ast.Assign) and norm(s.targets[0]) == a1}
        tgt = norm(loop.target)
        fine = (srcs and all(x in (f'{tgt}[1]', tgt) for x in srcs)) or a1 == tgt
        if not fine:
            ctx.bad('V3', key, where, f'object handed to ReadParameter (`{a1}` = {sorted(srcs)}) is not the dictionary entry')
            ok = False
    if ok:
        ctx.ok('V3', key, where, f'{it}: every entry named in the input map reaches ReadParameter')
    return ok


def check_routing(ctx) -> None:
    repo = ctx.repo
    cg = get_callgraph(repo)
    reg = get_registry(repo)
    concrete = []
    for role, classes in cg.roles.items():
        for ci in classes:
            if ci not in concrete:
                concrete.append(ci)
    for nm, suffix in (('HIP_RA_X', 'hip_ra_x/hip_ra_x.py'), ('HIP_RA', 'hip_ra/HIP_RA.py')):
        if repo.has_module(suffix) and nm in repo.module(suffix).classes:
            concrete.append(repo.module(suffix).classes[nm])
    ctx.floor('V3', len(concrete), 30, 'instantiable classes')
    n_loops = 0
    seen_loops = set()
    for ci in concrete:
        inputs = [d for d in reg.class_decls(ci.name, ci.module.rel) if d.is_input]
        fn = repo.resolve_method(ci, 'read_parameters')
        key = f'{ci.name}/routing'
        if fn is None:
            if inputs:
                ctx.bad('V3', key, ci.where, f'{len(inputs)} input parameters but no read_parameters method')
            continue
        # chain of unconditional super().read_parameters calls
        chain: List[FuncInfo] = []
        cur = fn
        while cur is not None and cur not in chain:
            chain.append(cur)
            nxt = None
            for c in calls_in(cur.node):
                f = c.func
                if isinstance(f, ast.Attribute) and f.attr == 'read_parameters' and isinstance(f.value, ast.Call) \
                        and dotted_name(f.value.func) == 'super':
                    if guards_of(c, cur.node):
                        ctx.bad('V3', key, f'{cur.module.rel}:{c.lineno}',
                                'super().read_parameters(...) is conditional: the shared reader may be skipped')
                        continue
                    if any(n.lineno < c.lineno for n in ast.walk(cur.node) if isinstance(n, ast.Return)):
                        ctx.bad('V3', key, f'{cur.module.rel}:{c.lineno}',
                                'a return precedes super().read_parameters(...): the shared reader may be skipped')
                        continue
                    t = cg.resolve_call(c, cur)[0]
                    nxt = t[0] if t else None
            cur = nxt
        loops = [(f, lp, c) for f in chain for lp, c in reader_loops(f)]
        # dictionaries that hold inputs of this class
        if inputs and not loops:
            ctx.bad('V3', key, fn.where,
                    f'read_parameters chain {[f.qualname for f in chain]} never reaches a canonical reader loop: '
                    f'{len(inputs)} registered inputs (e.g. {inputs[0].name!r}) are not validated')
            continue
        if not inputs:
            ctx.ok('V3', key, fn.where, 'no input declarations')
            continue
        allok = True
        for f, lp, c in loops:
            if id(lp) not in seen_loops:
                seen_loops.add(id(lp))
                n_loops += 1
                allok &= check_reader_loop(ctx, f, lp, c)
        # bare (unregistered) inputs
        for d in inputs:
            if d.dict_name != 'ParameterDict':
                ctx.bad('V3', f'{ci.name}.{d.attr}/unregistered', d.where,
                        f'input parameter {d.name!r} is not registered in ParameterDict; the shared reader never sees it')
                allok = False
        ctx.ok('V3', key, fn.where, f'{len(inputs)} inputs; chain ' + ' -> '.join(f.qualname for f in chain))
    # every ReadParameter call site in a read_parameters method must sit in a canonical loop over the whole dictionary
    n_sites = 0
    for f in repo.all_functions():
        if f.name != 'read_parameters':
            continue
        for c in calls_in(f.node):
            if dotted_name(c.func) == 'ReadParameter':
                n_sites += 1
                canon = any(c2 is c for lp, c2 in reader_loops(f))
                if not canon:
                    lp = [x for x in walk_no_nested(f.node) if isinstance(x, ast.For) and any(y is c for y in ast.walk(x))]
                    ctx.bad('V3', f'{f.qualname}/reader-loop', f'{f.module.rel}:{c.lineno}',
                            f'ReadParameter is called from a loop over `{norm(lp[-1].iter) if lp else "(no loop)"}`, not over the '
                            f'whole `self.ParameterDict`: validation/reading no longer follows the registered dictionary')
    ctx.floor('V3', n_sites, 11, 'ReadParameter call sites in read_parameters methods')
    ctx.analysed['reader_loops'] = n_loops
    ctx.analysed['instantiable_classes'] = len(concrete)


# ------------------------------------------------------------------------------------------- V4 swallow
def check_swallow(ctx) -> None:
    """No try/except between ReadParameter and the entry points may swallow ValueError."""
    repo = ctx.repo
    cg = get_callgraph(repo)
    rp = repo.function('geophires_x/Parameter.py', 'ReadParameter')
    reach_rp: Dict[int, bool] = {}

    def reaches_rp(f: FuncInfo) -> bool:
        k = id(f.node)
        if k not in reach_rp:
            reach_rp[k] = cg.reaches(f, lambda g: g is rp) is not None
        return reach_rp[k]

    n = 0
    for f in cg.funcs:
        for tr in [x for x in walk_no_nested(f.node) if isinstance(x, ast.Try)]:
            if not tr.handlers:
                continue
            # does the try body contain a call that may reach ReadParameter?
            hit = None
            for st in tr.body:
                for c in calls_in(st):
                    for t in cg.call_targets(c, f):
                        if t is rp or reaches_rp(t):
                            hit = (c, t)
                            break
                    if hit:
                        break
                if hit:
                    break
            if not hit:
                continue
            n += 1
            key = f'{f.qualname}/try-around-reader'
            where = f'{f.module.rel}:{tr.lineno}'
            bad = [h for h in tr.handlers if handler_catches(h, ('ValueError', 'Exception')) and not handler_reraises(h)]
            ctx.check(not bad, 'V4', key, where,
                      f'handler `except {norm(bad[0].type) if bad and bad[0].type else ""}` around a call reaching '
                      f'ReadParameter (via {hit[1].qualname}) does not re-raise: a rejected input would still '
                      f'produce a result' if bad else '',
                      fact=f'call {norm(hit[0].func)} reaches ReadParameter; handlers re-raise')
    # module-level try in __main__
    for rel, edges in cg.module_edges.items():
        mi = repo.modules[rel]
        for tr in [x for x in mi.tree.body if isinstance(x, ast.Try)]:
            calls = [(c, t) for (c, ts, how) in edges for t in ts if tr.lineno <= c.lineno <= (tr.end_lineno or 10**9)
                     and (t is rp or reaches_rp(t))]
            if not calls:
                continue
            n += 1
            key = f'{mi.base}/<module>/try-around-reader'
            where = f'{rel}:{tr.lineno}'
            in_body = [c for c, t in calls if any(s.lineno <= c.lineno <= (s.end_lineno or 0) for s in tr.body)]
            if in_body:
                bad = [h for h in tr.handlers if handler_catches(h, ('ValueError', 'Exception')) and not _handler_sets_failure(h)]
                ctx.check(not bad, 'V4', key, where,
                          'module-level handler around the simulation neither re-raises nor records a non-zero status')
            else:
                ctx.ok('V4', key, where, 'simulation call outside try body')
    ctx.analysed['try_blocks_around_reader'] = n
    ctx.floor('V4', n, 2, 'try blocks around reader paths')


def _handler_sets_failure(h: ast.ExceptHandler) -> bool:
    if handler_reraises(h):
        return True
    for n in ast.walk(h):
        if isinstance(n, ast.Assign) and isinstance(n.value, ast.Constant) and isinstance(n.value.value, int) \
                and n.value.value != 0 and norm(n.targets[0]) in ('rc', 'exit_code', 'status'):
            return True
    return False


# ------------------------------------------------------------------------------------------- V6 domains
def _num(v):
    return isinstance(v, (int, float)) and not isinstance(v, bool)


def check_domains(ctx) -> None:
    reg = get_registry(ctx.repo)
    n = sentinels = skipped = 0
    for d in reg.inputs():
        if d.kind not in ('floatParameter', 'intParameter'):
            continue
        if d.owner == 'HIP_RA' and not ctx.thorough:
            continue
        key = f'{d.owner}.{d.attr}/domain'
        default = d.get('DefaultValue', 0.0 if d.kind == 'floatParameter' else None)
        init = d.get('value', default)
        if isinstance(init, EnumRef):
            init = reg.enums.int_value(init.enum, init.member)
        if isinstance(default, EnumRef):
            default = reg.enums.int_value(default.enum, default.member)
        if d.kind == 'floatParameter':
            lo, hi = d.get('Min', -1.8e30), d.get('Max', 1.8e30)
            if any(isinstance(x, Unfolded) for x in (init, lo, hi)) or not all(_num(x) for x in (init, lo, hi)):
                skipped += 1
                ctx.info(f'V6 {key} {d.where}: not foldable (value={init!r}, Min={lo!r}, Max={hi!r})')
                continue
            n += 1
            if lo > hi:
                ctx.bad('V6', key, d.where, f'{d.name!r}: Min {lo} > Max {hi}: every input is rejected')
                continue
            if lo <= init <= hi:
                ctx.ok('V6', key, d.where, f'{d.name!r}: initial {init} in [{lo}, {hi}]')
            elif init == -1 and lo >= 0:
                sentinels += 1
                ctx.ok('V6', key, d.where, f'{d.name!r}: documented not-provided sentinel -1 below Min {lo}')
            else:
                ctx.bad('V6', key, d.where,
                        f'{d.name!r}: initial value {init} lies outside the declared range [{lo}, {hi}]; '
                        f'ReadParameter returns before the range test when the input equals the current value, '
                        f'so this out-of-range input is accepted and used as given')
        else:
            rng = d.get('AllowableRange')
            if rng is None or isinstance(rng, Unfolded) or not isinstance(rng, list) or \
                    any(isinstance(x, Unfolded) for x in (init, default)):
                skipped += 1
                ctx.info(f'V6 {key} {d.where}: AllowableRange/initial not foldable ({rng!r}, {init!r})')
                continue
            rs = set()
            for x in rng:
                if isinstance(x, EnumRef):
                    x = reg.enums.int_value(x.enum, x.member)
                rs.add(x)
            n += 1
            bad = [x for x in {init, default} if x is not None and x not in rs and not (x == -1 and min(rs, default=0) >= 0)]
            if not rs:
                ctx.ok('V6', key, d.where, f'{d.name!r}: empty AllowableRange (only the default is accepted)')
            elif bad:
                ctx.bad('V6', key, d.where,
                        f'{d.name!r}: default/initial {bad} not in AllowableRange {sorted(rs)[:12]}; the early return '
                        f'for inputs equal to the default accepts it without the membership test')
            else:
                ctx.ok('V6', key, d.where, f'{d.name!r}: default {default} / initial {init} in AllowableRange')
    ctx.analysed['numeric_declarations_checked'] = n
    ctx.analysed['sentinel_declarations'] = sentinels
    ctx.analysed['declarations_not_foldable'] = skipped
    ctx.floor('V6', n, 230 if not ctx.thorough else 240, 'numeric declarations')


# ------------------------------------------------------------------------------------------- V8 special cases
def check_special_cases(ctx) -> None:
    """Stores to <entry>.value in a reader loop that use the raw user text must come after ReadParameter in the
    same loop body (so the text has been validated) -- or the loop must be in a read_parameters that has called
    super().read_parameters() first."""
    repo = ctx.repo
    n = 0
    for f in repo.all_functions():
        if f.name != 'read_parameters':
            continue
        has_super_first = None
        for c in calls_in(f.node):
            fn_ = c.func
            if isinstance(fn_, ast.Attribute) and fn_.attr == 'read_parameters' and isinstance(fn_.value, ast.Call) \
                    and dotted_name(fn_.value.func) == 'super':
                has_super_first = c
        for loop in [x for x in walk_no_nested(f.node) if isinstance(x, ast.For)]:
            if not norm(loop.iter).startswith('self.ParameterDict'):
                continue
            rp_calls = [c for c in calls_in(loop) if dotted_name(c.func) == 'ReadParameter']
            for st in ast.walk(loop):
                if not isinstance(st, (ast.Assign, ast.AugAssign)):
                    continue
                tg = st.targets if isinstance(st, ast.Assign) else [st.target]
                if not any(norm(t).endswith('.value') and isinstance(t, ast.Attribute) for t in tg):
                    continue
                uses_raw = any(isinstance(x, ast.Attribute) and x.attr in ('sValue', 'raw_entry') for x in ast.walk(st.value))
                if not uses_raw:
                    continue
                n += 1
                key = f'{f.qualname}/special-case:{norm(tg[0])}={norm(st.value)[:60]}'
                where = f'{f.module.rel}:{st.lineno}'
                after_rp = any((c.lineno, c.col_offset) < (st.lineno, st.col_offset) for c in rp_calls)
                after_super = has_super_first is not None and has_super_first.lineno < loop.lineno
                ctx.check(after_rp or after_super, 'V8', key, where,
                          'special-case code stores a value derived from the raw user text before the shared reader '
                          'validated it', fact=norm(st)[:100])
    ctx.analysed['special_case_stores_from_raw_text'] = n
    ctx.floor('V8', n, 8, 'special-case stores')


# ------------------------------------------------------------------------------------------- entry
def run(ctx) -> None:
    ctx.rule('V1', 'in ReadParameter every store to the parameter value is dominated by the range test, stores the '
                   'tested candidate unchanged, and the failing side raises ValueError naming the parameter')
    ctx.rule('V2', 'the range test accepts exactly the closed declared range (decided over the 5 orderings of the '
                   'candidate against the bounds / membership set)')
    ctx.rule('V3', 'every class Model/HIP-RA can instantiate routes its whole ParameterDict through a canonical '
                   'reader loop with no extra guard, filter, early exit or unregistered input')
    ctx.rule('V4', 'no try/except between ReadParameter and an entry point swallows the rejection')
    ctx.rule('V6', 'initial values lie inside the declared domain (ReadParameter returns before the test when the '
                   'input equals the current/default value); -1 below a non-negative Min is the documented sentinel')
    ctx.rule('V7', 'the value tested is the user value (no lossy coercion before the test)')
    ctx.rule('V8', 'special-case stores derived from the raw text come after the shared reader')
    ctx.rule('V10', 'every input parameter is registered in ParameterDict under its own name')
    ctx.rule('V11', 'the client cache key covers the whole request text on every path (C08 P5): a cached result never stands in for a rejection')
    ctx.rule('V12', 'ConvertUnits never stores the parameter value (only the validated store in ReadParameter does)')
    ctx.rule('V9', 'an accepted user value is stored unless it equals the current value: early returns in the numeric arms are '
                   'guarded by `input == current value` (integer arm: `== DefaultValue` is sound only while every integer '
                   'declaration starts at its default, checked over the registry)')
    fn = ctx.repo.function('geophires_x/Parameter.py', 'ReadParameter')
    check_reader_arm(ctx, fn, 'floatParameter', 'float')
    check_reader_arm(ctx, fn, 'intParameter', 'int')
    check_routing(ctx)
    check_swallow(ctx)
    check_domains(ctx)
    check_special_cases(ctx)
    # V10: a parameter registered under another parameter's name replaces it in ParameterDict and is itself unreachable by its own name:
    # the replaced parameter is never range-checked (shared with C10 J1, inputs only)
    from gxstat.runner import Renamed
    from gxstat.registry import get_registry
    reg = get_registry(ctx.repo)
    n10 = 0
    for d in reg.decls:
        if not d.is_input or d.dict_name is None or d.key_attr is None:
            continue
        n10 += 1
        ctx.check(d.key_attr == d.attr, 'V10', f'{d.owner}.{d.attr}/registered-under-own-name', d.where,
                  f'{d.owner}.{d.attr} ({d.name!r}) is registered under `{d.key_expr}`: it replaces that parameter in ParameterDict, so a value the '
                  f'user gives for the replaced parameter is never read or range-checked (and this one is unreachable by its own name)',
                  fact='registered under its own Name')
    ctx.floor('V10', n10, 250, 'registered input declarations')
    # V11: a result cache in front of the reader must not answer a request from another request's entry (an invalid input would
    # then return an earlier valid result instead of being rejected) - shared with C08 P5
    from rules.c08 import check_p5
    check_p5(Renamed(ctx, {'P5': 'V11'}))
    # V12: only the validated store of ReadParameter may write an input's value inside Parameter.py's reading path
    cu = ctx.repo.module('geophires_x/Parameter.py').functions.get('ConvertUnits')
    ctx.require(cu is not None, 'Parameter.ConvertUnits not found')
    st12 = [st for st in ast.walk(cu.node) if isinstance(st, (ast.Assign, ast.AugAssign)) and
            any(norm(t) == f'{P}.value' for t in (st.targets if isinstance(st, ast.Assign) else [st.target]))]
    ctx.check(not st12, 'V12', 'ConvertUnits/does-not-store-the-value', f'{cu.module.rel}:{st12[0].lineno if st12 else cu.node.lineno}',
              f'`{norm(st12[0])[:80] if st12 else ""}` stores an unvalidated value before the range test; the reader then returns early on '
              f'"new value == current value" and the value is never range-checked', fact='ConvertUnits returns text only')
    ctx.rule('V13', 'an entry that a read_parameters adds to the input map (a deprecated name mapped onto the current one) is added before the '
                    'reader loop runs: added afterwards it is neither range-checked nor used, and the stated value is silently dropped')
    n13 = 0
    for f in ctx.repo.all_functions():
        if f.name != 'read_parameters' or f.cls is None:
            continue
        loops = [lp for lp in ast.walk(f.node) if isinstance(lp, (ast.For, ast.While)) and
                 any(isinstance(c, ast.Call) and (dotted_name(c.func) or '').split('.')[-1] == 'ReadParameter' for c in ast.walk(lp))]
        if not loops:
            continue
        first_loop = min(lp.lineno for lp in loops)

        def _adds(node):
            return [st for st in ast.walk(node) if isinstance(st, ast.Assign) and any(
                isinstance(t, ast.Subscript) and norm(t.value).split('.')[-1] == 'InputParameters' for t in st.targets)]
        sites = [(st.lineno, st) for st in _adds(f.node)]
        for c in ast.walk(f.node):
            if isinstance(c, ast.Call) and isinstance(c.func, ast.Attribute) and isinstance(c.func.value, ast.Name) and c.func.value.id == 'self':
                m = ctx.repo.resolve_method(f.cls, c.func.attr)
                if m is not None and m is not f and m.name != 'read_parameters' and _adds(m.node):
                    sites.append((c.lineno, c))
        for ln, st in sites:
            n13 += 1
            ctx.check(ln < first_loop, 'V13', f'{f.qualname}/input-map-entry-added-before-the-reader-loop', f'{f.module.rel}:{ln}',
                      f'`{norm(st)[:90]}` adds an entry to the input map after the reader loop of {f.qualname} (line {first_loop}) has run: the value '
                      f'given under the mapped name is never validated and never stored - an out-of-range figure is accepted and every figure '
                      f'is silently replaced by the default', fact='before the reader loop')
    if n13 == 0:
        ctx.ok('V13', 'read_parameters/no-input-map-additions', 'src/', 'no read_parameters adds entries to the input map')
    ctx.undecided('pint raising inside ConvertUnits for unit-suffixed inputs (see C06)',
                  'list-valued parameters (the property is about scalars): the listParameter arm warns and keeps')
    ctx.assume('the entry points reach validation only through the read_parameters methods resolved here')
    ctx.exhaustive = True
