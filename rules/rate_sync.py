"""Shared by C01 (discount rate of the levelized cost), C04 (rate of NPV/VIR) and C09 (the `Interest Rate` line): the functions that
keep Discount Rate, Fixed Internal Rate and the displayed Interest Rate in step.

 S1  `A.value = B.quantity().to(convertible_unit(U)).magnitude`: U is A's own CurrentUnits (the number stored in A is in A's unit);
 S2  inside a sync function, a value stored into an output/input after the sync stores is computed from the synced object itself,
     not from a local that was computed before the store (stale copy)."""
from __future__ import annotations

import ast
from typing import List

from gxstat.srcmodel import AnalysisError, dotted_name, norm

INFO_CLASSES = ('AGSWellBores', 'AGSEconomics', 'SurfacePlantAGS', 'AGSOutputs')


def conversion_assignments(repo):
    out = []
    for f in repo.all_functions():
        if not f.module.rel.startswith('src/geophires_x/') or f.module.rel.endswith('geophires_x/Parameter.py'):
            continue
        for st in ast.walk(f.node):
            if isinstance(st, ast.Assign) and len(st.targets) == 1 and isinstance(st.targets[0], ast.Attribute) and st.targets[0].attr == 'value' \
                    and norm(st.value).endswith('.magnitude'):
                tos = [c for c in ast.walk(st.value) if isinstance(c, ast.Call) and isinstance(c.func, ast.Attribute) and c.func.attr == 'to' and c.args]
                if tos:
                    out.append((f, st, norm(st.targets[0].value), tos[-1].args[0]))
    return out


def _strip(n: ast.AST) -> ast.AST:
    while isinstance(n, ast.Call) and dotted_name(n.func) in ('convertible_unit', 'str') and len(n.args) == 1:
        n = n.args[0]
    return n


def check_rate_sync(ctx, rule: str, only_functions=None) -> int:
    repo = ctx.repo
    n = 0
    for f, st, target, unit in conversion_assignments(repo):
        if only_functions is not None and f.name not in only_functions:
            continue
        n += 1
        u = _strip(unit)
        key = f'{f.qualname}/{target}.value:=converted/unit-is-targets-own'
        where = f'{f.module.rel}:{st.lineno}'
        if isinstance(u, ast.Constant):
            ctx.ok(rule, key, where, f'literal unit {u.value!r}')
            continue
        ok = norm(u) in (f'{target}.CurrentUnits', f'{target}.CurrentUnits.value')
        msg = (f'`{norm(st)[:110]}` stores into {target} a number expressed in `{norm(u)[:50]}`; {target}.value is read everywhere as a number in '
               f'{target}.CurrentUnits (a rate kept as a fraction would be stored as a percentage, or the reverse: 9 % becomes 900 %)')
        if f.cls is not None and f.cls.name in INFO_CLASSES:
            if not ok:
                ctx.info(f'{rule} {where} {key}: {msg}')
            continue
        ctx.check(ok, rule, key, where, msg, fact=f'converted to {target}.CurrentUnits')
    # S4: every object that discounts gets synchronised.  Each Economics-derived object carries its own copies of Discount Rate / Fixed Internal
    # Rate (the add-on and S-DAC-GT economics included) and reads them in its own read_parameters; the sync therefore has to run on every one
    # of them, which it does exactly when it is invoked on `self` from a read_parameters that every subclass chain passes through.
    for f in repo.all_functions():
        if not (f.name.startswith('sync_') and f.cls is not None and f.cls.name == 'Economics'):
            continue
        if only_functions is not None and f.name not in only_functions:
            continue
        n += 1
        sites = [(g, c) for g in repo.all_functions() for c in ast.walk(g.node)
                 if isinstance(c, ast.Call) and isinstance(c.func, ast.Attribute) and c.func.attr == f.name]
        on_self = [(g, c) for g, c in sites if norm(c.func.value) == 'self' and g.cls is not None and g.cls.name == 'Economics' and g.name == 'read_parameters']
        synced = {s_.targets[0].value.attr for s_ in ast.walk(f.node) if isinstance(s_, ast.Assign) and isinstance(s_.targets[0], ast.Attribute)
                  and s_.targets[0].attr == 'value' and isinstance(s_.targets[0].value, ast.Attribute)}

        def _uses(ci) -> bool:
            # the object needs the sync when code of its own class (or the Calculate it resolves to) reads one of the synchronised parameters
            fns = list(ci.methods.values())
            calc = repo.resolve_method(ci, 'Calculate')
            if calc is not None and calc not in fns:
                fns.append(calc)
            return any(isinstance(x, ast.Attribute) and x.attr in synced and isinstance(x.value, ast.Name) and x.value.id == 'self'
                       and isinstance(x.ctx, ast.Load) for g_ in fns for x in ast.walk(g_.node))
        subs = [ci for ci in repo.subclasses(f.cls) if _uses(ci)]
        chain_ok = bool(on_self)
        missing = []
        if on_self:
            for ci in subs:
                rp = repo.resolve_method(ci, 'read_parameters')
                cur, reaches, hops = rp, False, 0
                while cur is not None and hops < 6:
                    hops += 1
                    if cur.cls is not None and cur.cls.name == 'Economics':
                        reaches = True
                        break
                    sup = any(isinstance(c, ast.Call) and isinstance(c.func, ast.Attribute) and c.func.attr == 'read_parameters' and
                              norm(c.func.value).startswith('super()') for c in ast.walk(cur.node))
                    own = any(isinstance(c, ast.Call) and isinstance(c.func, ast.Attribute) and c.func.attr == f.name and norm(c.func.value) == 'self'
                              for c in ast.walk(cur.node))
                    if own:
                        reaches = True
                        break
                    if not sup:
                        break
                    nxt = None
                    for b in repo.mro(cur.cls)[1:]:
                        if 'read_parameters' in b.methods:
                            nxt = b.methods['read_parameters']
                            break
                    cur = nxt
                if not reaches:
                    missing.append(ci.name)
        else:
            missing = [ci.name for ci in subs] or ['Economics']
        ctx.check(chain_ok and not missing, rule, f'Economics.{f.name}/runs-on-every-economics-object', f.where,
                  f'{f.name} is not invoked on `self` from a read_parameters that every Economics-derived object passes through '
                  f'({", ".join(sorted(missing)[:4])} not covered; call sites: {[g.qualname for g, _ in sites][:3]}): such an object keeps its own default '
                  f'Discount Rate / Fixed Internal Rate although the user stated another, and its NPV, VIR and levelized costs use the default',
                  fact='self.%s(...) inside Economics.read_parameters; every subclass chain reaches it' % f.name)
    # S2 in sync functions
    for f in repo.all_functions():
        if not (f.name.startswith('sync_') and f.cls is not None and f.cls.name.endswith('Economics')):
            continue
        if only_functions is not None and f.name not in only_functions:
            continue
        body = list(ast.walk(f.node))
        stores = [s for s in body if isinstance(s, ast.Assign) and isinstance(s.targets[0], ast.Attribute) and s.targets[0].attr == 'value']
        locs = [s for s in body if isinstance(s, ast.Assign) and len(s.targets) == 1 and isinstance(s.targets[0], ast.Name)]
        stale = []
        for L in locs:
            objs = {norm(a.value) for a in ast.walk(L.value) if isinstance(a, ast.Attribute) and a.attr == 'value'} | \
                   {norm(c.func.value) for c in ast.walk(L.value) if isinstance(c, ast.Call) and isinstance(c.func, ast.Attribute) and c.func.attr == 'quantity'}
            for S in stores:
                if norm(S.targets[0].value) in objs and S.lineno > L.lineno:
                    for T in stores:
                        if T.lineno > S.lineno and any(isinstance(x, ast.Name) and x.id == L.targets[0].id for x in ast.walk(T.value)):
                            stale.append((L, S, T))
        n += 1
        key = f'{f.qualname}/no-stale-copy-after-sync'
        if stale:
            L, S, T = stale[0]
            ctx.bad(rule, key, f'{f.module.rel}:{T.lineno}',
                    f'`{norm(T)[:90]}` uses `{L.targets[0].id}`, computed at line {L.lineno} from {norm(S.targets[0].value)}, although line {S.lineno} '
                    f'assigns {norm(S.targets[0])} in between: the stored figure is the value from before the synchronisation (the report would '
                    f'state 7 % while the run discounts at the user\'s 4.2 %)')
        else:
            ctx.ok(rule, key, f.where, 'values stored after the sync read the synced objects directly')
    return n


def check_sync_guards(ctx, rule: str) -> int:
    """S3: a sync function copies a value the user gave into a companion parameter the user did not give.  "Did the user give it" is
    `.Provided`; `.Valid` is declared True for every parameter and only turns False on a rejected value, so a guard on `.Valid`
    never lets the copy happen (the companion stays at its default)."""
    repo = ctx.repo
    n = 0
    for f in repo.all_functions():
        if not (f.name.startswith('sync_') and f.cls is not None and f.cls.name.endswith('Economics')):
            continue
        for node in ast.walk(f.node):
            if not isinstance(node, ast.If):
                continue
            flags = [a for a in ast.walk(node.test) if isinstance(a, ast.Attribute) and a.attr in ('Provided', 'Valid')]
            if not flags:
                continue
            n += 1
            bad = [a for a in flags if a.attr == 'Valid']
            ctx.check(not bad, rule, f'{f.qualname}/guard:{norm(node.test)[:50]}/asks-Provided', f'{f.module.rel}:{node.lineno}',
                      f'`{norm(node.test)[:110]}` decides with `.Valid` whether the user supplied {norm(bad[0].value) if bad else ""}: Valid is True unless '
                      f'a value was rejected, so the companion parameter is never synchronised and keeps its default (scaling all cost inputs '
                      f'no longer scales the result)', fact='guards test .Provided')
    return n
