"""Shared by C01 (discount rate of the levelized cost), C04 (rate of NPV/VIR) and C09 (the `Interest Rate` line): the functions that
keep Discount Rate, Fixed Internal Rate and the displayed Interest Rate in step.

 S1  `A.value = B.quantity().to(convertible_unit(U)).magnitude`: U is A's own CurrentUnits (the number stored in A is in A's unit);
 S2  inside a sync function, a value stored into an output/input after the sync stores is computed from the synced object itself,
     not from a local that was computed before the store (stale copy)."""
from __future__ import annotations

import ast
from typing import List

from gxstat.srcmodel import AnalysisError, dotted_name, norm

INFO_CLASSES = ('AGSWellBores', 'AGSEconomics', 'SurfacePlantAGS', 'AGSOutputs')


def conversion_assignments(repo):
    out = []
    for f in repo.all_functions():
        if not f.module.rel.startswith('src/geophires_x/') or f.module.rel.endswith('geophires_x/Parameter.py'):
            continue
        for st in ast.walk(f.node):
            if isinstance(st, ast.Assign) and len(st.targets) == 1 and isinstance(st.targets[0], ast.Attribute) and st.targets[0].attr == 'value' \
                    and norm(st.value).endswith('.magnitude'):
                tos = [c for c in ast.walk(st.value) if isinstance(c, ast.Call) and isinstance(c.func, ast.Attribute) and c.func.attr == 'to' and c.args]
                if tos:
                    out.append((f, st, norm(st.targets[0].value), tos[-1].args[0]))
    return out


def _strip(n: ast.AST) -> ast.AST:
    while isinstance(n, ast.Call) and dotted_name(n.func) in ('convertible_unit', 'str') and len(n.args) == 1:
        n = n.args[0]
    return n


def check_rate_sync(ctx, rule: str, only_functions=None) -> int:
    repo = ctx.repo
    n = 0
    for f, st, target, unit in conversion_assignments(repo):
        if only_functions is not None and f.name not in only_functions:
            continue
        n += 1
        u = _strip(unit)
        key = f'{f.qualname}/{target}.value:=converted/unit-is-targets-own'
        where = f'{f.module.rel}:{st.lineno}'
        if isinstance(u, ast.Constant):
            ctx.ok(rule, key, where, f'literal unit {u.value!r}')
            continue
        ok = norm(u) in (f'{target}.CurrentUnits', f'{target}.CurrentUnits.value')
        msg = (f'`{norm(st)[:110]}` stores into {target} a number expressed in `{norm(u)[:50]}`; {target}.value is read everywhere as a number in '
               f'{target}.CurrentUnits (a rate kept as a fraction would be stored as a percentage, or the reverse: 9 % becomes 900 %)')
        if f.cls is not None and f.cls.name in INFO_CLASSES:
            if not ok:
                ctx.info(f'{rule} {where} {key}: {msg}')
            continue
        ctx.check(ok, rule, key, where, msg, fact=f'converted to {target}.CurrentUnits')
    # S2 in sync functions
    for f in repo.all_functions():
        if not (f.name.startswith('sync_') and f.cls is not None and f.cls.name.endswith('Economics')):
            continue
        if only_functions is not None and f.name not in only_functions:
            continue
        body = list(ast.walk(f.node))
        stores = [s for s in body if isinstance(s, ast.Assign) and isinstance(s.targets[0], ast.Attribute) and s.targets[0].attr == 'value']
        locs = [s for s in body if isinstance(s, ast.Assign) and len(s.targets) == 1 and isinstance(s.targets[0], ast.Name)]
        stale = []
        for L in locs:
            objs = {norm(a.value) for a in ast.walk(L.value) if isinstance(a, ast.Attribute) and a.attr == 'value'} | \
                   {norm(c.func.value) for c in ast.walk(L.value) if isinstance(c, ast.Call) and isinstance(c.func, ast.Attribute) and c.func.attr == 'quantity'}
            for S in stores:
                if norm(S.targets[0].value) in objs and S.lineno > L.lineno:
                    for T in stores:
                        if T.lineno > S.lineno and any(isinstance(x, ast.Name) and x.id == L.targets[0].id for x in ast.walk(T.value)):
                            stale.append((L, S, T))
        n += 1
        key = f'{f.qualname}/no-stale-copy-after-sync'
        if stale:
            L, S, T = stale[0]
            ctx.bad(rule, key, f'{f.module.rel}:{T.lineno}',
                    f'`{norm(T)[:90]}` uses `{L.targets[0].id}`, computed at line {L.lineno} from {norm(S.targets[0].value)}, although line {S.lineno} '
                    f'assigns {norm(S.targets[0])} in between: the stored figure is the value from before the synchronisation (the report would '
                    f'state 7 % while the run discounts at the user\'s 4.2 %)')
        else:
            ctx.ok(rule, key, f.where, 'values stored after the sync read the synced objects directly')
    return n


def check_sync_guards(ctx, rule: str) -> int:
    """S3: a sync function copies a value the user gave into a companion parameter the user did not give.  "Did the user give it" is
    `.Provided`; `.Valid` is declared True for every parameter and only turns False on a rejected value, so a guard on `.Valid`
    never lets the copy happen (the companion stays at its default)."""
    repo = ctx.repo
    n = 0
    for f in repo.all_functions():
        if not (f.name.startswith('sync_') and f.cls is not None and f.cls.name.endswith('Economics')):
            continue
        for node in ast.walk(f.node):
            if not isinstance(node, ast.If):
                continue
            flags = [a for a in ast.walk(node.test) if isinstance(a, ast.Attribute) and a.attr in ('Provided', 'Valid')]
            if not flags:
                continue
            n += 1
            bad = [a for a in flags if a.attr == 'Valid']
            ctx.check(not bad, rule, f'{f.qualname}/guard:{norm(node.test)[:50]}/asks-Provided', f'{f.module.rel}:{node.lineno}',
                      f'`{norm(node.test)[:110]}` decides with `.Valid` whether the user supplied {norm(bad[0].value) if bad else ""}: Valid is True unless '
                      f'a value was rejected, so the companion parameter is never synchronised and keeps its default (scaling all cost inputs '
                      f'no longer scales the result)', fact='guards test .Provided')
    return n
