"""C05 -- resource temperature and thermal drawdown obey the model definition.

D1 the Tmax depth cap dominates everything that locates / computes bottom-hole temperature, D2 layer-walk shape,
D3 the reservoir temperature history starts at bottom-hole temperature in the four analytical models, D4 redrilling
tiling, D5 models 3/4: monotone decline bounded by BHT under Trock >= Tinj (which nothing enforces: known finding)."""
from __future__ import annotations

import ast
from fractions import Fraction
from typing import Dict, List, Optional

from gxstat.algebra import Poly, Rat, Translator, Unsupported
from gxstat.depgraph import def_sites, deps_of
from gxstat.flowutil import guards_of
from gxstat.loops import loop_stores
from gxstat.callgraph import get_callgraph
from gxstat.srcmodel import AnalysisError, calls_in, dotted_name, norm
from gxstat.symflow import target_key

R = 'model.reserv'
TROCK = f'{R}.Trock.value'
TINJ = 'model.wellbores.Tinj.value'


def _tr(node, **kw) -> Rat:
    try:
        return Translator(**kw).tr(node)
    except Unsupported as e:
        raise AnalysisError(f'unsupported expression: {e}')


def check_d1_d2(ctx) -> None:
    f = ctx.repo.method('Reservoir', 'Calculate', 'geophires_x/Reservoir.py')
    # read on the canonical form: locals bound once to an attribute path (`gradients = self.gradient.value`) are that path
    import dataclasses
    from gxstat.inline import canonical_function, inline_block_locals
    f = dataclasses.replace(f, node=canonical_function(f.node, unnest=False))
    rel = f.module.rel
    top = list(f.node.body)
    ctx.local_anchor(f, 'maxdepth', 'temperatureindex', 'intersecttemperature', 'totaldepth')
    caps = [s for s in top if (isinstance(s, ast.If) and norm(s.test) in ('self.depth.value > maxdepth', 'maxdepth < self.depth.value') and
                               any(isinstance(x, ast.Assign) and norm(x.targets[0]) == 'self.depth.value' and norm(x.value) == 'maxdepth' for x in s.body))
            or (isinstance(s, ast.Assign) and norm(s.targets[0]) == 'self.depth.value' and norm(s.value) in ('min(self.depth.value, maxdepth)', 'min(maxdepth, self.depth.value)'))]
    if not caps:
        ctx.bad('D1', 'Reservoir.Calculate/Tmax-depth-cap', f.where,
                'the reservoir depth is no longer reduced to the depth at which the maximum allowed temperature is reached '
                '(`if depth > maxdepth: depth = maxdepth` not found at the top level of Calculate)')
        return
    cap = caps[0]
    ctx.ok('D1', 'Reservoir.Calculate/Tmax-depth-cap', f'{rel}:{cap.lineno}', 'depth := min(depth, maxdepth)')
    sites = def_sites(f.node)
    deps, why = deps_of(f.node, {'self.Trock.value'}, sites=sites, control=False)
    users = [s for s in sites if (s.keys & deps or 'self.Trock.value' in s.keys) and 'self.depth.value' in s.reads
             and 'self.depth.value' not in s.keys]
    ctx.floor('D1', len(users), 2, 'statements feeding bottom-hole temperature that read the depth')
    for s in users:
        k = sorted(s.keys)[0]
        ctx.check(s.stmt.lineno > cap.lineno, 'D1', f'Reservoir.Calculate/{k}/uses-capped-depth', f'{rel}:{s.stmt.lineno}',
                  f'`{norm(s.stmt)[:90]}` reads the reservoir depth before it is capped at the maximum-temperature depth (line {cap.lineno}), but '
                  f'bottom-hole temperature is computed from its result: the segment / temperature is taken at the requested depth and can '
                  f'exceed the maximum allowed temperature', fact='reads depth after the cap')
    # maxdepth is computed from Tmax
    md = [s for s in sites if 'maxdepth' in s.keys]
    ctx.check(any('self.Tmax.value' in s.reads for s in md), 'D1', 'Reservoir.Calculate/maxdepth-from-Tmax', f.where,
              'maxdepth does not depend on the maximum temperature')
    # ---- D2 layer walk
    a = Rat.atom

    def at(n):
        if isinstance(n, ast.Subscript):
            return f'{norm(n.value)}[{norm(n.slice)}]'
        return None
    tr = [s for s in top if isinstance(s, ast.Assign) and norm(s.targets[0]) == 'self.Trock.value']
    ctx.require(len(tr) == 1, 'Reservoir.Calculate: Trock definition not found')
    v = _tr(inline_block_locals(tr[0].value, tr[0], keep=('temperatureindex', 'intersecttemperature', 'totaldepth', 'maxdepth')), atom_of=at)
    idx = 'temperatureindex'
    want = a(f'intersecttemperature[{idx}]') + a(f'self.gradient.value[{idx}]') * (a('self.depth.value') - a(f'totaldepth[{idx}]'))
    ctx.check(v.equals(want), 'D2', 'Reservoir.Calculate/Trock', f'{rel}:{tr[0].lineno}',
              f'bottom-hole temperature is `{v.show()}`; expected temperature at the top of the segment + that segment\'s gradient x depth into '
              f'it, all three taken at one common segment index', fact='T[k] + g[k] * (depth - z[k])')
    first = [s for s in ast.walk(f.node) if isinstance(s, ast.Assign) and norm(s.targets[0]) == 'intersecttemperature[0]']
    ctx.require(len(first) == 1, 'Reservoir.Calculate: first interface temperature not found')
    v0 = _tr(first[0].value, atom_of=at)
    ctx.check(v0.equals(a('self.Tsurf.value') + a('self.gradient.value[0]') * a('self.layerthickness.value[0]')), 'D2',
              'Reservoir.Calculate/first-interface', f'{rel}:{first[0].lineno}', f'first interface temperature is `{v0.show()}`')
    rec = [s for s in loop_stores(f.node) if s.key == 'intersecttemperature' and s.loops]
    ctx.require(len(rec) == 1, 'Reservoir.Calculate: interface recurrence not found')
    i = rec[0].loops[0].var
    vr = _tr(rec[0].value, atom_of=at)
    ctx.check(vr.equals(a(f'intersecttemperature[{i} - 1]') + a(f'self.gradient.value[{i}]') * a(f'self.layerthickness.value[{i}]')) and
              norm(rec[0].index) == i, 'D2', 'Reservoir.Calculate/interface-recurrence', f'{rel}:{rec[0].line}',
              f'interface temperatures: `{norm(rec[0].stmt)[:100]}`; expected T[i] = T[i-1] + gradient[i] x thickness[i] (equal subscripts)')
    check_maxdepth(ctx, f, 'D2')
    pre = [s for s in top if isinstance(s, ast.Assign) and norm(s.targets[0]) == 'intersecttemperature' and 'self.Tsurf.value' in norm(s.value)]
    ctx.check(len(pre) == 1 and norm(pre[0].value) == '[self.Tsurf.value] + intersecttemperature', 'D2',
              'Reservoir.Calculate/surface-prepended', f'{rel}:{pre[0].lineno if pre else f.node.lineno}', 'surface temperature is not prepended to the interface temperatures')
    td = [s for s in top if isinstance(s, ast.Assign) and norm(s.targets[0]) == 'totaldepth']
    ctx.check(len(td) == 1 and norm(td[0].value) == 'np.append(np.array([0.0]), np.cumsum(self.layerthickness.value))', 'D2',
              'Reservoir.Calculate/interface-depths', f'{rel}:{td[0].lineno if td else f.node.lineno}', 'interface depths are not [0] + cumulative thickness')
    ti = [s for s in top if isinstance(s, ast.Assign) and norm(s.targets[0]) == idx]
    ctx.check(len(ti) == 1 and norm(ti[0].value) == 'max((loc for loc, val in enumerate(self.depth.value > totaldepth) if val))', 'D2',
              'Reservoir.Calculate/segment-index', f'{rel}:{ti[0].lineno if ti else f.node.lineno}',
              f'segment lookup is `{norm(ti[0].value) if ti else "?"}`; expected the deepest interface above the (capped) depth')
    tv = [s for s in top if isinstance(s, ast.Assign) and norm(s.targets[0]) == 'self.timevector.value']
    ok = len(tv) == 1 and isinstance(tv[0].value, ast.Call) and dotted_name(tv[0].value.func) == 'np.linspace' and norm(tv[0].value.args[0]) == '0'
    ctx.check(ok, 'D3', 'Reservoir.Calculate/time-starts-at-zero', f'{rel}:{tv[0].lineno if tv else f.node.lineno}', 'the time vector does not start at 0')


def check_maxdepth(ctx, f, rule: str) -> None:
    """Depth at which Tmax is reached: thicknesses of the segments above + headroom over the last interface divided by the
    gradient of the segment in which Tmax is reached (one consistent segment index)."""
    import dataclasses
    from gxstat.inline import canonical_function
    f = dataclasses.replace(f, node=canonical_function(f.node, unnest=False))
    rel = f.module.rel
    a = Rat.atom

    def at(n):
        if isinstance(n, ast.Subscript):
            return f'{norm(n.value)}[{norm(n.slice)}]'
        return None
    cands = [s for s in ast.walk(f.node) if isinstance(s, ast.Assign) and norm(s.targets[0]) == 'maxdepth' and 'self.Tmax.value' in norm(s.value)]
    ctx.floor(rule, len(cands), 2, 'maxdepth definitions')
    ctx.require(any('layerindex' in norm(s.value) for s in cands) and any('layerindex' not in norm(s.value) for s in cands),
                'Reservoir.Calculate: expected a first-segment and a multi-segment definition of maxdepth (idiom changed)')
    for s in cands:
        v = _tr(s.value, atom_of=at)
        if 'layerindex' in norm(s.value):
            k = 'layerindex'
            want = a('maxdepth') + (a('self.Tmax.value') - a(f'intersecttemperature[{k} - 1]')) / a(f'self.gradient.value[{k}]')
            key, txt = 'Reservoir.Calculate/maxdepth/multi-segment', 'depth of the interfaces above + (Tmax - T[k-1]) / gradient[k]'
        else:
            want = (a('self.Tmax.value') - a('self.Tsurf.value')) / a('self.gradient.value[0]')
            key, txt = f'Reservoir.Calculate/maxdepth/first-segment@{"single" if any("numseg" in norm(t) for t, p_ in guards_of(s, f.node)) and len(guards_of(s, f.node)) == 1 else "multi"}', '(Tmax - Tsurf) / gradient[0]'
        ctx.check(v.equals(want), rule, key, f'{rel}:{s.lineno}',
                  f'maximum-temperature depth is `{v.show()}`; expected {txt}: the temperature headroom must be divided by the gradient of '
                  f'the segment in which Tmax is reached, otherwise bottom-hole temperature responds wrongly (even non-monotonically) to a '
                  f'gradient', fact=txt)
    acc = [s for s in loop_stores(f.node) if False]
    sums = [s for s in ast.walk(f.node) if isinstance(s, ast.Assign) and norm(s.targets[0]) == 'maxdepth' and 'layerthickness' in norm(s.value)]
    for s in sums:
        v = _tr(s.value, atom_of=at)
        loops = [p_ for p_ in ast.walk(f.node) if isinstance(p_, ast.For) and any(x is s for x in ast.walk(p_))]
        rargs = [norm(x) for x in loops[-1].iter.args] if loops and isinstance(loops[-1].iter, ast.Call) and dotted_name(loops[-1].iter.func) == 'range' else []
        rargs = ['0'] + rargs if len(rargs) == 1 else rargs[:2] if len(rargs) == 3 and rargs[2] == '1' else rargs
        ok = bool(loops) and v.equals(a('maxdepth') + a(f'self.layerthickness.value[{norm(loops[-1].target)}]')) and rargs == ['0', 'layerindex']
        ctx.check(ok, rule, 'Reservoir.Calculate/maxdepth/segments-above', f'{rel}:{s.lineno}',
                  f'`{norm(s)[:80]}` over range({", ".join(norm(x) for x in loops[-1].iter.args) if loops else "?"}): the segments above the one in '
                  f'which Tmax is reached are [0, layerindex)')


def check_d3_d5(ctx) -> None:
    repo = ctx.repo
    a = Rat.atom
    # TDP (model 4)
    f = repo.method('TDPReservoir', 'Calculate')
    st = [s for s in f.node.body if isinstance(s, ast.Assign) and norm(s.targets[0]) == f'{R}.Tresoutput.value']
    ctx.require(len(st) == 1, 'TDPReservoir.Calculate: Tresoutput definition not found')
    from gxstat.inline import inline_sequential
    v = _tr(inline_sequential(st[0].value, st[0]))          # over named intermediates
    t, dd = f'{R}.timevector.value', f'{R}.drawdp.value'
    want = (Rat.const(1) - a(dd) * a(t)) * (a(TROCK) - a(TINJ)) + a(TINJ)
    ctx.check(v.equals(want), 'D5', 'TDPReservoir.Calculate/formula', f'{f.module.rel}:{st[0].lineno}',
              f'percentage-drawdown temperature is `{v.show()}`; expected (1 - rate x t)(BHT - Tinj) + Tinj', fact='(1 - d t)(Trock - Tinj) + Tinj')
    v0 = Rat(Poly({m: c for m, c in v.n.t.items() if not any(x == t for x, _ in m)}), v.d)
    ctx.check(v0.equals(a(TROCK)), 'D3', 'TDPReservoir.Calculate/starts-at-BHT', f'{f.module.rel}:{st[0].lineno}',
              f'at t = 0 the reservoir temperature is `{v0.show()}`, not bottom-hole temperature')
    ct = v.n.coefficient_of(t)
    ctx.check(Rat(ct, v.d).equals(Rat.const(-1) * a(dd) * (a(TROCK) - a(TINJ))), 'D5', 'TDPReservoir.Calculate/slope', f'{f.module.rel}:{st[0].lineno}',
              'the time slope is not -rate x (BHT - Tinj) (non-positive when BHT >= Tinj)', fact='slope = -d (Trock - Tinj)')
    sup = [c for c in calls_in(f.node) if isinstance(c.func, ast.Attribute) and c.func.attr == 'Calculate' and isinstance(c.func.value, ast.Call)]
    ctx.check(bool(sup) and sup[0].lineno < st[0].lineno, 'D3', 'TDPReservoir.Calculate/after-parent', f.where, 'parent Calculate (BHT) does not run first')
    # SF (model 3)
    import dataclasses
    from gxstat.inline import canonical_function
    g = repo.method('SFReservoir', 'Calculate')
    g = dataclasses.replace(g, node=canonical_function(g.node, unnest=False, short=True))        # `reserv = model.reserv`, `t0 = reserv.Trock.value` are those paths
    first = [s for s in g.node.body if isinstance(s, ast.Assign) and norm(s.targets[0]) == f'{R}.Tresoutput.value[0]']
    ctx.check(len(first) == 1 and norm(first[0].value) == TROCK, 'D3', 'SFReservoir.Calculate/starts-at-BHT', f'{g.module.rel}:{first[0].lineno if first else g.node.lineno}',
              'the first element of the single-fracture temperature history is not set to bottom-hole temperature '
              '(the loop starts at index 1 because the formula is singular at t = 0)', fact='Tresoutput[0] = Trock')
    ls = [s for s in loop_stores(g.node) if s.key == f'{R}.Tresoutput.value' and s.loops]
    if len(ls) != 1:
        # vectorised form: the first element must still be pinned to BHT explicitly (the formula is singular at t = 0)
        pinned = any(isinstance(s_, ast.Assign) and norm(s_.targets[0]) == f'{R}.Tresoutput.value' and
                     norm(s_.value).startswith(f'np.append([{TROCK}]') for s_ in g.node.body)
        if not first and not pinned:
            ctx.info('D5 SFReservoir.Calculate: history is not computed by the recognised element loop; formula clauses not re-checked')
        else:
            ctx.info('D5 SFReservoir.Calculate: vectorised history; formula clauses not re-checked')
    else:
        lp = ls[0].loops[0]
        ctx.check(lp.start.equals(Rat.const(1)) and norm(lp.node.iter.args[-1] if len(lp.node.iter.args) < 3 else lp.node.iter.args[1]) == f'len({R}.timevector.value)',
                  'D3', 'SFReservoir.Calculate/loop-range', f'{g.module.rel}:{ls[0].line}', f'history loop runs over {lp.show()}; expected [1, len(time))')
        from gxstat.inline import inline_block_locals
        st_ = next((x for x in ast.walk(lp.node) if isinstance(x, ast.Assign) and x.value is ls[0].value), None)
        val = inline_block_locals(ls[0].value, st_, g.module.tree) if st_ is not None else ls[0].value

        def hook(T, call):
            if dotted_name(call.func) in ('math.erf', 'erf'):
                return Rat.atom('ERF')
            return None
        vv = _tr(val, call_hook=hook)
        ctx.check(vv.equals(a('ERF') * (a(TROCK) - a(TINJ)) + a(TINJ)), 'D5', 'SFReservoir.Calculate/formula', f'{g.module.rel}:{ls[0].line}',
                  f'single-fracture temperature is `{vv.show()}`; expected erf(.)(BHT - Tinj) + Tinj, which stays below BHT and declines as erf\'s '
                  f'argument (proportional to 1/sqrt(t)) declines', fact='erf(x)(Trock - Tinj) + Tinj, erf in [0, 1]')
        ec = [c for c in ast.walk(val) if isinstance(c, ast.Call) and dotted_name(c.func) in ('math.erf', 'erf')]
        if ec:
            arg = norm(ec[0].args[0])
            tvi = f'{R}.timevector.value[{lp.var}]'
            ok = tvi in arg and f'/ {tvi}' in arg.replace('(', '').replace(')', '') and 'math.sqrt' in arg
            ctx.check(ok, 'D5', 'SFReservoir.Calculate/erf-argument-decreasing-in-time', f'{g.module.rel}:{ls[0].line}',
                      'time does not enter the erf argument as 1/sqrt(t)')
    # MPF / LHS (models 1, 2)
    for cn in ('MPFReservoir', 'LHSReservoir'):
        h = repo.method(cn, 'Calculate')
        h = dataclasses.replace(h, node=canonical_function(h.node, unnest=False, short=True))
        asg = [s for s in h.node.body if isinstance(s, ast.Assign) and norm(s.targets[0]) == f'{R}.Tresoutput.value']
        if len(asg) == 1:
            # one store of a value built over named intermediates: prepend and clamp are read in the composed expression
            from gxstat.inline import inline_sequential
            v1 = inline_sequential(asg[0].value, asg[0])
            t1 = norm(v1)
            pre = f'np.append([{TROCK}], ' in t1
            ctx.check(pre, 'D3', f'{cn}.Calculate/starts-at-BHT', f'{h.module.rel}:{asg[0].lineno}',
                      'bottom-hole temperature is not prepended to the inverted temperature history (the inversion starts at the second time step)',
                      fact='np.append([Trock], history)')
            if pre:
                outer_ok = t1.startswith('np.asarray([') and f'{TROCK} if x > {TROCK} or x < {TINJ} else x' in t1 and \
                    t1.index(f'np.append([{TROCK}], ') > t1.index(' for x in ')
                ctx.check(outer_ok or t1.startswith(f'np.append([{TROCK}], '), 'D3', f'{cn}.Calculate/no-rewrite-after-prepend', f'{h.module.rel}:{asg[0].lineno}',
                          f'`{t1[:80]}` rewrites the history after bottom-hole temperature was prepended')
            continue
        ctx.require(len(asg) >= 2, f'{cn}.Calculate: Tresoutput assignments not found')
        app = [s for s in asg if norm(s.value) == f'np.append([{TROCK}], {R}.Tresoutput.value)']
        ctx.check(len(app) == 1, 'D3', f'{cn}.Calculate/starts-at-BHT', f'{h.module.rel}:{asg[-1].lineno}',
                  'bottom-hole temperature is not prepended to the inverted temperature history (the inversion starts at the second time step)',
                  fact='np.append([Trock], history)')
        if app:
            later = [s for s in asg if s.lineno > app[0].lineno]
            for s in later:
                # only an element-wise clamp that maps Trock to Trock may follow
                txt = norm(s.value)
                ok = txt.startswith('np.asarray([') and f'{TROCK} if x > {TROCK} or x < {TINJ} else x' in txt
                ctx.check(ok, 'D3', f'{cn}.Calculate/no-rewrite-after-prepend', f'{h.module.rel}:{s.lineno}',
                          f'`{txt[:80]}` rewrites the history after bottom-hole temperature was prepended')
    # D5 assumption: nothing enforces Trock >= Tinj
    res = repo.method('Reservoir', 'Calculate', 'geophires_x/Reservoir.py')
    enforced = False
    for fn in (res, f, g):
        for n in ast.walk(fn.node):
            if isinstance(n, ast.Compare) and {'Trock', 'Tinj'} <= {x.attr for x in ast.walk(n) if isinstance(x, ast.Attribute)}:
                enforced = True
    for cn, fn in (('TDPReservoir', f), ('SFReservoir', g)):
        ctx.check(enforced, 'D5', f'{cn}.Calculate/assumes-Trock>=Tinj', fn.where,
                  f'{cn}: the temperature history is BHT-bounded and non-increasing only if bottom-hole temperature >= injection temperature, '
                  f'and no code compares or rejects the two: for an accepted input with BHT < Tinj the reservoir temperature rises above BHT')


def check_d4(ctx) -> None:
    f = ctx.repo.method('WellBores', 'Calculate', 'geophires_x/WellBores.py')
    rel = f.module.rel
    idxs = [s for s in ast.walk(f.node) if isinstance(s, ast.Assign) and norm(s.targets[0]) == 'indexfirstmaxdrawdown']
    ctx.require(len(idxs) == 1, 'WellBores.Calculate: redrilling trigger not found')
    s = idxs[0]
    c = s.value
    PT = 'self.ProducedTemperature.value'
    ok = isinstance(c, ast.Call) and dotted_name(c.func) == 'np.argmax' and isinstance(c.args[0], ast.Compare) and len(c.args[0].ops) == 1
    trig_ok = False
    if ok:
        cmp_ = c.args[0]
        # local names in the comparison are expanded (single assignments before the trigger)
        loc = {}
        for x in ast.walk(f.node):
            if isinstance(x, ast.Assign) and len(x.targets) == 1 and isinstance(x.targets[0], ast.Name) and x.lineno < s.lineno:
                loc[x.targets[0].id] = x.value
        from gxstat.srcmodel import clone

        class Sub(ast.NodeTransformer):
            def visit_Name(self, n):
                if isinstance(n.ctx, ast.Load) and n.id in loc:
                    return Sub().visit(clone(loc[n.id]))
                return n
        at = lambda n: f'{norm(n.value)}[{norm(n.slice)}]' if isinstance(n, ast.Subscript) else None
        L_ = _tr(ast.fix_missing_locations(Sub().visit(clone(cmp_.left))), atom_of=at)
        R_ = _tr(ast.fix_missing_locations(Sub().visit(clone(cmp_.comparators[0]))), atom_of=at)
        op = cmp_.ops[0]
        D = (R_ - L_) if isinstance(op, (ast.Lt,)) else (L_ - R_) if isinstance(op, (ast.Gt,)) else None
        P0, P = Rat.atom(f'{PT}[0]'), Rat.atom(PT)
        for ddk in ('model.wellbores.maxdrawdown.value', 'self.maxdrawdown.value'):
            w = (Rat.const(1) - Rat.atom(ddk)) * P0 - P
            if D is not None and (D.equals(w) or D.equals(w / P0)):
                trig_ok = True
    ctx.check(trig_ok, 'D4', 'WellBores.Calculate/redrill-trigger', f'{rel}:{s.lineno}',
              f'redrilling is triggered by `{norm(c)[:110]}`; the limit is on the production temperature: first index where produced '
              f'temperature < (1 - max drawdown) x its initial value', fact='argmax(Tprod < (1 - dd) * Tprod[0])')
    g = [(norm(t), pol) for t, pol in guards_of(s, f.node)]
    models = {'ReservoirModel.MULTIPLE_PARALLEL_FRACTURES', 'ReservoirModel.LINEAR_HEAT_SWEEP', 'ReservoirModel.SINGLE_FRACTURE', 'ReservoirModel.ANNUAL_PERCENTAGE'}
    okm = len(g) == 1 and g[0][1] and all(m in g[0][0] for m in models) and 'resoption.value in' in g[0][0]
    ctx.check(okm, 'D4', 'WellBores.Calculate/redrill-models', f'{rel}:{s.lineno}', f'redrilling applies under `{g}`; expected the four analytical models')
    # produced temperature is final before the trigger
    pt_def = [x for x in f.node.body if isinstance(x, ast.Assign) and norm(x.targets[0]) == PT]
    ctx.check(len(pt_def) == 1 and norm(pt_def[0].value) == 'model.reserv.Tresoutput.value - self.ProdTempDrop.value' and pt_def[0].lineno < s.lineno, 'D4',
              'WellBores.Calculate/produced=reservoir-drop', f'{rel}:{pt_def[0].lineno if pt_def else s.lineno}',
              'produced temperature is not reservoir temperature minus the wellbore temperature drop, computed before the trigger')
    # the two series restart at every redrilling: compare the final expression stored into each, with named intermediates and
    # one-expression helper functions inlined, against tile(series[0:index], redrill + 1)[0:len(produced temperature)]
    from gxstat.inline import inline_block_locals, inline_simple_calls
    mod_fns = {n.name: n for n in f.module.tree.body if isinstance(n, ast.FunctionDef)}
    tiles = []
    finals = {}
    for series in (PT, 'model.reserv.Tresoutput.value'):
        cands = [x for x in ast.walk(f.node) if isinstance(x, ast.Assign) and norm(x.targets[0]) == series and x.lineno > s.lineno and
                 'indexfirstmaxdrawdown > 0' in [norm(t) for t, pol in guards_of(x, f.node) if pol]]
        if not cands:
            continue
        x = cands[-1]
        keep = ('indexfirstmaxdrawdown',)
        e = inline_simple_calls(inline_block_locals(x.value, x, keep=keep), mod_fns)
        finals[series] = (x, norm(e).replace(' ', ''))
        tiles.append(x)
    ctx.check(len(finals) == 2, 'D4', 'WellBores.Calculate/two-series-tiled', f'{rel}:{s.lineno}',
              f'{len(finals)} series are restarted under `indexfirstmaxdrawdown > 0`; produced and reservoir temperature both restart')
    for series, (x, txt) in finals.items():
        want = f'np.tile({series}[0:indexfirstmaxdrawdown],self.redrill.value+1)[0:len({PT})]'
        ctx.check(txt == want.replace(' ', ''), 'D4', f'WellBores.Calculate/tile:{series}', f'{rel}:{x.lineno}',
                  f'after redrilling {series} is `{txt[:120]}`: each cycle must replay exactly the elements before the first below-limit index '
                  f'(slice [0:index]), redrill + 1 times, cut to the original length', fact='tile(series[0:idx], redrill + 1)[0:len]')
    rd = [x for x in ast.walk(f.node) if isinstance(x, ast.Assign) and norm(x.targets[0]) == 'self.redrill.value']
    ctx.check(len(rd) == 1 and norm(rd[0].value) == f'int(np.floor(len({PT}) / indexfirstmaxdrawdown))', 'D4', 'WellBores.Calculate/redrill-count',
              f'{rel}:{rd[0].lineno if rd else s.lineno}', f'number of redrillings is `{norm(rd[0].value) if rd else "?"}`')
    g2 = [norm(t) for t, pol in guards_of(tiles[0], f.node)] if tiles else []
    ctx.check('indexfirstmaxdrawdown > 0' in g2, 'D4', 'WellBores.Calculate/redrill-only-if-limit-reached', f'{rel}:{s.lineno}', 'tiling is not guarded by index > 0')


def _is_store_base(name_node: ast.Name) -> bool:
    """The name occurs only as the base of a subscript that is being stored to (`out[i] = ...`) or as the argument of len()."""
    from gxstat.srcmodel import parent
    p_ = parent(name_node)
    q = name_node
    while isinstance(p_, ast.Subscript) and p_.value is q:
        if isinstance(p_.ctx, (ast.Store, ast.Del)):
            return True
        q, p_ = p_, parent(p_)
    if isinstance(p_, ast.Call) and dotted_name(p_.func) == 'len':
        return True
    return False


def check_d6_d7(ctx) -> None:
    repo = ctx.repo
    cg = get_callgraph(repo)
    # ---- D6: helpers reached from the reservoir / wellbore calculations do not store into their array arguments.  The time vector,
    # temperature histories and pressure series are shared objects of the model; an element store on a parameter changes them for
    # every later reader (the history would no longer start at t = 0 / at the bottom-hole temperature).
    roots = [f for f in repo.all_functions() if f.name == 'Calculate' and f.cls is not None and
             (f.cls.name.endswith('Reservoir') or f.cls.name.endswith('WellBores') or f.cls.name.endswith('Wellbores'))]
    ctx.floor('D6', len(roots), 8, 'reservoir / wellbore Calculate methods')
    fns = [f for f in cg.reachable(roots).values() if f.module.rel.startswith('src/geophires_x/') and f.cls is None]
    ctx.floor('D6', len(fns), 5, 'module-level helpers reached from reservoir / wellbore calculations')
    for f in fns:
        params = {a.arg for a in f.node.args.args + f.node.args.kwonlyargs} - {'self', 'cls', 'model'}
        rebound = {st.targets[0].id for st in ast.walk(f.node) if isinstance(st, ast.Assign) and len(st.targets) == 1 and isinstance(st.targets[0], ast.Name)}
        bad = None
        for st in ast.walk(f.node):
            tg = st.targets[0] if isinstance(st, ast.Assign) else st.target if isinstance(st, ast.AugAssign) else None
            if tg is None:
                continue
            base = tg
            while isinstance(base, ast.Subscript):
                base = base.value
            if isinstance(base, ast.Name) and base.id in params and base.id not in rebound and \
                    (isinstance(tg, ast.Subscript) or isinstance(st, ast.AugAssign) and _array_like(f, base.id)):
                # an output parameter - an array the caller hands over to be filled, which the helper never reads - is not shared input
                reads_it = isinstance(st, ast.AugAssign) or any(
                    isinstance(x, ast.Name) and x.id == base.id and isinstance(x.ctx, ast.Load) and not _is_store_base(x)
                    for x in ast.walk(f.node))
                if not reads_it:
                    continue
                bad = st
                break
        key = f'{f.qualname}/does-not-store-into-its-arguments'
        if bad is not None:
            ctx.bad('D6', key, f'{f.module.rel}:{bad.lineno}',
                    f'`{norm(bad)[:90]}` stores into the argument `{norm(bad.targets[0] if isinstance(bad, ast.Assign) else bad.target).split("[")[0]}` of a helper '
                    f'called from the reservoir/wellbore calculation: the caller passes shared model arrays (time vector, temperature and '
                    f'pressure histories), which are changed for every later reader')
        else:
            ctx.ok('D6', key, f.where, f'{len(params)} parameters, none stored to')
    # ---- D7: depth unit typestate.  read_parameters turns the depth into metres, Reservoir.Calculate integrates the gradient over metres,
    # Economics.Calculate hands it back in kilometres.  A second evaluation of the model would therefore start from kilometres: the
    # base Reservoir.Calculate must stay memoised (its first result is reused) as long as a Calculate relabels the depth to km.
    relabels = []
    for f in repo.all_functions():
        if f.name == 'Calculate' and f.cls is not None and f.cls.name.endswith('Economics'):
            for st in ast.walk(f.node):
                if isinstance(st, ast.Assign) and norm(st.targets[0]) == 'model.reserv.depth.CurrentUnits' and norm(st.value).endswith('KILOMETERS'):
                    relabels.append((f, st))
    base = repo.method('Reservoir', 'Calculate', 'geophires_x/Reservoir.py')
    memo = any((dotted_name(d.func) if isinstance(d, ast.Call) else dotted_name(d)) in ('lru_cache', 'functools.lru_cache', 'cache', 'functools.cache')
               for d in base.node.decorator_list)
    if relabels:
        f0, st0 = relabels[0]
        ctx.check(memo, 'D7', 'Reservoir.Calculate/memoised-while-depth-is-handed-back-in-km', base.where,
                  f'{f0.qualname} (line {st0.lineno}) leaves model.reserv.depth in kilometres, and Reservoir.Calculate - which integrates the '
                  f'gradient over a depth in metres - is no longer memoised: a second Model.Calculate() on the same model computes the '
                  f'bottom-hole temperature over a depth 1000 times too small', fact='lru_cache on Reservoir.Calculate')
    else:
        ctx.ok('D7', 'Reservoir.Calculate/memoised-while-depth-is-handed-back-in-km', base.where, 'no Calculate relabels the depth to km')


def _array_like(f, name: str) -> bool:
    """The parameter is subscripted somewhere in the function (so `p += x` acts on an array in place)."""
    return any(isinstance(n, ast.Subscript) and isinstance(n.value, ast.Name) and n.value.id == name for n in ast.walk(f.node))


def run(ctx) -> None:
    ctx.rule('D1', 'the depth cap (depth := min(depth, depth at Tmax)) precedes every statement that reads the depth and feeds bottom-hole '
                   'temperature (segment lookup included)')
    ctx.rule('D2', 'layer walk: first interface, recurrence with equal subscripts, BHT = T[k] + g[k](depth - z[k]) with one common index')
    ctx.rule('D3', 'the reservoir temperature history starts at BHT in models 1-4 (prepend / explicit first element / formula at t = 0)')
    ctx.rule('D4', 'redrilling: trigger on produced temperature < (1 - max drawdown) x initial, both series tiled from [0:index) redrill + 1 '
                   'times and cut to the original length, only for the four analytical models')
    ctx.rule('D5', 'models 3 and 4: formula (1 - d t)(BHT - Tinj) + Tinj / erf(.)(BHT - Tinj) + Tinj, slope sign; needs BHT >= Tinj')
    check_d1_d2(ctx)
    check_d3_d5(ctx)
    check_d4(ctx)
    ctx.rule('D6', 'helpers reached from reservoir/wellbore calculations do not store into their (shared) array arguments')
    ctx.rule('D7', 'the base Reservoir.Calculate stays memoised while an economics Calculate hands the depth back in kilometres')
    ctx.rule('D8', 'a segment thickness / gradient that was explicitly converted is not re-guessed by a magnitude heuristic (shared rule U4)')
    check_d6_d7(ctx)
    from rules.u4 import check_converted_then_guessed
    check_converted_then_guessed(ctx, 'D8', only_attrs={'layerthickness', 'gradient'})
    from rules.helper_contract import run_shared
    run_shared(ctx, None, 'D9', 5)
    ctx.rule('D11', 'every wellbore calculation Model.Calculate invokes starts from a freshly calculated reservoir series: the wellbore step tiles '
                    'the reservoir temperature history in place at each redrilling, so a second wellbore pass without a reservoir pass before it '
                    'would tile (and re-drop) an already tiled history')
    mc = ctx.repo.method('Model', 'Calculate', 'geophires_x/Model.py')
    calls11 = sorted(((c.lineno, c.col_offset, (dotted_name(c.func) or '')) for c in ast.walk(mc.node)
                      if isinstance(c, ast.Call) and (dotted_name(c.func) or '') in ('self.reserv.Calculate', 'self.wellbores.Calculate')))
    ctx.require(any(n_.endswith('wellbores.Calculate') for _, _, n_ in calls11), 'Model.Calculate: no self.wellbores.Calculate call found')
    pending_res = False
    k11 = 0
    for ln, _, n_ in calls11:
        if n_ == 'self.reserv.Calculate':
            pending_res = True
            continue
        k11 += 1
        ctx.check(pending_res, 'D11', f'Model.Calculate/wellbores-pass-{k11}-after-reservoir-pass', f'{mc.module.rel}:{ln}',
                  f'wellbore pass {k11} of Model.Calculate is not preceded by a reservoir pass of its own: WellBores.Calculate replaces '
                  f'model.reserv.Tresoutput by its redrilling-tiled copy, so this pass finds the trigger index in, and tiles, an already tiled '
                  f'history - the profile no longer restarts from its beginning at each redrilling', fact='reserv.Calculate before it')
        pending_res = False
    ctx.rule('D10', 'the gradient / thickness lists a run integrates are its own: no list-valued declaration argument of a reservoir class is an '
                    'object shared between instances (the readers write segment values into the list in place, so a shared default carries '
                    'the previous run\'s gradients into a run that leaves them out) (C08 P3)')
    from gxstat.runner import Renamed
    from rules.c08 import check_p3
    n0 = len(ctx.obligations)
    check_p3(Renamed(ctx, {'P3': 'D10'}, key_filter=lambda k: 'Reservoir' in k.split('/')[0] and ('fresh' in k or 'shared-object' in k)))
    ctx.floor('D10', len(ctx.obligations) - n0, 2, 'list-valued reservoir declarations')
    ctx.undecided('Stehfest / Talbot Laplace inversions (models 1, 2)', 'the next()/max() layer search for arbitrary layouts', 'Ramey wellbore model numerics')
    ctx.assume('erf maps [0, inf) into [0, 1) and is increasing')
