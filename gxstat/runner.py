"""Run contract: obligations, violations, known findings, evidence, exit codes (0 / 1 / 2)."""
from __future__ import annotations

import importlib
import json
import os
import random
import sys
import time
import traceback
from typing import Any, Dict, List, Optional

from .srcmodel import AnalysisError, Repo, REPO_ROOT

VERIF = os.path.dirname(os.path.dirname(os.path.abspath(__file__)))
EVID_DIR = os.path.join(VERIF, 'evidence')
KNOWN_FILE = os.path.join(VERIF, 'known_findings.json')


class Ctx:
    """What a rule module sees."""

    def __init__(self, pid: str, tier: str, seed: int, repo: Repo):
        self.pid = pid
        self.tier = tier
        self.seed = seed
        self.repo = repo
        self.obligations: List[Dict[str, Any]] = []
        self.infos: List[str] = []
        self.not_decided: List[str] = []
        self.assumptions: List[str] = []
        self.rules: Dict[str, str] = {}
        self.analysed: Dict[str, Any] = {}
        self.exhaustive = False
        self.tables: Dict[str, Any] = {}
        self._cache: Dict[str, Any] = {}

    @property
    def thorough(self) -> bool:
        return self.tier == 'thorough'

    # -- recording -------------------------------------------------------------------------
    def rule(self, rid: str, text: str) -> None:
        self.rules[rid] = text

    def ok(self, rule: str, key: str, where: str, fact: str = '') -> None:
        self.obligations.append({'rule': rule, 'key': key, 'where': where, 'fact': fact, 'status': 'ok'})

    def bad(self, rule: str, key: str, where: str, msg: str, fact: str = '') -> None:
        self.obligations.append({'rule': rule, 'key': key, 'where': where, 'fact': fact,
                                 'status': 'violated', 'msg': msg})

    def check(self, cond: bool, rule: str, key: str, where: str, msg: str, fact: str = '') -> bool:
        if cond:
            self.ok(rule, key, where, fact)
        else:
            self.bad(rule, key, where, msg, fact)
        return bool(cond)

    def info(self, msg: str) -> None:
        self.infos.append(msg)

    def undecided(self, *items: str) -> None:
        self.not_decided.extend(items)

    def assume(self, *items: str) -> None:
        self.assumptions.extend(items)

    def require(self, cond: Any, msg: str) -> None:
        if not cond:
            raise AnalysisError(msg)

    def local_anchor(self, fn, *names: str) -> None:
        """A rule that recognises a construct through the name of a local variable can only decide while that local exists.  If none
        of the names is bound anywhere in the function (assignment, loop target, with-as), the local was renamed or the code rewritten:
        the rule says "cannot decide" instead of reporting the construct as missing.  (If the local exists and the construct is gone,
        the rule reports the violation as before.)"""
        import ast as _ast
        bound = set()
        for n in _ast.walk(fn.node):
            if isinstance(n, _ast.Name) and isinstance(n.ctx, _ast.Store):
                bound.add(n.id)
        missing = [x for x in names if x not in bound]
        if missing:
            raise AnalysisError(f'{fn.qualname}: local name(s) {missing} the rule is anchored on are not bound in the function '
                                f'(renamed or rewritten): cannot decide')

    def floor(self, rule: str, n: int, minimum: int, what: str = 'obligations') -> None:
        """Instance floor: fewer obligations than confirmed by hand => the anchor vanished."""
        if n < minimum:
            raise AnalysisError(f'rule {rule}: only {n} {what} found, floor is {minimum} '
                                f'(anchor vanished or idiom changed; rule cannot decide)')

    def count(self, rule: str) -> int:
        return sum(1 for o in self.obligations if o['rule'] == rule)


def load_known() -> List[Dict[str, Any]]:
    if not os.path.exists(KNOWN_FILE):
        return []
    with open(KNOWN_FILE) as f:
        data = json.load(f)
    return data.get('findings', [])


class Renamed:
    """Run another property's rule function under this property's rule ids.  `mapping` = {foreign rule id: own rule id};
    obligations of rules that are not in the mapping are dropped (they belong to the other property), as are its floors."""

    def __init__(self, ctx, mapping, key_filter=None):
        self._ctx = ctx
        self._map = dict(mapping)
        self._kf = key_filter

    def __getattr__(self, k):
        return getattr(self._ctx, k)

    def _keep(self, rule, key):
        return rule in self._map and (self._kf is None or self._kf(key))

    def ok(self, rule, key, *a, **kw):
        if self._keep(rule, key):
            self._ctx.ok(self._map[rule], key, *a, **kw)

    def bad(self, rule, key, *a, **kw):
        if self._keep(rule, key):
            self._ctx.bad(self._map[rule], key, *a, **kw)

    def check(self, cond, rule, key, *a, **kw):
        if self._keep(rule, key):
            return self._ctx.check(cond, self._map[rule], key, *a, **kw)
        return cond

    def floor(self, rule, *a, **kw):
        if rule in self._map and self._kf is None:
            self._ctx.floor(self._map[rule], *a, **kw)

    def info(self, msg):
        for r, own in self._map.items():
            if msg.startswith(r + ' '):
                self._ctx.info(own + msg[len(r):])
                return

    def rule(self, *a, **kw):
        pass


def _sensitivity_audit(pid: str, out) -> Dict[str, Any]:
    """Thorough tier, clean tree only: apply every catalogued variant of this property (selftest/<pid>.py: mutants that must be
    reported, behaviour-preserving twins that must stay silent) and every adopted seeded change (seeded/<pid>-*) to scratch copies
    of the current sources and run the quick rules on each.  Pure static analysis of the variants; nothing is executed.  The
    outcome is evidence about the checker, it never changes the verdict on the tree."""
    res: Dict[str, Any] = {}
    try:
        from gxstat import selftest
        rs = selftest.run_selftest(pid, 'quick')
        cnt: Dict[str, int] = {}
        for r in rs:
            cnt[r['status']] = cnt.get(r['status'], 0) + 1
        res['catalogue'] = {'cases': len(rs), 'by_status': cnt}
        attention = [r for r in rs if r['status'] in ('MISSED', 'FALSE-ALARM', 'analysis-error', 'harness-error')]
        for r in attention:
            out(f"AUDIT-ATTENTION property={pid} case={r['id']} status={r['status']} {r.get('why', '')[:160]}")
        res['attention'] = [r['id'] for r in attention]
    except Exception as e:      # the audit must never break the check
        res['catalogue'] = f'not run: {e.__class__.__name__}: {e}'
    try:
        res['seeded_changes'] = _seed_audit(pid, out)
    except Exception as e:
        res['seeded_changes'] = f'not run: {e.__class__.__name__}: {e}'
    try:
        res['behaviour_preserving_refactorings'] = _refactor_audit(pid, out)
    except Exception as e:
        res['behaviour_preserving_refactorings'] = f'not run: {e.__class__.__name__}: {e}'
    c = res.get('catalogue')
    if isinstance(c, dict):
        rf = res.get('behaviour_preserving_refactorings')
        out(f"AUDIT property={pid} catalogue={c['cases']} {c['by_status']} seeded={res.get('seeded_changes')} "
            f"refactorings={rf.get('summary') if isinstance(rf, dict) else rf}")
    return res


def _refactor_audit(pid: str, out) -> Dict[str, Any]:
    """Every adopted behaviour-preserving refactoring (refactors/*: written by independent authors, equivalence and unchanged test results
    confirmed) applied to a scratch copy and analysed with this property's quick rules: it must stay silent; "cannot decide" (exit 2) is
    tolerated and listed; a violation is a false alarm of the checker and is flagged."""
    import shutil
    import subprocess
    import tempfile
    from concurrent.futures import ThreadPoolExecutor
    root = os.path.join(VERIF, 'refactors')
    names = [n for n in sorted(os.listdir(root))] if os.path.isdir(root) else []
    names = [n for n in names if os.path.isfile(os.path.join(root, n, 'patch.diff'))]

    def one(name: str):
        tmp = tempfile.mkdtemp(prefix='gxstat-refac-')
        try:
            shutil.copytree(os.path.join(REPO_ROOT, 'src'), os.path.join(tmp, 'src'), ignore=shutil.ignore_patterns('__pycache__', '*.pyc'))
            ap = subprocess.run(['patch', '-p1', '-s', '-d', tmp, '-i', os.path.join(root, name, 'patch.diff')], capture_output=True, text=True)
            if ap.returncode != 0:
                return name, 'patch-stale'
            pr = subprocess.run([sys.executable, os.path.join(VERIF, 'gxstat', 'selftest_child.py'), pid, 'quick', tmp],
                                capture_output=True, text=True, timeout=900, env=dict(os.environ, GXSTAT_REPO=tmp, GXSTAT_NO_EVIDENCE='1'))
            return name, {0: 'silent', 1: 'FALSE-ALARM', 2: 'undecided'}.get(pr.returncode, f'exit {pr.returncode}')
        finally:
            shutil.rmtree(tmp, ignore_errors=True)
    rows: Dict[str, str] = {}
    with ThreadPoolExecutor(max_workers=int(os.environ.get('GXSTAT_AUDIT_JOBS', '16'))) as ex:
        for name, st in ex.map(one, names):
            rows[name] = st
            if st == 'FALSE-ALARM':
                out(f'AUDIT-ATTENTION property={pid} refactoring={name} status={st}')
    cnt: Dict[str, int] = {}
    for st in rows.values():
        cnt[st] = cnt.get(st, 0) + 1
    return {'summary': cnt, 'not_silent': {k: v for k, v in rows.items() if v != 'silent'}}


def _seed_audit(pid: str, out) -> Dict[str, Any]:
    import shutil
    import subprocess
    import tempfile
    root = os.path.join(VERIF, 'seeded')
    rows: Dict[str, str] = {}
    if not os.path.isdir(root):
        return rows
    for name in sorted(os.listdir(root)):
        d = os.path.join(root, name)
        meta_p, patch = os.path.join(d, 'meta.json'), os.path.join(d, 'patch.diff')
        if not (name.startswith(pid + '-') and os.path.isfile(meta_p) and os.path.isfile(patch)):
            continue
        tmp = tempfile.mkdtemp(prefix='gxstat-seed-')
        try:
            shutil.copytree(os.path.join(REPO_ROOT, 'src'), os.path.join(tmp, 'src'), ignore=shutil.ignore_patterns('__pycache__', '*.pyc'))
            ap = subprocess.run(['patch', '-p1', '-s', '-d', tmp, '-i', patch], capture_output=True, text=True)
            if ap.returncode != 0:
                rows[name] = 'patch-stale'
                continue
            pr = subprocess.run([sys.executable, os.path.join(VERIF, 'gxstat', 'selftest_child.py'), pid, 'quick', tmp],
                                capture_output=True, text=True, timeout=900,
                                env=dict(os.environ, GXSTAT_REPO=tmp, GXSTAT_NO_EVIDENCE='1'))
            rows[name] = {0: 'MISSED', 1: 'caught', 2: 'analysis-error'}.get(pr.returncode, f'exit {pr.returncode}')
            if pr.returncode != 1:
                out(f'AUDIT-ATTENTION property={pid} seeded={name} status={rows[name]}')
        finally:
            shutil.rmtree(tmp, ignore_errors=True)
    return rows


def _register_inline_functions(repo) -> None:
    """Module-level helper functions of the analysed tree whose body is (docstring +) simple assignments + one returned expression and
    whose name is unique in the tree: the algebra translates a call to one of them as that expression (helper extraction)."""
    import ast as _ast
    from . import algebra
    seen = {}
    for f in repo.all_functions():
        if f.cls is not None or not isinstance(f.node, _ast.FunctionDef):
            continue
        body = [s_ for s_ in f.node.body if not (isinstance(s_, _ast.Expr) and isinstance(s_.value, _ast.Constant))]
        if not body or not isinstance(body[-1], _ast.Return) or body[-1].value is None:
            continue
        if not all(isinstance(s_, _ast.Assign) and len(s_.targets) == 1 and isinstance(s_.targets[0], _ast.Name) for s_ in body[:-1]):
            continue
        if f.node.args.vararg or f.node.args.kwarg:
            continue
        seen.setdefault(f.name, []).append(f.node)
    # module-level numeric constants with a unique name (`_INDIRECT_COST_FACTOR = 1.05`): the algebra reads the name as the number
    from .srcmodel import const_value as _cv
    consts = {}
    mods = {f.module.rel: f.module for f in repo.all_functions()}
    for mi in mods.values():
        for st in mi.tree.body:
            if isinstance(st, _ast.Assign) and len(st.targets) == 1 and isinstance(st.targets[0], _ast.Name):
                okc, val = _cv(st.value)
                if okc and isinstance(val, (int, float)) and not isinstance(val, bool):
                    consts.setdefault(st.targets[0].id, []).append(val)
    from . import enumcond as _ec
    _ec.ENUM_LIST_CONSTANTS.clear()
    coll = {}
    for mi in mods.values():
        for st in mi.tree.body:
            if isinstance(st, _ast.Assign) and len(st.targets) == 1 and isinstance(st.targets[0], _ast.Name):
                c = _ec._member_collection(st.value)
                if c is not None and c.elts and all(_ec._member(e) for e in c.elts):
                    coll.setdefault(st.targets[0].id, []).append(st.value)
    _ec.ENUM_LIST_CONSTANTS.update({k: v[0] for k, v in coll.items() if len(v) == 1 and (k.isupper() or k.startswith('_'))})
    algebra.MODULE_CONSTANTS.clear()
    algebra.MODULE_CONSTANTS.update({k: v[0] for k, v in consts.items() if len(v) == 1 and (k.isupper() or k.startswith('_'))})
    algebra.INLINE_FUNCTIONS.clear()
    algebra.INLINE_FUNCTIONS.update({k: v[0] for k, v in seen.items() if len(v) == 1})


def run_check(pid: str, tier: str, replay: Optional[str] = None, repo_root: Optional[str] = None,
              write_evidence: bool = True, quiet: bool = False) -> int:
    t0 = time.time()
    seed = int(os.environ.get('VERIF_SEED', '0') or 0)
    out = (lambda *a: None) if quiet else (lambda *a: print(*a, flush=True))
    evid_path = os.path.join(EVID_DIR, f'{pid}.json')
    viol_path = os.path.join(EVID_DIR, f'{pid}.violation.json')
    ctx = None
    try:
        repo = Repo(repo_root or REPO_ROOT)
        ctx = Ctx(pid, tier, seed, repo)
        _register_inline_functions(repo)
        mod = importlib.import_module(f'rules.{pid.lower()}')
        mod.run(ctx)
        if not ctx.obligations:
            raise AnalysisError('no obligation was produced (vacuous run)')
    except AnalysisError as e:
        # a rule could not decide.  Violations that other rules established before that point stand on their own: report them
        # (exit 1) rather than hiding them behind "cannot decide"; with none, the run is analysis-broken (exit 2)
        already = []
        if ctx is not None:
            open_k = {(k['rule'], k['key']) for k in load_known() if k.get('property') == pid and k.get('status') == 'open'}
            already = [o for o in ctx.obligations if o['status'] == 'violated' and (o['rule'], o['key']) not in open_k]
        out(f'ANALYSIS-ERROR property={pid} {e}')
        if not already:
            if write_evidence:
                _write_error_evidence(evid_path, pid, tier, seed, str(e), time.time() - t0)
            return 2
        ctx.infos.append(f'a later rule could not decide: {e}')
    except Exception as e:  # internal error: never let a traceback look like a violation
        tb = traceback.format_exc()
        out(f'ANALYSIS-ERROR property={pid} internal error: {e.__class__.__name__}: {e}')
        if not quiet:
            sys.stderr.write(tb)
        if write_evidence:
            _write_error_evidence(evid_path, pid, tier, seed, f'internal: {e}', time.time() - t0)
        return 2

    known = [k for k in load_known() if k.get('property') == pid]
    open_known = {(k['rule'], k['key']): k for k in known if k.get('status') == 'open'}
    new_viol, known_hit = [], []
    for o in ctx.obligations:
        if o['status'] != 'violated':
            continue
        k = open_known.get((o['rule'], o['key']))
        if k is not None:
            o['status'] = 'known'
            known_hit.append((o, k))
        else:
            new_viol.append(o)

    if replay:
        try:
            with open(replay) as f:
                want = {(v['rule'], v['key']) for v in json.load(f).get('violations', [])}
        except Exception as e:
            out(f'ANALYSIS-ERROR property={pid} cannot read replay file: {e}')
            return 2
        new_viol = [o for o in new_viol if (o['rule'], o['key']) in want]
        if not new_viol:
            out(f'replay: no longer violated ({len(want)} recorded obligation(s) re-evaluated)')

    seen = set()
    for o, k in known_hit:
        if (o['rule'], o['key']) in seen:
            continue
        seen.add((o['rule'], o['key']))
        out(f"KNOWN-FINDING: property={pid} rule={o['rule']} {o['where']} {o['key']} -- {k.get('what', o.get('msg', ''))}")
    for m in ctx.infos:
        out(f'INFO {m}')
    for o in new_viol:
        out(f"{o['where']}  rule={o['rule']}  instance={o['key']}  {o['msg']}")

    audit = None
    if tier == 'thorough' and not new_viol and not replay and repo_root is None and write_evidence:
        audit = _sensitivity_audit(pid, out)

    n_ob = len(ctx.obligations)
    distinct = len({(o['rule'], o['key']) for o in ctx.obligations})
    n_ok = sum(1 for o in ctx.obligations if o['status'] == 'ok')
    if write_evidence and not replay:
        rnd = random.Random(seed)
        by_rule: Dict[str, List[Dict[str, Any]]] = {}
        for o in ctx.obligations:
            by_rule.setdefault(o['rule'], []).append(o)
        samples = []
        for r in sorted(by_rule):
            lst = by_rule[r]
            pick = lst if len(lst) <= 4 else rnd.sample(lst, 4)
            for o in pick:
                samples.append({k: o[k] for k in ('rule', 'key', 'where', 'fact', 'status') if o.get(k) != ''})
        ev = {
            'property_id': pid, 'tier': tier, 'seed': seed, 'level': 'other',
            'coverage': {
                'explanation': ('Static analysis of the working tree under ' + (repo_root or REPO_ROOT) +
                                ' (parsed with ast, nothing imported or executed). Each obligation is one '
                                'rule instance located in the source; see rules/obligations_by_rule.'),
                'evaluations': n_ob,
                'distinct_nontrivial': distinct,
                'rule': 'an obligation is one (rule, owner/construct key) pair found in the source; distinct = '
                        'distinct pairs; every one is non-trivial in that it names a concrete construct',
                'obligations': n_ob,
                'discharged': n_ok,
                'known_findings_hit': len(seen),
                'obligations_by_rule': {r: len(v) for r, v in sorted(by_rule.items())},
                'rules': ctx.rules,
                'samples': samples,
                'analysed': dict(repo.stats(), **ctx.analysed),
                'not_decided': ctx.not_decided,
                'infos': ctx.infos[:60],
                'tables': ctx.tables,
                'exhaustive': bool(ctx.exhaustive),
                'sensitivity_audit': audit if audit is not None else 'thorough tier only (and only when the tree itself passes)',
                'checker_cmd': f'./check {pid} --tier {tier}',
                'trusted_base': ['CPython 3.12 ast module', 'gxstat engines in /verif/gxstat',
                                 'rule tables in /verif/rules (each row carries its reason)'],
            },
            'assumptions': ctx.assumptions,
            'wall_s': round(time.time() - t0, 3),
            'violations': len(new_viol),
        }
        os.makedirs(EVID_DIR, exist_ok=True)
        with open(evid_path, 'w') as f:
            json.dump(ev, f, indent=1, sort_keys=False)
            f.write('\n')

    if new_viol:
        if not replay and write_evidence:
            os.makedirs(EVID_DIR, exist_ok=True)
            with open(viol_path, 'w') as f:
                json.dump({'property': pid, 'tier': tier,
                           'violations': [{k: o.get(k) for k in ('rule', 'key', 'where', 'msg', 'fact')}
                                          for o in new_viol]}, f, indent=1)
                f.write('\n')
        out(f'VIOLATION property={pid} replay={viol_path if not replay else replay}')
        return 1
    if not replay and write_evidence and os.path.exists(viol_path):
        try:
            os.remove(viol_path)
        except OSError:
            pass
    out(f'OK property={pid} tier={tier} obligations={n_ob} distinct={distinct} discharged={n_ok} '
        f'known={len(seen)} wall={time.time() - t0:.2f}s')
    return 0


def _write_error_evidence(path: str, pid: str, tier: str, seed: int, msg: str, wall: float) -> None:
    try:
        os.makedirs(EVID_DIR, exist_ok=True)
        with open(path, 'w') as f:
            json.dump({'property_id': pid, 'tier': tier, 'seed': seed, 'level': 'other',
                       'coverage': {'explanation': 'ANALYSIS-ERROR: ' + msg, 'evaluations': 0,
                                    'distinct_nontrivial': 0},
                       'wall_s': round(wall, 3), 'violations': 0}, f, indent=1)
            f.write('\n')
    except OSError:
        pass


def main(argv: List[str]) -> int:
    import argparse
    ap = argparse.ArgumentParser(prog='check')
    ap.add_argument('pid')
    ap.add_argument('--tier', default=os.environ.get('VERIF_TIER') or 'quick', choices=['quick', 'thorough'])
    ap.add_argument('--replay', default=None)
    ap.add_argument('--repo', default=None)
    a = ap.parse_args(argv)
    return run_check(a.pid.upper(), a.tier, a.replay, a.repo)
