"""Syntactic inlining helpers that make rules robust against harmless restructuring: named intermediates in the same block,
module-level constants, and one-expression helper functions.  Nothing is evaluated; substitution is purely on the syntax tree."""
from __future__ import annotations

import ast
from typing import Dict, List, Optional

from .srcmodel import clone, const_value, dotted_name, norm, parent


def _block_of(st: ast.AST) -> Optional[List[ast.stmt]]:
    p = parent(st)
    if p is None:
        return None
    for fld in ('body', 'orelse', 'finalbody'):
        b = getattr(p, fld, None)
        if isinstance(b, list) and st in b:
            return b
    if isinstance(p, ast.ExceptHandler) and st in p.body:
        return p.body
    return None


def enclosing_stmt(node: ast.AST) -> Optional[ast.stmt]:
    while node is not None and not isinstance(node, ast.stmt):
        node = parent(node)
    return node


def local_env(stmt: ast.stmt, stop: ast.AST = None) -> Dict[str, ast.AST]:
    """Name -> defining expression for simple `name = expr` statements that precede `stmt` in its own block or in an enclosing
    block (inner definitions win); a name assigned more than once in one block is left out."""
    env: Dict[str, ast.AST] = {}
    cur = stmt
    while cur is not None and cur is not stop:
        blk = _block_of(cur)
        if blk is not None:
            idx = blk.index(cur)
            counts: Dict[str, int] = {}
            defs: Dict[str, ast.AST] = {}
            for s in blk[:idx]:
                for n in ast.walk(s):
                    if isinstance(n, ast.Name) and isinstance(n.ctx, ast.Store):
                        counts[n.id] = counts.get(n.id, 0) + 1
                if isinstance(s, ast.Assign) and len(s.targets) == 1 and isinstance(s.targets[0], ast.Name):
                    defs[s.targets[0].id] = s.value
                elif isinstance(s, ast.AnnAssign) and isinstance(s.target, ast.Name) and s.value is not None:        # `name: T = value`
                    defs[s.target.id] = s.value
            for k, v in defs.items():
                if counts.get(k, 0) == 1 and k not in env:
                    env[k] = v
        cur = parent(cur)
        while cur is not None and not isinstance(cur, (ast.stmt, ast.Module)):
            cur = parent(cur)
        if isinstance(cur, (ast.FunctionDef, ast.Module)):
            break
    return env


def module_consts(tree: ast.Module) -> Dict[str, ast.AST]:
    out: Dict[str, ast.AST] = {}
    for s in tree.body:
        if isinstance(s, ast.Assign) and len(s.targets) == 1 and isinstance(s.targets[0], ast.Name):
            ok, _ = const_value(s.value)
            if ok:
                out[s.targets[0].id] = s.value
    return out


def substitute(expr: ast.AST, env: Dict[str, ast.AST], depth: int = 6) -> ast.AST:
    class S(ast.NodeTransformer):
        def __init__(self):
            self.d = 0

        def visit_Name(self, n):
            if isinstance(n.ctx, ast.Load) and n.id in env and self.d < depth:
                self.d += 1
                r = self.visit(clone(env[n.id]))
                self.d -= 1
                return r
            return n
    return ast.fix_missing_locations(S().visit(clone(expr)))


def inline_block_locals(expr: ast.AST, stmt: ast.stmt, module_tree: ast.Module = None, keep=()) -> ast.AST:
    """expr (part of stmt) with the named intermediates of the enclosing blocks and module constants substituted."""
    env = {k: v for k, v in local_env(stmt).items() if k not in keep}
    if module_tree is not None:
        for k, v in module_consts(module_tree).items():
            env.setdefault(k, v)
    return substitute(expr, env)


def _subst_once(expr: ast.AST, name: str, val: ast.AST) -> ast.AST:
    class S(ast.NodeTransformer):
        def visit_Name(self, n):
            return clone(val) if (n.id == name and isinstance(n.ctx, ast.Load)) else n
    return S().visit(expr)


def inline_sequential(expr: ast.AST, stmt: ast.stmt, cross=(ast.If, ast.With, ast.Try), max_len: int = 4000, keep=(),
                      cross_loops: bool = False) -> ast.AST:
    """expr (part of stmt) rewritten over the values that were current when stmt runs: the straight-line code before stmt is walked
    backwards and each `name = value` (or `name: T = value`) whose name the expression reads is substituted, so a chain of re-assignments
    (`s = s.split(':'); s = s[1].strip()`) composes into one expression.  The walk continues in the enclosing block through if/with/try
    headers, never across a function boundary and across a loop only with cross_loops (then every name the loop binds stays opaque).  A name
    that a compound statement on the way may re-bind is left as it is (from there on it is opaque), and so are the names in `keep`."""
    cur_expr = clone(expr)
    cur: Optional[ast.AST] = stmt
    frozen = set(keep)
    # occurrences of a frozen name that came in with a substituted value must stay opaque too: they are renamed apart while frozen
    while cur is not None:
        blk = _block_of(cur)
        if blk is None:
            break
        idx = next((i for i, s in enumerate(blk) if s is cur), None)
        if idx is None:
            break
        for s in reversed(blk[:idx]):
            reads = {n.id for n in ast.walk(cur_expr) if isinstance(n, ast.Name) and isinstance(n.ctx, ast.Load)} - frozen
            tgt = None
            if isinstance(s, ast.Assign) and len(s.targets) == 1 and isinstance(s.targets[0], ast.Name):
                tgt, val = s.targets[0].id, s.value
            elif isinstance(s, ast.AnnAssign) and isinstance(s.target, ast.Name) and s.value is not None:
                tgt, val = s.target.id, s.value
            if tgt is None and isinstance(s, ast.Assign) and len(s.targets) == 1 and isinstance(s.targets[0], ast.Tuple) \
                    and all(isinstance(e, ast.Name) for e in s.targets[0].elts):
                # `a, b = x, y`  and  `a, b = (f(e) for e in seq[:2])`: element-wise definitions
                names = [e.id for e in s.targets[0].elts]
                vals = None
                if isinstance(s.value, ast.Tuple) and len(s.value.elts) == len(names):
                    # the right-hand sides are evaluated before any name is bound: only safe to use when none reads a name bound here
                    if not ({n.id for v in s.value.elts for n in ast.walk(v) if isinstance(n, ast.Name)} & set(names)):
                        vals = list(s.value.elts)
                elif isinstance(s.value, (ast.GeneratorExp, ast.ListComp)) and len(s.value.generators) == 1 and not s.value.generators[0].ifs \
                        and isinstance(s.value.generators[0].target, ast.Name) and isinstance(s.value.generators[0].iter, ast.Subscript) \
                        and isinstance(s.value.generators[0].iter.slice, ast.Slice) and s.value.generators[0].iter.slice.lower is None \
                        and s.value.generators[0].iter.slice.step is None and isinstance(s.value.generators[0].iter.slice.upper, ast.Constant) \
                        and s.value.generators[0].iter.slice.upper.value == len(names):
                    g = s.value.generators[0]
                    vals = [_subst_once(clone(s.value.elt), g.target.id,
                                        ast.Subscript(value=clone(g.iter.value), slice=ast.Constant(value=i), ctx=ast.Load())) for i in range(len(names))]
                hit = [n for n in names if n in reads]
                if hit and vals is not None:
                    for n, v in zip(names, vals):
                        if n in reads:
                            cur_expr = _subst_once(cur_expr, n, v)
                    continue
                if hit:
                    frozen |= set(hit)
                    continue
            if tgt is not None:
                if tgt in reads and ((isinstance(val, (ast.List, ast.Set, ast.Tuple)) and not val.elts) or (isinstance(val, ast.Dict) and not val.keys)
                                     or (isinstance(val, ast.Call) and isinstance(val.func, ast.Name) and val.func.id in ('list', 'dict', 'set')
                                         and not val.args and not val.keywords)):
                    frozen.add(tgt)          # an empty container is a thing to be filled in place, not the value read later
                    continue
                if tgt in reads:
                    # the value may read names that are already frozen further down: those occurrences denote the earlier binding, which
                    # cannot be told apart syntactically from the frozen (later) one - so such a substitution is not made
                    if {n.id for n in ast.walk(val) if isinstance(n, ast.Name)} & (frozen - set(keep)):
                        frozen.add(tgt)
                        continue
                    cur_expr = _subst_once(cur_expr, tgt, val)
                    if len(ast.dump(cur_expr)) > max_len * 10:
                        return cur_expr
                continue
            stored = {n.id for n in ast.walk(s) if isinstance(n, ast.Name) and isinstance(n.ctx, (ast.Store, ast.Del))}
            frozen |= (stored & reads)
        up = parent(cur)
        while up is not None and not isinstance(up, ast.stmt):
            up = parent(up)
        if up is not None and cross_loops and isinstance(up, (ast.For, ast.While)):
            # loop-invariant names keep the value they had before the loop; everything the loop (re)binds is opaque from here on
            frozen |= {n.id for n in ast.walk(up) if isinstance(n, ast.Name) and isinstance(n.ctx, (ast.Store, ast.Del))}
            cur = up
            continue
        if up is None or not isinstance(up, cross):
            break
        # the header of a with-statement binds its `as` names
        if isinstance(up, ast.With):
            for it in up.items:
                if it.optional_vars is not None:
                    frozen |= {n.id for n in ast.walk(it.optional_vars) if isinstance(n, ast.Name)}
        cur = up
    return ast.fix_missing_locations(cur_expr)


def inline_simple_calls(expr: ast.AST, module_functions: Dict[str, ast.FunctionDef], depth: int = 2) -> ast.AST:
    """Calls to helper functions of the same module whose body is (docstring +) simple assignments + one `return <expr>` are replaced
    by that expression with the parameters substituted by the arguments (positional, by name)."""
    class S(ast.NodeTransformer):
        def __init__(self):
            self.d = 0

        def visit_Call(self, c):
            self.generic_visit(c)
            name = c.func.id if isinstance(c.func, ast.Name) else None
            fn = module_functions.get(name) if name else None
            if fn is None or self.d >= depth or c.keywords and any(k.arg is None for k in c.keywords):
                return c
            body = [s for s in fn.body if not (isinstance(s, ast.Expr) and isinstance(s.value, ast.Constant))]
            if not body or not isinstance(body[-1], ast.Return) or body[-1].value is None:
                return c
            env: Dict[str, ast.AST] = {}
            params = [a.arg for a in fn.args.args]
            if len(c.args) > len(params):
                return c
            for p_, a_ in zip(params, c.args):
                env[p_] = a_
            for k in c.keywords:
                env[k.arg] = k.value
            defaults = fn.args.defaults
            for p_, d_ in zip(params[len(params) - len(defaults):], defaults):
                env.setdefault(p_, d_)
            if set(params) - set(env):
                return c
            for s in body[:-1]:
                if isinstance(s, ast.Assign) and len(s.targets) == 1 and isinstance(s.targets[0], ast.Name):
                    env[s.targets[0].id] = substitute(s.value, env)
                else:
                    return c
            self.d += 1
            r = self.visit(substitute(body[-1].value, env))
            self.d -= 1
            return r
    return ast.fix_missing_locations(S().visit(clone(expr)))


# --------------------------------------------------------------------------------------------- canonical form of a function body
def _is_attr_path(e: ast.AST) -> bool:
    return isinstance(e, ast.Attribute) and dotted_name(e) is not None


def canonical_function(fn_node: ast.FunctionDef, unnest: bool = True, short: bool = False) -> ast.FunctionDef:
    """A parent-linked clone of the function in which two harmless restructurings are undone, so that rules written against the plain
    form keep matching:
      * a local bound exactly once to a pure attribute path (`cum = self.TotalCummRevenue.value`) is replaced by that path wherever it
        is read or subscripted (pure aliasing: same object), provided the path itself is not re-bound anywhere in the function;
      * inside loop bodies `if <test>: continue` followed by more statements becomes `if not <test>: <those statements>`
        (a double negation `not (not x)` / `not (x)` is simplified)."""
    from .srcmodel import set_parents
    min_dots = 1 if short else 2        # short: also `reserv = model.reserv` (object handles); default keeps such conventional names as written
    if not unnest and not any(isinstance(n, ast.Assign) and len(n.targets) == 1 and isinstance(n.targets[0], ast.Name) and _is_attr_path(n.value)
                              and norm(n.value).count('.') >= min_dots for n in ast.walk(fn_node)):
        return fn_node
    f = clone(fn_node)
    # ---- attribute aliases
    counts: Dict[str, int] = {}
    for n in ast.walk(f):
        if isinstance(n, ast.Name) and isinstance(n.ctx, ast.Store):
            counts[n.id] = counts.get(n.id, 0) + 1
    rebinds = [(norm(t), n.lineno) for n in ast.walk(f) if isinstance(n, (ast.Assign, ast.AugAssign))
               for t in (n.targets if isinstance(n, ast.Assign) else [n.target]) if isinstance(t, ast.Attribute)]
    aliases: Dict[str, ast.AST] = {}
    for n in ast.walk(f):
        if isinstance(n, ast.Assign) and len(n.targets) == 1 and isinstance(n.targets[0], ast.Name) and counts.get(n.targets[0].id) == 1 \
                and _is_attr_path(n.value):
            path = norm(n.value)
            # the alias denotes the same object only while neither the path nor one of its prefixes is re-bound afterwards
            if any((path == r or path.startswith(r + '.')) and ln >= n.lineno and ln != n.lineno for r, ln in rebinds):
                continue
            # keep short, conventional names of whole model parts as they are (econ = model.economics): rules use them as written
            if path.count('.') < min_dots:
                continue
            aliases[n.targets[0].id] = n.value

    class A(ast.NodeTransformer):
        def visit_Name(self, n):
            if isinstance(n.ctx, ast.Load) and n.id in aliases:
                return clone(aliases[n.id])
            return n
    if aliases:
        f = A().visit(f)
        if short:
            # a handle may make further paths visible (`reserv = model.reserv; t0 = reserv.Trock.value`): one more round
            ast.fix_missing_locations(f)
            return canonical_function(f, unnest=unnest, short=False)

    # ---- guard clauses with continue
    def neg(t: ast.AST) -> ast.AST:
        if isinstance(t, ast.UnaryOp) and isinstance(t.op, ast.Not):
            return t.operand
        if isinstance(t, ast.Compare) and len(t.ops) == 1:
            flip = {ast.In: ast.NotIn, ast.NotIn: ast.In, ast.Is: ast.IsNot, ast.IsNot: ast.Is, ast.Eq: ast.NotEq, ast.NotEq: ast.Eq}
            for a_, b_ in flip.items():
                if isinstance(t.ops[0], a_):
                    return ast.Compare(left=t.left, ops=[b_()], comparators=t.comparators)
        return ast.UnaryOp(op=ast.Not(), operand=t)

    def fix_body(body: List[ast.stmt]) -> List[ast.stmt]:
        out: List[ast.stmt] = []
        for i, st in enumerate(body):
            if isinstance(st, ast.If) and not st.orelse and st.body and isinstance(st.body[-1], ast.Continue) and \
                    all(isinstance(x, (ast.Continue, ast.Expr, ast.Pass)) for x in st.body) and body[i + 1:]:
                rest = fix_body(body[i + 1:])
                side = [x for x in st.body if not isinstance(x, (ast.Continue, ast.Pass))]
                new_if = ast.If(test=neg(st.test), body=rest, orelse=side)
                ast.copy_location(new_if, st)
                out.append(new_if)
                return out
            out.append(st)
        return out

    if unnest:
        for n in ast.walk(f):
            if isinstance(n, (ast.For, ast.While)):
                n.body = fix_body(n.body)
    ast.fix_missing_locations(f)
    set_parents(f)
    return f


def loops_to_comprehensions(fn_node: ast.AST) -> ast.AST:
    """A parent-linked clone in which `L = []` directly followed by `for T in IT: [name = expr ...]; L.append(E)` (no else, break, continue
    or other statement; the intermediate names are read nowhere else) reads `L = [E' for T in IT]`, E' being E over the intermediates.
    Exact: same elements, same order, same evaluations."""
    from .srcmodel import set_parents
    f = clone(fn_node)
    set_parents(f)
    changed = False
    for blk_owner in list(ast.walk(f)):
        for fld in ('body', 'orelse', 'finalbody'):
            blk = getattr(blk_owner, fld, None)
            if not isinstance(blk, list):
                continue
            i = 0
            while i + 1 < len(blk):
                a_, lp = blk[i], blk[i + 1]
                i += 1
                if not (isinstance(a_, ast.Assign) and len(a_.targets) == 1 and isinstance(a_.targets[0], ast.Name)
                        and isinstance(a_.value, ast.List) and not a_.value.elts and isinstance(lp, ast.For) and not lp.orelse and lp.body):
                    continue
                L = a_.targets[0].id
                *pre, last = lp.body
                if not (isinstance(last, ast.Expr) and isinstance(last.value, ast.Call) and isinstance(last.value.func, ast.Attribute)
                        and last.value.func.attr == 'append' and norm(last.value.func.value) == L and len(last.value.args) == 1 and not last.value.keywords):
                    continue
                if not all(isinstance(s_, ast.Assign) and len(s_.targets) == 1 and isinstance(s_.targets[0], ast.Name) for s_ in pre):
                    continue
                tmp_names = {s_.targets[0].id for s_ in pre}
                if L in {n.id for n in ast.walk(lp.iter) if isinstance(n, ast.Name)} | {n.id for s_ in pre for n in ast.walk(s_) if isinstance(n, ast.Name)} \
                        or L in {n.id for n in ast.walk(last.value.args[0]) if isinstance(n, ast.Name)}:
                    continue
                outside = [n for n in ast.walk(f) if isinstance(n, ast.Name) and n.id in tmp_names and not any(n is x for x in ast.walk(lp))]
                if outside:
                    continue
                elt = inline_sequential(last.value.args[0], last)
                comp = ast.ListComp(elt=elt, generators=[ast.comprehension(target=lp.target, iter=lp.iter, ifs=[], is_async=0)])
                new = ast.Assign(targets=[ast.Name(id=L, ctx=ast.Store())], value=comp)
                ast.copy_location(new, lp)
                ast.copy_location(comp, lp)
                blk[i - 1:i + 1] = [new]
                changed = True
    if not changed:
        return fn_node
    ast.fix_missing_locations(f)
    set_parents(f)
    return f


def unroll_literal_loops(fn_node: ast.AST) -> ast.AST:
    """A parent-linked clone in which `for a, b in ((x1, y1), (x2, y2)): BODY` (the iterable a tuple literal - directly or through a local
    bound once to it - of names / attribute chains / constants or tuples of them; BODY without break/continue/else and without re-binding
    the loop variables) is BODY with (a, b) := (x1, y1) followed by BODY with (a, b) := (x2, y2).  Exact: same statements in the same order."""
    from .srcmodel import set_parents
    f = clone(fn_node)
    set_parents(f)
    counts: Dict[str, int] = {}
    for n in ast.walk(f):
        if isinstance(n, ast.Name) and isinstance(n.ctx, ast.Store):
            counts[n.id] = counts.get(n.id, 0) + 1
    once = {n.targets[0].id: n.value for n in ast.walk(f) if isinstance(n, ast.Assign) and len(n.targets) == 1 and isinstance(n.targets[0], ast.Name)
            and counts.get(n.targets[0].id) == 1 and isinstance(n.value, ast.Tuple)}

    def simple(e) -> bool:
        if isinstance(e, ast.Constant):
            return True
        while isinstance(e, ast.Attribute):
            e = e.value
        return isinstance(e, ast.Name)
    changed = False
    for owner in list(ast.walk(f)):
        for fld in ('body', 'orelse', 'finalbody'):
            blk = getattr(owner, fld, None)
            if not isinstance(blk, list):
                continue
            i = 0
            while i < len(blk):
                lp = blk[i]
                i += 1
                if not isinstance(lp, ast.For) or lp.orelse:
                    continue
                it = lp.iter
                if isinstance(it, ast.Name) and it.id in once:
                    it = once[it.id]
                if not (isinstance(it, ast.Tuple) or (isinstance(it, ast.List) and it is lp.iter)) or not it.elts or len(it.elts) > 12:
                    continue
                tnames = [lp.target.id] if isinstance(lp.target, ast.Name) else \
                    [e.id for e in lp.target.elts] if isinstance(lp.target, ast.Tuple) and all(isinstance(e, ast.Name) for e in lp.target.elts) else None
                if tnames is None:
                    continue
                rows = []
                for e in it.elts:
                    vals = [e] if isinstance(lp.target, ast.Name) else list(e.elts) if isinstance(e, ast.Tuple) else None
                    if vals is None or len(vals) != len(tnames) or not all(simple(v) for v in vals):
                        rows = None
                        break
                    rows.append(vals)
                if rows is None:
                    continue
                if any(isinstance(x, (ast.Break, ast.Continue)) for b in lp.body for x in ast.walk(b)) or \
                        any(isinstance(x, ast.Name) and isinstance(x.ctx, (ast.Store, ast.Del)) and x.id in tnames for b in lp.body for x in ast.walk(b)):
                    continue
                # the loop variables keep their last value after the loop: only unroll when nothing reads them afterwards
                def rebound_by_own_loop(x) -> bool:
                    q = parent(x)
                    while q is not None and q is not f:
                        if isinstance(q, ast.For) and q is not lp and any(isinstance(t, ast.Name) and t.id == x.id for t in ast.walk(q.target)):
                            return True
                        q = parent(q)
                    return False
                after = [x for x in ast.walk(f) if isinstance(x, ast.Name) and x.id in tnames and isinstance(x.ctx, ast.Load)
                         and not any(x is y for y in ast.walk(lp)) and not rebound_by_own_loop(x)]
                if after:
                    continue
                new: List[ast.stmt] = []
                for vals in rows:
                    env = dict(zip(tnames, vals))
                    for b in lp.body:
                        new.append(substitute(b, env, depth=1))
                blk[i - 1:i] = new
                i += len(new) - 1
                changed = True
    if not changed:
        return fn_node
    ast.fix_missing_locations(f)
    set_parents(f)
    return f


def inline_local_functions(fn_node: ast.AST) -> ast.AST:
    """A parent-linked clone in which the function's own nested helper functions (closures: plain `def`s in its body that are only ever
    called by name inside it) are written out at their call sites, and `buf = <fresh array>; ...; <attr> = buf` (a local array that is filled
    and then published once, never used afterwards) is filled in place under the published name.  Uses the exact inlining machinery of
    gxstat.absorb (simple arguments, returns eliminated, clashing locals renamed); a helper with a call site that cannot be inlined exactly
    is left alone."""
    from . import absorb as ab
    from .srcmodel import set_parents
    f = clone(fn_node)
    set_parents(f)
    changed = False
    for _ in range(3):
        nested = [n for n in f.body if isinstance(n, ast.FunctionDef)]
        progress = False
        for h in nested:
            if h not in f.body or ab._eligible(h, False) is not None:
                continue
            refs = [n for n in ast.walk(f) if isinstance(n, ast.Name) and n.id == h.name and not any(n is x for x in ast.walk(h))]
            if not refs or any(not (isinstance(parent(r), ast.Call) and parent(r).func is r) for r in refs):
                continue
            backup = clone(f)
            pos = f.body.index(h)
            f.body.remove(h)                      # its own body is not a call site
            ok = True
            for _guard in range(40):
                set_parents(f)
                site = ab._call_site(f, h.name, False)
                if site is None:
                    break
                st, call, _r = site
                new = ab._inline_at(f, st, call, h, False, '')
                if new is None or not ab._replace_stmt(f, st, new):
                    ok = False
                    break
            left = [n for n in ast.walk(f) if isinstance(n, ast.Name) and n.id == h.name]
            if ok and not left:
                progress = changed = True
            else:
                f = backup                         # exactness over coverage: all call sites or none
                set_parents(f)
                break
        if not progress:
            break
    # build-then-publish
    set_parents(f)

    def is_alloc(s2, buf=None) -> bool:
        return isinstance(s2, ast.Assign) and len(s2.targets) == 1 and isinstance(s2.targets[0], ast.Name) and isinstance(s2.value, ast.Call) \
            and (dotted_name(s2.value.func) or '').split('.')[-1] in ('zeros', 'ones', 'empty', 'full') and (buf is None or s2.targets[0].id == buf)
    for blk_owner in list(ast.walk(f)):
        blk = getattr(blk_owner, 'body', None)
        if not isinstance(blk, list):
            continue
        i = 0
        while i < len(blk):
            st = blk[i]
            i += 1
            if not is_alloc(st):
                continue
            buf = st.targets[0].id
            i0 = i - 1
            nxt = next((k for k in range(i0 + 1, len(blk)) if is_alloc(blk[k], buf)), len(blk))
            # every other use of the name belongs to a window of its own: it sits in (or under) a statement of some block that is
            # preceded, in that block, by an allocation of the buffer - or is such an allocation
            def own_window(n, stop_blk=None) -> bool:
                """n sits in (or under) a statement of some block - other than stop_blk - that is preceded there by an allocation."""
                q = n
                while q is not None and q is not f:
                    pq = parent(q)
                    for fld2 in ('body', 'orelse', 'finalbody'):
                        b2 = getattr(pq, fld2, None) if pq is not None else None
                        if isinstance(b2, list) and b2 is not stop_blk and any(q is x for x in b2):
                            k2 = next(ix for ix, x in enumerate(b2) if x is q)
                            if any(is_alloc(x, buf) for x in b2[:k2 + 1]):
                                return True
                    q = pq
                return False
            window_nodes = {id(n) for s2 in blk[i0:nxt] for n in ast.walk(s2)}
            if any(isinstance(n, ast.Name) and n.id == buf and id(n) not in window_nodes and not own_window(n) for n in ast.walk(f)):
                continue            # the buffer is visible outside its build-publish windows
            pubs = [k for k in range(i0 + 1, nxt) if isinstance(blk[k], ast.Assign) and len(blk[k].targets) == 1 and isinstance(blk[k].targets[0], (ast.Attribute, ast.Name))
                    and isinstance(blk[k].value, ast.Name) and blk[k].value.id == buf and norm(blk[k].targets[0]) != buf]
            if len(pubs) != 1:
                continue
            j = pubs[0]
            pub = blk[j]
            attr_txt = norm(pub.targets[0])
            if any(isinstance(n, ast.Name) and n.id == buf and not own_window(n, stop_blk=blk) for s2 in blk[j + 1:nxt] for n in ast.walk(s2)):
                continue            # still used after it was published
            if any(isinstance(n, (ast.Attribute, ast.Name)) and norm(n) == attr_txt for s2 in blk[i0 + 1:j] for n in ast.walk(s2)):
                continue            # the published attribute is touched while the buffer is being filled
            if any(isinstance(n, ast.Name) and n.id == buf and isinstance(n.ctx, ast.Store) for s2 in blk[i0 + 1:j] for n in ast.walk(s2)):
                continue
            st.targets[0] = clone(pub.targets[0])

            class R(ast.NodeTransformer):
                def visit_Name(self, n):
                    if n.id == buf and isinstance(n.ctx, ast.Load):
                        a_ = clone(pub.targets[0])
                        a_.ctx = ast.Load()
                        return ast.copy_location(a_, n)
                    return n
            for k in range(i0 + 1, j):
                blk[k] = R().visit(blk[k])
            del blk[j]
            changed = True
    if not changed:
        return fn_node
    ast.fix_missing_locations(f)
    set_parents(f)
    return f


def canonicalise_module(tree: ast.Module) -> None:
    """In place: every function of the module gets its attribute aliases inlined (the continue-guard un-nesting of canonical_function
    is left to the rules that ask for it: several rules are written against the guard-clause form)."""
    from .srcmodel import set_parents

    class T(ast.NodeTransformer):
        def visit_FunctionDef(self, n):
            self.generic_visit(n)
            try:
                return canonical_function(n, unnest=False)
            except Exception:
                return n
    T().visit(tree)
    ast.fix_missing_locations(tree)
    set_parents(tree)
