"""Syntactic inlining helpers that make rules robust against harmless restructuring: named intermediates in the same block,
module-level constants, and one-expression helper functions.  Nothing is evaluated; substitution is purely on the syntax tree."""
from __future__ import annotations

import ast
from typing import Dict, List, Optional

from .srcmodel import clone, const_value, dotted_name, norm, parent


def _block_of(st: ast.AST) -> Optional[List[ast.stmt]]:
    p = parent(st)
    if p is None:
        return None
    for fld in ('body', 'orelse', 'finalbody'):
        b = getattr(p, fld, None)
        if isinstance(b, list) and st in b:
            return b
    if isinstance(p, ast.ExceptHandler) and st in p.body:
        return p.body
    return None


def enclosing_stmt(node: ast.AST) -> Optional[ast.stmt]:
    while node is not None and not isinstance(node, ast.stmt):
        node = parent(node)
    return node


def local_env(stmt: ast.stmt, stop: ast.AST = None) -> Dict[str, ast.AST]:
    """Name -> defining expression for simple `name = expr` statements that precede `stmt` in its own block or in an enclosing
    block (inner definitions win); a name assigned more than once in one block is left out."""
    env: Dict[str, ast.AST] = {}
    cur = stmt
    while cur is not None and cur is not stop:
        blk = _block_of(cur)
        if blk is not None:
            idx = blk.index(cur)
            counts: Dict[str, int] = {}
            defs: Dict[str, ast.AST] = {}
            for s in blk[:idx]:
                for n in ast.walk(s):
                    if isinstance(n, ast.Name) and isinstance(n.ctx, ast.Store):
                        counts[n.id] = counts.get(n.id, 0) + 1
                if isinstance(s, ast.Assign) and len(s.targets) == 1 and isinstance(s.targets[0], ast.Name):
                    defs[s.targets[0].id] = s.value
            for k, v in defs.items():
                if counts.get(k, 0) == 1 and k not in env:
                    env[k] = v
        cur = parent(cur)
        while cur is not None and not isinstance(cur, (ast.stmt, ast.Module)):
            cur = parent(cur)
        if isinstance(cur, (ast.FunctionDef, ast.Module)):
            break
    return env


def module_consts(tree: ast.Module) -> Dict[str, ast.AST]:
    out: Dict[str, ast.AST] = {}
    for s in tree.body:
        if isinstance(s, ast.Assign) and len(s.targets) == 1 and isinstance(s.targets[0], ast.Name):
            ok, _ = const_value(s.value)
            if ok:
                out[s.targets[0].id] = s.value
    return out


def substitute(expr: ast.AST, env: Dict[str, ast.AST], depth: int = 6) -> ast.AST:
    class S(ast.NodeTransformer):
        def __init__(self):
            self.d = 0

        def visit_Name(self, n):
            if isinstance(n.ctx, ast.Load) and n.id in env and self.d < depth:
                self.d += 1
                r = self.visit(clone(env[n.id]))
                self.d -= 1
                return r
            return n
    return ast.fix_missing_locations(S().visit(clone(expr)))


def inline_block_locals(expr: ast.AST, stmt: ast.stmt, module_tree: ast.Module = None, keep=()) -> ast.AST:
    """expr (part of stmt) with the named intermediates of the enclosing blocks and module constants substituted."""
    env = {k: v for k, v in local_env(stmt).items() if k not in keep}
    if module_tree is not None:
        for k, v in module_consts(module_tree).items():
            env.setdefault(k, v)
    return substitute(expr, env)


def inline_simple_calls(expr: ast.AST, module_functions: Dict[str, ast.FunctionDef], depth: int = 2) -> ast.AST:
    """Calls to helper functions of the same module whose body is (docstring +) simple assignments + one `return <expr>` are replaced
    by that expression with the parameters substituted by the arguments (positional, by name)."""
    class S(ast.NodeTransformer):
        def __init__(self):
            self.d = 0

        def visit_Call(self, c):
            self.generic_visit(c)
            name = c.func.id if isinstance(c.func, ast.Name) else None
            fn = module_functions.get(name) if name else None
            if fn is None or self.d >= depth or c.keywords and any(k.arg is None for k in c.keywords):
                return c
            body = [s for s in fn.body if not (isinstance(s, ast.Expr) and isinstance(s.value, ast.Constant))]
            if not body or not isinstance(body[-1], ast.Return) or body[-1].value is None:
                return c
            env: Dict[str, ast.AST] = {}
            params = [a.arg for a in fn.args.args]
            if len(c.args) > len(params):
                return c
            for p_, a_ in zip(params, c.args):
                env[p_] = a_
            for k in c.keywords:
                env[k.arg] = k.value
            defaults = fn.args.defaults
            for p_, d_ in zip(params[len(params) - len(defaults):], defaults):
                env.setdefault(p_, d_)
            if set(params) - set(env):
                return c
            for s in body[:-1]:
                if isinstance(s, ast.Assign) and len(s.targets) == 1 and isinstance(s.targets[0], ast.Name):
                    env[s.targets[0].id] = substitute(s.value, env)
                else:
                    return c
            self.d += 1
            r = self.visit(substitute(body[-1].value, env))
            self.d -= 1
            return r
    return ast.fix_missing_locations(S().visit(clone(expr)))
