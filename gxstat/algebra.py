"""E4: canonical forms of expressions -- exact rational functions over atoms (fractions.Fraction coefficients).

An expression tree is translated into Rat = Poly / Poly.  Atoms are normalised source texts (attribute paths,
names, opaque calls keyed by callee + canonical arguments).  Nothing is evaluated numerically except literal
folding; floats are converted exactly from their source text."""
from __future__ import annotations

import ast
from fractions import Fraction
from typing import Callable, Dict, Iterable, List, Optional, Set, Tuple

from .srcmodel import AnalysisError, dotted_name, norm

Mono = Tuple[Tuple[str, int], ...]


class Unsupported(Exception):
    pass


class Poly:
    __slots__ = ('t',)

    def __init__(self, terms: Dict[Mono, Fraction] = None):
        self.t: Dict[Mono, Fraction] = {m: c for m, c in (terms or {}).items() if c != 0}

    @staticmethod
    def const(c) -> 'Poly':
        return Poly({(): Fraction(c)})

    @staticmethod
    def atom(a: str) -> 'Poly':
        return Poly({((a, 1),): Fraction(1)})

    def is_zero(self) -> bool:
        return not self.t

    def is_const(self) -> bool:
        return all(m == () for m in self.t)

    def const_value(self) -> Fraction:
        return self.t.get((), Fraction(0))

    def __add__(self, o: 'Poly') -> 'Poly':
        r = dict(self.t)
        for m, c in o.t.items():
            r[m] = r.get(m, 0) + c
        return Poly(r)

    def __neg__(self) -> 'Poly':
        return Poly({m: -c for m, c in self.t.items()})

    def __sub__(self, o: 'Poly') -> 'Poly':
        return self + (-o)

    def __mul__(self, o: 'Poly') -> 'Poly':
        if len(self.t) * len(o.t) > 200000:
            raise Unsupported('polynomial product too large')
        r: Dict[Mono, Fraction] = {}
        for m1, c1 in self.t.items():
            for m2, c2 in o.t.items():
                m = _mul_mono(m1, m2)
                r[m] = r.get(m, 0) + c1 * c2
        return Poly(r)

    def __eq__(self, o) -> bool:
        return isinstance(o, Poly) and self.t == o.t

    def __hash__(self):
        return hash(frozenset(self.t.items()))

    def atoms(self) -> Set[str]:
        return {a for m in self.t for a, _ in m}

    def degree_in(self, atoms: Iterable[str]) -> Set[int]:
        s = set(atoms)
        return {sum(e for a, e in m if a in s) for m in self.t}

    def subst_zero(self, atom: str) -> 'Poly':
        return Poly({m: c for m, c in self.t.items() if not any(a == atom for a, _ in m)})

    def coefficient_of(self, atom: str) -> 'Poly':
        """Coefficient polynomial of atom^1 (terms where atom has exponent 1), atom removed."""
        r: Dict[Mono, Fraction] = {}
        for m, c in self.t.items():
            if any(a == atom and e == 1 for a, e in m):
                r[tuple((a, e) for a, e in m if a != atom)] = c
        return Poly(r)

    def terms_with(self, pred: Callable[[str], bool]) -> 'Poly':
        return Poly({m: c for m, c in self.t.items() if any(pred(a) for a, _ in m)})

    def terms_without(self, pred: Callable[[str], bool]) -> 'Poly':
        return Poly({m: c for m, c in self.t.items() if not any(pred(a) for a, _ in m)})

    def show(self, limit: int = 12) -> str:
        if not self.t:
            return '0'
        parts = []
        for m, c in sorted(self.t.items(), key=lambda x: (len(x[0]), x[0])):
            cs = str(c) if c.denominator == 1 else f'{float(c):.6g}'
            ms = '*'.join(a if e == 1 else f'{a}^{e}' for a, e in m)
            parts.append(f'{cs}*{ms}' if ms and c != 1 else (ms or cs))
            if len(parts) >= limit:
                parts.append(f'... ({len(self.t)} terms)')
                break
        return ' + '.join(parts)

    def canon(self) -> str:
        return ' + '.join(f'{c}*' + '*'.join(f'{a}^{e}' for a, e in m) for m, c in sorted(self.t.items()))


def _mul_mono(m1: Mono, m2: Mono) -> Mono:
    d: Dict[str, int] = {}
    for a, e in m1:
        d[a] = d.get(a, 0) + e
    for a, e in m2:
        d[a] = d.get(a, 0) + e
    return tuple(sorted((a, e) for a, e in d.items() if e != 0))


class Rat:
    __slots__ = ('n', 'd')

    def __init__(self, n: Poly, d: Poly = None):
        self.n = n
        self.d = d if d is not None else Poly.const(1)
        if self.d.is_zero():
            raise Unsupported('division by the zero polynomial')
        # normalise constant denominators and common monomial/constant content
        if self.d.is_const():
            c = self.d.const_value()
            self.n = Poly({m: v / c for m, v in self.n.t.items()})
            self.d = Poly.const(1)

    @staticmethod
    def const(c) -> 'Rat':
        return Rat(Poly.const(c))

    @staticmethod
    def atom(a: str) -> 'Rat':
        return Rat(Poly.atom(a))

    def __add__(self, o: 'Rat') -> 'Rat':
        if self.d == o.d:
            return Rat(self.n + o.n, self.d)
        return Rat(self.n * o.d + o.n * self.d, self.d * o.d)

    def __neg__(self) -> 'Rat':
        return Rat(-self.n, self.d)

    def __sub__(self, o: 'Rat') -> 'Rat':
        return self + (-o)

    def __mul__(self, o: 'Rat') -> 'Rat':
        return Rat(self.n * o.n, self.d * o.d)

    def __truediv__(self, o: 'Rat') -> 'Rat':
        if o.n.is_zero():
            raise Unsupported('division by zero expression')
        return Rat(self.n * o.d, self.d * o.n)

    def __pow__(self, k: int) -> 'Rat':
        if k == 0:
            return Rat.const(1)
        base = self if k > 0 else Rat.const(1) / self
        r = Rat.const(1)
        for _ in range(abs(k)):
            r = r * base
        return r

    def equals(self, o: 'Rat') -> bool:
        return (self.n * o.d) == (o.n * self.d)

    def is_zero(self) -> bool:
        return self.n.is_zero()

    def atoms(self) -> Set[str]:
        return self.n.atoms() | self.d.atoms()

    def is_const(self) -> bool:
        return self.n.is_const() and self.d.is_const()

    def const_value(self) -> Fraction:
        return self.n.const_value() / self.d.const_value()

    def show(self, limit: int = 10) -> str:
        if self.d == Poly.const(1):
            return self.n.show(limit)
        return f'({self.n.show(limit)}) / ({self.d.show(limit)})'

    def canon(self) -> str:
        return f'[{self.n.canon()}]/[{self.d.canon()}]'


def frac_of_number_text(node: ast.Constant, source_segment: Optional[str] = None) -> Fraction:
    v = node.value
    if isinstance(v, bool):
        return Fraction(int(v))
    if isinstance(v, int):
        return Fraction(v)
    if isinstance(v, float):
        # exact decimal reading of the shortest repr (1E8 -> 100000000, 2.931 -> 2931/1000)
        return Fraction(repr(v)) if 'inf' not in repr(v) and 'nan' not in repr(v) else Fraction(v)
    raise Unsupported(f'non-numeric constant {v!r}')


LINEAR_WRAPPERS = {'np.sum', 'np.average', 'np.mean', 'sum', 'np.add.accumulate', 'np.cumsum', 'np.trapz', 'np.array',
                   'np.asarray', 'float', 'np.float64', 'np.nansum', 'np.nanmean'}


# name -> FunctionDef of module-level helper functions that are safe to inline (set by the runner from the analysed tree)
INLINE_FUNCTIONS: Dict[str, ast.FunctionDef] = {}
# name -> numeric value of module-level constants with a unique name in the analysed tree (set by the runner)
MODULE_CONSTANTS: Dict[str, object] = {}


class Translator:
    """AST expression -> Rat.

    atom_of(node) may return a canonical atom name for Name/Attribute/Subscript leaves (default: normalised text).
    wrappers: 'identity' treats linear reducers (np.sum/np.average/...) as the identity (sound for unit/scale and
    degree questions), 'opaque' keeps them as atoms `np.sum(<monomial>)` that are additive but not multiplicative.
    binds: name -> symflow.Def current for the expression being translated; definitions are followed lazily and
    memoised per Def (inline(key) may veto following a definition: lazy inlining)."""

    def __init__(self, atom_of: Callable[[ast.AST], Optional[str]] = None, wrappers: str = 'identity',
                 binds: Dict[str, object] = None, inline: Callable[[str], bool] = None, opaque_ok: bool = True,
                 call_hook: Callable[['Translator', ast.Call], Optional['Rat']] = None):
        self.atom_of = atom_of
        self.wrappers = wrappers
        self.binds = binds or {}
        self.inline = inline
        self.opaque_ok = opaque_ok
        self.call_hook = call_hook
        self._inl_depth = 0
        self._memo: Dict[int, Rat] = {}
        self._active: Set[int] = set()

    def tr_def(self, d) -> Rat:
        """Translate a symflow.Def (its expression under its own bindings)."""
        if d.expr is None:
            return Rat.atom(f'<opaque {d.key}@{d.line}>')
        if id(d) in self._memo:
            return self._memo[id(d)]
        if id(d) in self._active:
            return Rat.atom(d.key)
        self._active.add(id(d))
        saved = self.binds
        self.binds = d.binds
        try:
            r = self.tr(d.expr)
        finally:
            self.binds = saved
            self._active.discard(id(d))
        self._memo[id(d)] = r
        return r

    def tr(self, node: ast.AST) -> Rat:
        if isinstance(node, ast.Constant):
            if isinstance(node.value, (int, float)) and not isinstance(node.value, bool):
                return Rat.const(frac_of_number_text(node))
            raise Unsupported(f'constant {node.value!r}')
        if isinstance(node, ast.UnaryOp):
            if isinstance(node.op, ast.USub):
                return -self.tr(node.operand)
            if isinstance(node.op, ast.UAdd):
                return self.tr(node.operand)
            raise Unsupported(norm(node))
        if isinstance(node, ast.BinOp):
            if isinstance(node.op, ast.Pow):
                base = self.tr(node.left)
                ex = self.tr(node.right)
                if ex.is_const() and ex.const_value().denominator == 1 and abs(ex.const_value()) <= 8:
                    return base ** int(ex.const_value())
                return self._opaque('pow', [node.left, node.right])
            a, b = self.tr(node.left), self.tr(node.right)
            if isinstance(node.op, ast.Add):
                return a + b
            if isinstance(node.op, ast.Sub):
                return a - b
            if isinstance(node.op, ast.Mult):
                return a * b
            if isinstance(node.op, ast.Div):
                return a / b
            raise Unsupported(f'operator {type(node.op).__name__} in {norm(node)[:60]}')
        if isinstance(node, ast.Call):
            if self.call_hook is not None:
                r = self.call_hook(self, node)
                if r is not None:
                    return r
            d = dotted_name(node.func) or norm(node.func)
            if isinstance(node.func, ast.Name) and node.func.id in INLINE_FUNCTIONS and self._inl_depth < 3:
                # a helper of the repository whose body is named intermediates + one returned expression: translate that expression
                from .inline import inline_simple_calls
                e2 = inline_simple_calls(node, {node.func.id: INLINE_FUNCTIONS[node.func.id]})
                if not (isinstance(e2, ast.Call) and isinstance(e2.func, ast.Name) and e2.func.id == node.func.id):
                    self._inl_depth += 1
                    try:
                        return self.tr(e2)
                    finally:
                        self._inl_depth -= 1
            if d in ('sum', 'np.sum', 'math.fsum') and len(node.args) == 1 and isinstance(node.args[0], (ast.List, ast.Tuple)) and \
                    not node.keywords and not any(isinstance(e, ast.Starred) for e in node.args[0].elts):
                acc = Rat.const(0)
                for e in node.args[0].elts:
                    acc = acc + self.tr(e)
                return acc
            if d in LINEAR_WRAPPERS and node.args:
                inner = self.tr(node.args[0])
                if self.wrappers == 'identity':
                    return inner
                return self._linear_opaque(d, inner)
            if d in ('np.power', 'pow', 'math.pow') and len(node.args) == 2:
                ex = None
                try:
                    ex = self.tr(node.args[1])
                except Unsupported:
                    pass
                if ex is not None and ex.is_const() and ex.const_value().denominator == 1 and abs(ex.const_value()) <= 8:
                    return self.tr(node.args[0]) ** int(ex.const_value())
                return self._opaque('np.power', node.args)
            return self._opaque(d, list(node.args) + [k.value for k in node.keywords])
        if isinstance(node, (ast.Name, ast.Attribute)):
            key = norm(node)
            d = self.binds.get(key)
            if d is not None and (self.inline is None or self.inline(key)):
                return self.tr_def(d)
            if isinstance(node, ast.Name) and d is None and key in MODULE_CONSTANTS:
                a0 = self.atom_of(node) if self.atom_of else None
                if a0 is None:
                    return Rat.const(Fraction(repr(float(MODULE_CONSTANTS[key]))))
            a = self.atom_of(node) if self.atom_of else None
            return Rat.atom(a or key)
        if isinstance(node, ast.Subscript):
            a = self.atom_of(node) if self.atom_of else None
            if a:
                return Rat.atom(a)
            # x[i]: atom keyed by the canonical base and the index text
            base = self._canon_arg(node.value) if not isinstance(node.value, (ast.Name, ast.Attribute)) else None
            if base is None:
                key = norm(node.value)
                d = self.binds.get(key)
                if d is not None and d.expr is not None and (self.inline is None or self.inline(key)):
                    base = self.tr_def(d).canon()
                else:
                    base = key
            return Rat.atom(f'{base}[{self._canon_arg(node.slice)}]')
        if isinstance(node, ast.IfExp):
            return self._opaque('ifexp', [node.test, node.body, node.orelse])
        if isinstance(node, (ast.List, ast.Tuple)):
            return self._opaque('seq', node.elts)
        if isinstance(node, ast.Compare):
            return Rat.atom('cmp(' + norm(node) + ')')
        if isinstance(node, ast.Slice):
            return Rat.atom('slice(' + norm(node) + ')')
        raise Unsupported(f'{type(node).__name__}: {norm(node)[:60]}')

    def _canon_arg(self, a: ast.AST) -> str:
        try:
            r = self.tr(a)
            if r.d == Poly.const(1) and len(r.n.t) == 1:
                (m, c), = r.n.t.items()
                if c == 1 and len(m) == 1 and m[0][1] == 1:
                    return m[0][0]
                if m == ():
                    return str(c)
            return r.canon()
        except Unsupported:
            return norm(a)

    def _opaque(self, name: str, args: List[ast.AST]) -> Rat:
        if not self.opaque_ok:
            raise Unsupported(f'opaque call {name}')
        return Rat.atom(f'{name}(' + ', '.join(self._canon_arg(a) for a in args) + ')')

    def _linear_opaque(self, name: str, inner: Rat) -> Rat:
        """S(a + b) = S(a) + S(b); constant factors pulled out; each monomial wrapped as one atom."""
        if inner.d != Poly.const(1):
            return Rat.atom(f'{name}({inner.canon()})')
        r = Poly()
        for m, c in inner.n.t.items():
            if m == ():
                r = r + Poly({((f'{name}(1)', 1),): c})
            else:
                r = r + Poly({((f'{name}(' + '*'.join(f'{a}^{e}' for a, e in m) + ')', 1),): c})
        return Rat(r)


def to_rat(node: ast.AST, **kw) -> Rat:
    return Translator(**kw).tr(node)
