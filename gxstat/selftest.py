"""Two-sided self-test of the checkers: seeded mutants of the *current* tree must be reported (right rule),
behaviour-preserving twins must stay silent.  Scratch copies live in a tempfile directory outside /repo and
/verif and are removed on exit."""
from __future__ import annotations

import importlib
import json
import os
import shutil
import subprocess
import sys
import tempfile
from concurrent.futures import ProcessPoolExecutor
from typing import Any, Dict, List, Tuple

VERIF = os.path.dirname(os.path.dirname(os.path.abspath(__file__)))
REPO = os.environ.get('GXSTAT_REPO', '/repo')


def _copy_sources(dst: str) -> None:
    """Copy only what the checks read: src/**/*.py and the schema JSON files."""
    for dp, dns, fns in os.walk(os.path.join(REPO, 'src')):
        dns[:] = [d for d in dns if d not in ('__pycache__',) and not d.endswith('.egg-info')]
        rel = os.path.relpath(dp, REPO)
        for fn in fns:
            if fn.endswith(('.py', '.json', '.txt')) and os.path.getsize(os.path.join(dp, fn)) < 2_000_000:
                os.makedirs(os.path.join(dst, rel), exist_ok=True)
                shutil.copy2(os.path.join(dp, fn), os.path.join(dst, rel, fn))


def _transform_all(root: str, how: str) -> Tuple[bool, str]:
    """Generic behaviour-preserving rewrites of every source file: `unparse` = regenerate the text from the syntax tree (comments
    dropped, layout and line numbers changed, quotes/parentheses normalised), `shift` = push every line down by a comment block,
    `log` = add a logging-style no-op statement at the top of every function body."""
    import ast
    n = 0
    for dp, dns, fns in os.walk(os.path.join(root, 'src')):
        for fn in fns:
            if not fn.endswith('.py'):
                continue
            p = os.path.join(dp, fn)
            src = open(p, encoding='utf-8').read()
            try:
                tree = ast.parse(src)
            except SyntaxError:
                continue
            if how == 'unparse':
                new = ast.unparse(tree) + '\n'
            elif how == 'shift':
                new = '# generated header line 1\n# generated header line 2\n# generated header line 3\n' + src
            elif how == 'log':
                class T(ast.NodeTransformer):
                    def visit_FunctionDef(self, node):
                        self.generic_visit(node)
                        i = 1 if (node.body and isinstance(node.body[0], ast.Expr) and isinstance(node.body[0].value, ast.Constant)
                                  and isinstance(node.body[0].value.value, str)) else 0
                        node.body.insert(i, ast.parse('_trace_marker_ = None').body[0])
                        return node
                new = ast.unparse(ast.fix_missing_locations(T().visit(tree))) + '\n'
            else:
                return False, f'unknown transform {how}'
            try:
                compile(new, p, 'exec')
            except SyntaxError as e:
                return False, f'transform {how} broke {p}: {e}'
            open(p, 'w', encoding='utf-8').write(new)
            n += 1
    return (n > 0), ('' if n else 'no file transformed')


def _apply(case: Dict[str, Any], root: str) -> Tuple[bool, str]:
    if case.get('transform'):
        return _transform_all(root, case['transform'])
    for ed in case['edits']:
        p = os.path.join(root, ed['file'])
        if not os.path.exists(p):
            return False, f'file missing: {ed["file"]}'
        s = open(p, encoding='utf-8').read()
        cnt = s.count(ed['old'])
        want = ed.get('count', 1)
        if cnt != want:
            return False, f'anchor text occurs {cnt}x (expected {want}) in {ed["file"]}: {ed["old"][:50]!r}'
        s = s.replace(ed['old'], ed['new'])
        try:
            compile(s, p, 'exec') if p.endswith('.py') else None
        except SyntaxError as e:
            return False, f'variant does not compile: {e}'
        open(p, 'w', encoding='utf-8').write(s)
    return True, ''


def _run_case(args: Tuple[Dict[str, Any], str]) -> Dict[str, Any]:
    case, tier = args
    tmp = tempfile.mkdtemp(prefix='gxstat-selftest-')
    try:
        _copy_sources(tmp)
        ok, why = _apply(case, tmp)
        if not ok:
            return {'id': case['id'], 'status': 'not-applicable', 'why': why}
        env = dict(os.environ, GXSTAT_REPO=tmp, GXSTAT_NO_EVIDENCE='1')
        pr = subprocess.run([sys.executable, os.path.join(VERIF, 'gxstat', 'selftest_child.py'), case['property'], tier, tmp],
                            capture_output=True, text=True, env=env, timeout=600)
        out = pr.stdout
        viol_rules = []
        for line in out.splitlines():
            if '  rule=' in line and 'instance=' in line:
                viol_rules.append(line.split('rule=')[1].split()[0])
        res = {'id': case['id'], 'exit': pr.returncode, 'rules': sorted(set(viol_rules))}
        if case['kind'] == 'mutant':
            exp = case.get('expect_rule')
            exp_set = set(exp if isinstance(exp, list) else [exp]) if exp else None
            if pr.returncode == 1 and (exp_set is None or exp_set & set(viol_rules)):
                res['status'] = 'caught'
            elif pr.returncode == 1:
                res['status'] = 'caught-other-rule'
            elif pr.returncode == 2:
                res['status'] = 'analysis-error'
                res['why'] = out.strip().splitlines()[-1][:200] if out.strip() else pr.stderr[-200:]
            else:
                res['status'] = 'MISSED'
        elif case['kind'] == 'idiom':
            # an equivalent rewrite in an idiom the rules may not know: staying silent or saying "cannot decide" (exit 2) are both
            # acceptable, reporting a violation is a false alarm
            if pr.returncode == 0:
                res['status'] = 'silent'
            elif pr.returncode == 2:
                res['status'] = 'undecided'
                res['why'] = out.strip().splitlines()[-1][:160] if out.strip() else ''
            else:
                res['status'] = 'FALSE-ALARM'
                res['why'] = '\n'.join(l for l in out.splitlines() if 'rule=' in l or 'ANALYSIS' in l)[:400]
        else:
            if pr.returncode == 0:
                res['status'] = 'silent'
            else:
                res['status'] = 'FALSE-ALARM' if pr.returncode == 1 else 'analysis-error'
                res['why'] = '\n'.join(l for l in out.splitlines() if 'rule=' in l or 'ANALYSIS' in l)[:400]
        return res
    except Exception as e:  # pragma: no cover
        return {'id': case['id'], 'status': 'harness-error', 'why': repr(e)}
    finally:
        shutil.rmtree(tmp, ignore_errors=True)


def load_cases(pid: str = None) -> List[Dict[str, Any]]:
    cases: List[Dict[str, Any]] = []
    d = os.path.join(VERIF, 'selftest')
    for fn in sorted(os.listdir(d)):
        if fn.endswith('.py') and fn != '__init__.py':
            mod = importlib.import_module(f'selftest.{fn[:-3]}')
            for c in mod.CASES:
                if pid is None or c['property'] == pid:
                    cases.append(c)
    # generic twins: whole-tree rewrites that change no behaviour, one set per property
    props = sorted({c['property'] for c in cases}) if pid is None else [pid]
    for pr in props:
        for how in ('unparse', 'shift', 'log'):
            cases.append({'id': f'{pr}-g-{how}', 'property': pr, 'kind': 'twin', 'transform': how, 'edits': []})
    return cases


def run_selftest(pid: str = None, tier: str = 'quick', jobs: int = 16) -> List[Dict[str, Any]]:
    cases = load_cases(pid)
    if not cases:
        return []
    with ProcessPoolExecutor(max_workers=min(jobs, len(cases))) as ex:
        return list(ex.map(_run_case, [(c, tier) for c in cases]))


def main(argv: List[str]) -> int:
    pid = argv[0].upper() if argv else None
    if pid == 'ALL':
        pid = None
    res = run_selftest(pid)
    bad = 0
    for r in res:
        flag = r['status']
        if flag in ('MISSED', 'FALSE-ALARM', 'analysis-error', 'harness-error'):
            bad += 1
        print(f"{r['id']:<42} {flag:<18} {','.join(r.get('rules', []))} {r.get('why', '')}")
    stale = sum(1 for r in res if r['status'] == 'not-applicable')
    print(f'{len(res)} cases, {bad} need attention, {stale} stale anchors')
    return 1 if bad else 0


if __name__ == '__main__':
    sys.path.insert(0, VERIF)
    sys.exit(main(sys.argv[1:]))
