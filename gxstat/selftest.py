"""Two-sided self-test of the checkers: seeded mutants of the *current* tree must be reported (right rule),
behaviour-preserving twins must stay silent.  Scratch copies live in a tempfile directory outside /repo and
/verif and are removed on exit."""
from __future__ import annotations

import importlib
import json
import os
import shutil
import subprocess
import sys
import tempfile
from concurrent.futures import ProcessPoolExecutor
from typing import Any, Dict, List, Tuple

VERIF = os.path.dirname(os.path.dirname(os.path.abspath(__file__)))
REPO = os.environ.get('GXSTAT_REPO', '/repo')


def _copy_sources(dst: str) -> None:
    """Copy only what the checks read: src/**/*.py and the schema JSON files."""
    for dp, dns, fns in os.walk(os.path.join(REPO, 'src')):
        dns[:] = [d for d in dns if d not in ('__pycache__',) and not d.endswith('.egg-info')]
        rel = os.path.relpath(dp, REPO)
        for fn in fns:
            if fn.endswith(('.py', '.json', '.txt')) and os.path.getsize(os.path.join(dp, fn)) < 2_000_000:
                os.makedirs(os.path.join(dst, rel), exist_ok=True)
                shutil.copy2(os.path.join(dp, fn), os.path.join(dst, rel, fn))


def _rename_locals(src: str, tree) -> str:
    """Alpha-rename every local variable that is assigned in a function and seen by no other scope (not a parameter, not global /
    nonlocal, not free in a nested function, lambda or comprehension): `x` becomes `x_rn`.  Functions that use locals(), vars(),
    eval() or exec() are left alone."""
    import ast
    import symtable
    try:
        top = symtable.symtable(src, '<src>', 'exec')
    except SyntaxError:
        return src
    plans = {}          # (name, lineno) -> set of names

    def walk(tab):
        for ch in tab.get_children():
            if ch.get_type() == 'function':
                free_in_children = set()

                def collect(t):
                    for c2 in t.get_children():
                        for sym in c2.get_symbols():
                            if sym.is_free() or sym.is_global():
                                free_in_children.add(sym.get_name())
                        collect(c2)
                collect(ch)
                names = set()
                for sym in ch.get_symbols():
                    n = sym.get_name()
                    if sym.is_local() and sym.is_assigned() and not sym.is_parameter() and not sym.is_global() and \
                            not sym.is_nonlocal() and n not in free_in_children and not n.startswith('__') and not sym.is_imported() and \
                            not sym.is_namespace():
                        names.add(n)
                plans[(ch.get_name(), ch.get_lineno())] = names
            walk(ch)
    walk(top)

    class R(ast.NodeTransformer):
        def _do(self, node):
            names = set(plans.get((node.name, node.lineno), set()))
            # never rename a name that any nested scope mentions (functions, lambdas, classes, comprehensions): computed on the
            # syntax tree because the symbol table of 3.12 folds inlined comprehensions into their parent
            for sub in ast.walk(node):
                if sub is not node and isinstance(sub, (ast.FunctionDef, ast.AsyncFunctionDef, ast.Lambda, ast.ClassDef, ast.ListComp,
                                                        ast.SetComp, ast.DictComp, ast.GeneratorExp)):
                    for x in ast.walk(sub):
                        if isinstance(x, ast.Name):
                            names.discard(x.id)
            body_src_uses_dynamic = any(isinstance(c, ast.Call) and isinstance(c.func, ast.Name) and c.func.id in ('locals', 'vars', 'eval', 'exec')
                                        for c in ast.walk(node))
            if names and not body_src_uses_dynamic:
                self._rename_in(node, names)
            self.generic_visit(node)
            return node
        visit_FunctionDef = _do
        visit_AsyncFunctionDef = _do

        def _rename_in(self, fn, names):
            # rename Name nodes of this scope only: do not descend into nested scopes
            def rec(n):
                for ch in ast.iter_child_nodes(n):
                    if isinstance(ch, (ast.FunctionDef, ast.AsyncFunctionDef, ast.Lambda, ast.ClassDef, ast.ListComp, ast.SetComp,
                                       ast.DictComp, ast.GeneratorExp)):
                        # decorators/defaults/first iterable are evaluated in the enclosing scope, but renamed names are never free
                        # in children, so nothing inside needs the new name; the first iterable of a comprehension is the exception
                        if isinstance(ch, (ast.ListComp, ast.SetComp, ast.DictComp, ast.GeneratorExp)):
                            rec_expr(ch.generators[0].iter)
                        continue
                    if isinstance(ch, ast.Name) and ch.id in names:
                        ch.id = ch.id + '_rn'
                    if isinstance(ch, ast.ExceptHandler) and ch.name in names:
                        ch.name = ch.name + '_rn'
                    if isinstance(ch, (ast.MatchAs, ast.MatchStar)) and getattr(ch, 'name', None) in names:
                        ch.name = ch.name + '_rn'
                    rec(ch)

            def rec_expr(e):
                if isinstance(e, ast.Name) and e.id in names:
                    e.id = e.id + '_rn'
                rec(e)
            for st in fn.body:
                if isinstance(st, ast.Name) and st.id in names:
                    st.id += '_rn'
                rec(st) if not isinstance(st, (ast.FunctionDef, ast.AsyncFunctionDef, ast.ClassDef)) else None
    new_tree = R().visit(tree)
    return ast.unparse(ast.fix_missing_locations(new_tree)) + '\n'


def _transform_all(root: str, how: str) -> Tuple[bool, str]:
    """Generic behaviour-preserving rewrites of every source file: `unparse` = regenerate the text from the syntax tree (comments
    dropped, layout and line numbers changed, quotes/parentheses normalised), `shift` = push every line down by a comment block,
    `log` = add a logging-style no-op statement at the top of every function body."""
    import ast
    n = 0
    for dp, dns, fns in os.walk(os.path.join(root, 'src')):
        for fn in fns:
            if not fn.endswith('.py'):
                continue
            p = os.path.join(dp, fn)
            src = open(p, encoding='utf-8').read()
            try:
                tree = ast.parse(src)
            except SyntaxError:
                continue
            if how == 'unparse':
                new = ast.unparse(tree) + '\n'
            elif how == 'shift':
                new = '# generated header line 1\n# generated header line 2\n# generated header line 3\n' + src
            elif how == 'rename':
                new = _rename_locals(src, tree)
            elif how == 'log':
                class T(ast.NodeTransformer):
                    def visit_FunctionDef(self, node):
                        self.generic_visit(node)
                        i = 1 if (node.body and isinstance(node.body[0], ast.Expr) and isinstance(node.body[0].value, ast.Constant)
                                  and isinstance(node.body[0].value.value, str)) else 0
                        node.body.insert(i, ast.parse('_trace_marker_ = None').body[0])
                        return node
                new = ast.unparse(ast.fix_missing_locations(T().visit(tree))) + '\n'
            else:
                return False, f'unknown transform {how}'
            try:
                compile(new, p, 'exec')
            except SyntaxError as e:
                return False, f'transform {how} broke {p}: {e}'
            open(p, 'w', encoding='utf-8').write(new)
            n += 1
    return (n > 0), ('' if n else 'no file transformed')


def _apply(case: Dict[str, Any], root: str) -> Tuple[bool, str]:
    if case.get('transform'):
        return _transform_all(root, case['transform'])
    if case.get('patch'):
        # an adopted behaviour-preserving refactoring is applied first; the case's edits then change the refactored code
        ap = subprocess.run(['patch', '-p1', '-s', '-d', root, '-i', os.path.join(VERIF, case['patch'])], capture_output=True, text=True)
        if ap.returncode != 0:
            return False, f'patch-stale: {case["patch"]}'
    for ed in case['edits']:
        p = os.path.join(root, ed['file'])
        if not os.path.exists(p):
            return False, f'file missing: {ed["file"]}'
        s = open(p, encoding='utf-8').read()
        cnt = s.count(ed['old'])
        want = ed.get('count', 1)
        if cnt != want:
            return False, f'anchor text occurs {cnt}x (expected {want}) in {ed["file"]}: {ed["old"][:50]!r}'
        s = s.replace(ed['old'], ed['new'])
        try:
            compile(s, p, 'exec') if p.endswith('.py') else None
        except SyntaxError as e:
            return False, f'variant does not compile: {e}'
        open(p, 'w', encoding='utf-8').write(s)
    return True, ''


def _run_case(args: Tuple[Dict[str, Any], str]) -> Dict[str, Any]:
    case, tier = args
    tmp = tempfile.mkdtemp(prefix='gxstat-selftest-')
    try:
        _copy_sources(tmp)
        ok, why = _apply(case, tmp)
        if not ok:
            return {'id': case['id'], 'status': 'not-applicable', 'why': why}
        env = dict(os.environ, GXSTAT_REPO=tmp, GXSTAT_NO_EVIDENCE='1')
        pr = subprocess.run([sys.executable, os.path.join(VERIF, 'gxstat', 'selftest_child.py'), case['property'], tier, tmp],
                            capture_output=True, text=True, env=env, timeout=600)
        out = pr.stdout
        viol_rules = []
        for line in out.splitlines():
            if '  rule=' in line and 'instance=' in line:
                viol_rules.append(line.split('rule=')[1].split()[0])
        res = {'id': case['id'], 'exit': pr.returncode, 'rules': sorted(set(viol_rules))}
        if case['kind'] == 'mutant':
            exp = case.get('expect_rule')
            exp_set = set(exp if isinstance(exp, list) else [exp]) if exp else None
            if pr.returncode == 1 and (exp_set is None or exp_set & set(viol_rules)):
                res['status'] = 'caught'
            elif pr.returncode == 1:
                res['status'] = 'caught-other-rule'
            elif pr.returncode == 2:
                res['status'] = 'analysis-error'
                res['why'] = out.strip().splitlines()[-1][:200] if out.strip() else pr.stderr[-200:]
            else:
                res['status'] = 'MISSED'
        elif case['kind'] == 'idiom':
            # an equivalent rewrite in an idiom the rules may not know: staying silent or saying "cannot decide" (exit 2) are both
            # acceptable, reporting a violation is a false alarm
            if pr.returncode == 0:
                res['status'] = 'silent'
            elif pr.returncode == 2:
                res['status'] = 'undecided'
                res['why'] = out.strip().splitlines()[-1][:160] if out.strip() else ''
            else:
                res['status'] = 'FALSE-ALARM'
                res['why'] = '\n'.join(l for l in out.splitlines() if 'rule=' in l or 'ANALYSIS' in l)[:400]
        else:
            if pr.returncode == 0:
                res['status'] = 'silent'
            else:
                res['status'] = 'FALSE-ALARM' if pr.returncode == 1 else 'analysis-error'
                res['why'] = '\n'.join(l for l in out.splitlines() if 'rule=' in l or 'ANALYSIS' in l)[:400]
        return res
    except Exception as e:  # pragma: no cover
        return {'id': case['id'], 'status': 'harness-error', 'why': repr(e)}
    finally:
        shutil.rmtree(tmp, ignore_errors=True)


def load_cases(pid: str = None) -> List[Dict[str, Any]]:
    cases: List[Dict[str, Any]] = []
    d = os.path.join(VERIF, 'selftest')
    for fn in sorted(os.listdir(d)):
        if fn.endswith('.py') and fn != '__init__.py':
            mod = importlib.import_module(f'selftest.{fn[:-3]}')
            for c in mod.CASES:
                if pid is None or c['property'] == pid:
                    cases.append(c)
    # generic twins: whole-tree rewrites that change no behaviour, one set per property
    props = sorted({c['property'] for c in cases}) if pid is None else [pid]
    for pr in props:
        for how in ('unparse', 'shift', 'log', 'rename'):
            # renaming every local at once takes away the names many rules are anchored on: "cannot decide" is an acceptable answer
            # there (kind idiom), a violation is not
            cases.append({'id': f'{pr}-g-{how}', 'property': pr, 'kind': 'idiom' if how == 'rename' else 'twin', 'transform': how, 'edits': []})
    return cases


def run_selftest(pid: str = None, tier: str = 'quick', jobs: int = 16) -> List[Dict[str, Any]]:
    cases = load_cases(pid)
    if not cases:
        return []
    with ProcessPoolExecutor(max_workers=min(jobs, len(cases))) as ex:
        return list(ex.map(_run_case, [(c, tier) for c in cases]))


def main(argv: List[str]) -> int:
    pid = argv[0].upper() if argv else None
    if pid == 'ALL':
        pid = None
    res = run_selftest(pid)
    bad = 0
    for r in res:
        flag = r['status']
        if flag in ('MISSED', 'FALSE-ALARM', 'analysis-error', 'harness-error'):
            bad += 1
        print(f"{r['id']:<42} {flag:<18} {','.join(r.get('rules', []))} {r.get('why', '')}")
    stale = sum(1 for r in res if r['status'] == 'not-applicable')
    other = sum(1 for r in res if r['status'] == 'caught-other-rule')
    print(f'{len(res)} cases, {bad} need attention, {stale} stale anchors' + (f', {other} caught by another rule than expected' if other else ''))
    return 1 if bad else 0


if __name__ == '__main__':
    sys.path.insert(0, VERIF)
    sys.exit(main(sys.argv[1:]))
